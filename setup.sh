#!/bin/sh
# Offline setup: nothing to build (bionumpy is pure Python and is imported from /repo's working tree).
# Verifies the tools the checks need and parses every specification.
cd "$(dirname "$0")" || exit 2
mkdir -p .work evidence replays
/venv/bin/python -W ignore -c "import sys; sys.path.insert(0,'/repo'); import numpy, jsonschema, hypothesis, bionumpy" || { echo "python environment incomplete"; exit 2; }
java -version >/dev/null 2>&1 || { echo "java missing"; exit 2; }
rc=0
for f in spec/MC_*.tla spec/Trace_*.tla; do
  [ -f "$f" ] || continue
  ( cd spec && java -cp /opt/veriftools/tla/tla2tools.jar:/opt/veriftools/tla/CommunityModules-deps.jar tla2sany.SANY "$(basename "$f")" >/tmp/sany.$$ 2>&1 ) || { echo "SANY failed on $f"; cat /tmp/sany.$$; rc=2; }
done
rm -f /tmp/sany.$$
exit $rc
