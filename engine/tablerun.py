"""Replay of Table.tla programs into real bionumpy tables (shared by C04, C05, C20)."""
import numpy as np

from . import tablekit as tk
from .core import outcome


def real_fields(fmt, pair):
    s = tk.SOURCES[fmt]
    names = [f for f, _ in s["fields"]]
    kinds = dict(s["fields"])
    m = {"f1": pair[0], "f2": pair[1]}
    return names, kinds, m


def sel_index(kind, n):
    if kind == "all":
        return slice(None)
    if kind == "tail":
        return slice(1, None)
    if kind == "head":
        return slice(None, -1)
    if kind == "step":
        return slice(None, None, 2)
    if kind == "rev":
        return slice(None, None, -1)
    if kind == "mask":
        return np.array([j % 2 == 1 for j in range(n)], dtype=bool)
    if kind == "lmask":
        return [j % 2 == 1 for j in range(n)]          # the same mask as a plain Python list of bools
    if kind == "list":
        return [-1, 0, 0] if n else []
    if kind == "empty":
        return slice(0, 0)
    raise ValueError(kind)


class Source:
    def __init__(self, fmt, variant):
        self.fmt, self.variant = fmt, variant
        self.data, self.raws, self.hdr = tk.source_bytes(fmt, variant)
        self.texts = [tk.record_lines(fmt, variant, i)[1] for i in range(tk.NREC)]
        self.names = [f for f, _ in tk.SOURCES[fmt]["fields"]]
        self.kinds = dict(tk.SOURCES[fmt]["fields"])

    def orig_text(self, h, field):
        return self.texts[h - 1][self.names.index(field)]

    def orig_value(self, h, field):
        return tk.parse_text(self.kinds[field], self.orig_text(h, field))


def concretise_value(src, m, tok):
    if tok[0] == "v":
        return src.orig_value(tok[1], m[tok[2]])
    raise ValueError(tok)


def value_of(src, m, tok, field_model):
    """token -> concrete value (for model field name field_model)"""
    if tok[0] == "v":
        return src.orig_value(tok[1], m[tok[2]])
    if tok[0] == "n":
        return tk.fresh_value(src.kinds[m[field_model]], tok[1], tok[2])
    raise ValueError(tok)


def serialise(src, field_texts):
    kind = tk.SOURCES[src.fmt]["kind"]
    if kind == "delim":
        cols = list(field_texts)
        if tk.SOURCES[src.fmt]["fields"][-1][1] == "l" and cols[-1] == "":
            cols = cols[:-1]
        return ("\t".join(cols) + "\n").encode()
    if kind == "fastq":
        return ("@%s\n%s\n+\n%s\n" % tuple(field_texts)).encode()
    return (">%s\n%s\n" % tuple(field_texts)).encode()


def expected_bytes(src, m, rows, eager):
    """rows: list of tokens ["raw", h] | ["join", h, {f: ["c", valtok] | ["t", h, f]}]"""
    inv = {v: k for k, v in m.items()}
    out = []
    for r in rows:
        if r[0] == "raw":
            out.append(src.raws[r[1] - 1])
            continue
        h, cols = r[1], r[2]
        texts = []
        for name in src.names:
            kind = src.kinds[name]
            if name in inv:
                t = cols[inv[name]]
                if t[0] == "c":
                    texts.append(tk.canon_text(kind, value_of(src, m, t[1], inv[name])))
                else:
                    texts.append(src.orig_text(t[1], name))
            elif eager:
                texts.append(tk.canon_text(kind, src.orig_value(h, name)))
            else:
                texts.append(src.orig_text(h, name))
        out.append(serialise(src, texts))
    return b"".join(out)


def expected_obs(src, m, obs, lazy):
    k = obs["kind"]
    if k == "len":
        return obs["val"]
    if k == "col":
        return None     # needs the model field: handled by caller
    return None


def find_chunk_size(src, split, lazy):
    """a min_chunk_size for which read_chunks yields exactly (split, NREC-split) entries"""
    body = len(src.data) - src.hdr
    for K in range(1, body + 3):
        rd = tk.open_table(src.fmt, src.data, lazy)
        o = outcome(lambda: [len(c) for c in rd.read_chunks(min_chunk_size=K)])
        if o == ("ok", [split, tk.NREC - split]):
            return K
    return None


def run_program(src, pair, prog, lazy, chunk_K=None, twin=False):
    """Apply prog to real tables. Returns (pool, outcomes) where outcomes[i] is ("ok", projected) | ("err", msg)
    for every operation after the read."""
    from bionumpy.bnpdataclass import replace
    names, kinds, m = real_fields(src.fmt, pair)
    first = prog[0]
    if first["op"] == "read":
        o = outcome(lambda: [tk.open_table(src.fmt, src.data, lazy).read()])
    else:
        o = outcome(lambda: list(tk.open_table(src.fmt, src.data, lazy).read_chunks(min_chunk_size=chunk_K)))
    if o[0] == "err":
        return None, [("err", "read: " + o[1])]
    pool = list(o[1])
    outs = []
    if first["op"] == "read_chunks" and len(pool) != 2:
        # the chunk size was found with eagerly read tables; a reader that cuts the file differently in this mode is an observation
        return None, [("err", "read: read_chunks gave %d chunks where the eager reader gives 2" % len(pool))]
    for step_, op in enumerate(prog[1:], start=1):
        name = op["op"]
        t = pool[op["t"] - 1]
        if name == "len":
            r = outcome(lambda: len(t))
        elif name == "get":
            f = m[op["f"]]
            r = outcome(lambda: tk.project_column(kinds[f], getattr(t, f)))
        elif name == "index":
            def do():
                u = t[sel_index(op["sel"], len(t))]
                pool.append(u)
                return len(u)
            r = outcome(do)
        elif name == "replace":
            f = m[op["f"]]

            def do():
                n = len(t)
                vals = [tk.fresh_value(kinds[f], op["_k"], j + 1) for j in range(n)]
                u = replace(t, **{f: tk.to_array(kinds[f], vals)})
                pool.append(u)
                return len(u)
            r = outcome(do)
        elif name == "assign":
            f = m[op["f"]]

            def do():
                n = len(t)
                vals = [tk.fresh_value(kinds[f], op["_k"], j + 1) for j in range(n)]
                setattr(t, f, tk.to_array(kinds[f], vals))
                return len(t)
            r = outcome(do)
        elif name == "concat":
            u0 = pool[op["u"] - 1]
            if twin and op["u"] == 1 and first["op"] == "read" and not any(q["op"] == "assign" and q["t"] == 1 for q in prog[1:step_]):
                # the same entries read through a second reader object (the same file opened twice): an equal table of another lazy class
                u0 = tk.open_table(src.fmt, src.data, lazy).read()

            def do():
                u = np.concatenate([t, u0])
                pool.append(u)
                return len(u)
            r = outcome(do)
        elif name == "tolist":
            def do():
                rows = t.tolist()
                out = []
                for row in rows:
                    out.append({nm: _proj_scalar(kinds[nm], getattr(row, nm)) for nm in names})
                return out
            r = outcome(do)
        elif name == "row":
            def do():
                j = op["j"] - 1
                row = t[np.int64(j) if op["form"] == "npint" else j]
                return [{nm: _proj_scalar(kinds[nm], getattr(row, nm)) for nm in names}]
            r = outcome(do)
        elif name == "write":
            r = outcome(lambda: tk.write_bytes(src.fmt, t))
        else:
            raise ValueError(name)
        outs.append(r)
        if r[0] == "err" and name in ("index", "replace", "concat"):
            break       # the pool no longer matches the model's; later steps are moot
    return pool, outs


def _proj_scalar(kind, v):
    if kind in ("i", "o", "p"):
        return int(v)
    if kind == "f":
        return repr(float(v))
    if kind in ("q", "L"):
        return [int(x) for x in (v.tolist() if hasattr(v, "tolist") else v)]
    if hasattr(v, "to_string"):
        return v.to_string()
    return str(v)


def annotate_replace_counters(prog):
    k = 0
    for op in prog:
        if op["op"] in ("replace", "assign"):
            k += 1
            op["_k"] = k
    return prog


def expected_last(src, pair, prog, obs, lazy):
    """Concrete expectation for the last operation of prog from the model's obs."""
    names, kinds, m = real_fields(src.fmt, pair)
    op = prog[-1]
    k = obs["kind"]
    if k == "len":
        return obs["val"]
    if k == "col":
        return [value_of(src, m, t, op["f"]) for t in obs["val"]]
    if k == "rows":
        inv = {v: kk for kk, v in m.items()}
        out = []
        for r in obs["val"]:
            row = {}
            for nm in names:
                if nm in inv:
                    row[nm] = value_of(src, m, r["vals"][inv[nm]], inv[nm])
                else:
                    row[nm] = src.orig_value(r["h"], nm)
            out.append(row)
        return out
    if k == "bytes":
        return expected_bytes(src, m, obs["lazy" if lazy else "eager"], eager=not lazy)
    return None
