"""EXT — specification growth beyond the listed properties.

The specification keeps growing to cover behaviour of bionumpy that no listed property talks about.  Such modules are
model-checked and bound to the code exactly like the others, but they are not evidence for any property and are not in
MANIFEST.json: `./check EXT --tier quick|thorough` runs them all, prints `VIOLATION property=EXT ...` for a disagreement and
writes evidence_ext/EXT.json.  (Extensions that fall under a listed property's statement live in that property's driver:
Graph.tla in C11, Binned.tla in C10.)

  Signature.tla   mutation types of single-base substitutions in their sequence context (variants/mutation_signature.py)
"""
import json

import numpy as np

from .. import core
from ..core import outcome

RULE = ("one case = one state of an extension specification (Signature: references x set of substitutions) replayed into bionumpy; "
        "non-trivial = more than one substitution; distinct by full state")


def check_signature(v):
    """One state of spec/Signature.tla: mutation-type counts of the substitutions against the references."""
    import bionumpy as bnp
    from bionumpy.datatypes import Variant
    from bionumpy.variants import count_mutation_types_genomic
    from bionumpy.genomic_data.genome import Genome
    from bionumpy.genomic_data.genomic_sequence import GenomicSequenceDict
    L = "ACGTN"
    refs = ["".join(L[x] for x in r) for r in v["refs"]]
    names = ["chr%d" % (i + 1) for i in range(len(refs))]
    snps = v["snps"]
    flank = v["flank"]

    def label(t):
        ctx, alt = t
        return "".join(L[x] for x in ctx[:flank]) + "[" + L[ctx[flank]] + ">" + L[alt] + "]" + "".join(L[x] for x in ctx[flank + 1:])
    want = {label(t): c for t, c in v["counts"]}

    def run_():
        # the substitutions are given in genome order (as a VCF would list them)
        order = sorted(range(len(snps)), key=lambda i: (snps[i][0], snps[i][1]))
        var = Variant([names[snps[i][0] - 1] for i in order], [snps[i][1] for i in order],
                      [refs[snps[i][0] - 1][snps[i][1]] for i in order], [L[snps[i][2]] for i in order])
        loc = Genome({nm: len(r) for nm, r in zip(names, refs)}).get_locations(var)
        counts = count_mutation_types_genomic(loc, GenomicSequenceDict(dict(zip(names, refs))), flank=flank)
        return {str(lab): int(c) for lab, c in zip(counts.alphabet, np.asarray(counts.counts).ravel().tolist()) if c}
    bad = []
    if snps:
        o = outcome(run_)
        if o != ("ok", want):
            bad.append({"what": "mutation-type counts differ from the types of the substitutions", "tags": {"op": "mutation-types", "spec": "Signature", "flank": flank},
                        "group": {"op": "mutation-types"}, "vectors": [v], "expected": want, "observed": o})
    return {"n": 1 if snps else 0, "nt": [json.dumps(["sig", v["refs"], snps])] if len(snps) > 1 else [], "bad": bad}


def run(ctx):
    quick = ctx.tier == "quick"
    first = None
    for refs, flank, ms in (("R1", 1, 2), ("R2", 1, 2), ("R1", 2, 2)) if quick else (("R1", 1, 3), ("R2", 1, 3), ("R1", 2, 3), ("R2", 2, 2)):
        res = ctx.tlc("MC_Signature", tag="MC_Signature_%s_%d" % (refs, flank), spec="Spec", workers=4,
                      constants={"Refs": "<- " + refs, "Flank": flank, "MaxSnps": ms},
                      invariants=["PyrimidineMiddle", "Total", "StrandSymmetric", "Emit"], coverage=True)
        ctx.require_actions(res, "MC_Signature", ["Add"])
        if first is None:
            first = res.vectors[5]
            ctx.sample(first)
        ctx.absorb(core.pmap(check_signature, res.vectors, chunk=50))
    ctx.exhaustive = True
    return ctx.finish(RULE, assumptions=[
        "not evidence for any listed property: specification growth (DESIGN.md section 18)",
        "Signature: substitutions at interior positions (a full context exists), listed in genome order; contexts holding N are not counted",
    ])


def replay(d):
    print("replay of EXT case:", d.get("what"), d.get("tags"))
    v = (d.get("vectors") or [d.get("vector")])[0]
    r = check_signature(v)
    for b in r["bad"]:
        print("  disagrees:", b["what"], "expected", b["expected"], "observed", b["observed"])
    if not r["bad"]:
        print("  agrees now")
    return 1 if r["bad"] else 0
