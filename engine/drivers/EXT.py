"""EXT — specification growth beyond the listed properties.

The specification keeps growing to cover behaviour of bionumpy that no listed property talks about.  Such modules are
model-checked and bound to the code exactly like the others, but they are not evidence for any property and are not in
MANIFEST.json: `./check EXT --tier quick|thorough` runs them all, prints `VIOLATION property=EXT ...` for a disagreement and
writes evidence_ext/EXT.json.  (Extensions that fall under a listed property's statement live in that property's driver:
Graph.tla in C11, Binned.tla in C10.)

  Signature.tla   mutation types of single-base substitutions in their sequence context (variants/mutation_signature.py)
  Matrix.tla      numeric matrices as delimited text: parse_matrix and matrix_to_csv (io/matrix_dump.py)
  Annotation.tla  gene / transcript / exon tables and their ids from GTF and GFF3 attribute text (datatypes/gtf.py)
  Join.tla        left join of two key-grouped streams (streams/left_join.py)
  Consensus.tla   single-base variants applied to reference sequences (variants/consensus.py)
  Lookup.tla      tables indexed by letters (encoded_array.py: EncodedLookup)
  Csv.tla         delimited files with a header line read into a user-defined table type by column name (io/delimited_buffers.py)
  Motif.tla       motif files (.jaspar, .csv) read with read_motif and scored (io/jaspar.py, io/motifs.py)
  Windows.tla!Index   k-mer index and lookup (sequence/indexing/kmer_indexing.py), on the states of MC_C13
"""
import os
import json

import numpy as np

from .. import core
from ..core import outcome

RULE = ("one case = one state of an extension specification (Signature: references x set of substitutions) replayed into bionumpy; "
        "non-trivial = more than one substitution; distinct by full state")


def check_signature(v):
    """One state of spec/Signature.tla: mutation-type counts of the substitutions against the references."""
    import bionumpy as bnp
    from bionumpy.datatypes import Variant
    from bionumpy.variants import count_mutation_types_genomic
    from bionumpy.genomic_data.genome import Genome
    from bionumpy.genomic_data.genomic_sequence import GenomicSequenceDict
    L = "ACGTN"
    refs = ["".join(L[x] for x in r) for r in v["refs"]]
    names = ["chr%d" % (i + 1) for i in range(len(refs))]
    snps = v["snps"]
    flank = v["flank"]

    def label(t):
        ctx, alt = t
        return "".join(L[x] for x in ctx[:flank]) + "[" + L[ctx[flank]] + ">" + L[alt] + "]" + "".join(L[x] for x in ctx[flank + 1:])
    want = {label(t): c for t, c in v["counts"]}

    def run_():
        # the substitutions are given in genome order (as a VCF would list them)
        order = sorted(range(len(snps)), key=lambda i: (snps[i][0], snps[i][1]))
        var = Variant([names[snps[i][0] - 1] for i in order], [snps[i][1] for i in order],
                      [refs[snps[i][0] - 1][snps[i][1]] for i in order], [L[snps[i][2]] for i in order])
        loc = Genome({nm: len(r) for nm, r in zip(names, refs)}).get_locations(var)
        counts = count_mutation_types_genomic(loc, GenomicSequenceDict(dict(zip(names, refs))), flank=flank)
        return {str(lab): int(c) for lab, c in zip(counts.alphabet, np.asarray(counts.counts).ravel().tolist()) if c}
    bad = []
    if snps:
        o = outcome(run_)
        if o != ("ok", want):
            bad.append({"what": "mutation-type counts differ from the types of the substitutions", "tags": {"op": "mutation-types", "spec": "Signature", "flank": flank},
                        "group": {"op": "mutation-types"}, "vectors": [v], "expected": want, "observed": o})
    return {"n": 1 if snps else 0, "nt": [json.dumps(["sig", v["refs"], snps])] if len(snps) > 1 else [], "bad": bad}


KEYS = {1: "gene_id", 2: "transcript_id", 3: "exon_id", 4: "gene_name", 5: "ref_gene_id"}
VALS = {1: "g1", 2: "T22x", 4: "a b", 5: "x"}


def check_annotation(v):
    """One state of spec/Annotation.tla as a GTF and as a GFF3 file: get_genes / get_transcripts / get_exons."""
    import bionumpy as bnp
    entries = v["entries"]
    d = os.path.join(v["_dir"], "ann_%d_%d" % (os.getpid(), v["_id"]))
    os.makedirs(d, exist_ok=True)
    bad, n = [], 0
    for style in ("gtf", "gff"):
        lines = []
        for i, e in enumerate(entries):
            pairs = [(KEYS[k], VALS[val].replace(" ", "_") if style == "gff" else VALS[val]) for k, val in e["attrs"]]
            attr = " ".join('%s "%s";' % kv for kv in pairs) if style == "gtf" else ";".join("%s=%s" % kv for kv in pairs)
            lines.append("\t".join(["chr1", "src", e["ft"], str(10 * (i + 1)), str(10 * (i + 1) + 5), ".", "+", ".", attr]))
        path = os.path.join(d, "a." + style)
        with open(path, "w") as f:
            f.write("".join(l + "\n" for l in lines))
        for what, meth, keys in (("genes", "get_genes", ["gene_id"]), ("transcripts", "get_transcripts", ["transcript_id", "gene_id"]),
                                 ("exons", "get_exons", ["transcript_id", "gene_id", "exon_id"])):
            want = [[10 * r["row"]] + [(VALS[x].replace(" ", "_") if style == "gff" else VALS[x]) for x in r["ids"]] for r in v[what]]

            def run_():
                t = getattr(bnp.open(path).read(), meth)()
                cols = [[int(x) for x in t.start.tolist()]] + [[str(x) for x in getattr(t, k).tolist()] for k in keys]
                return [list(r) for r in zip(*cols)] if len(t) else []
            o = outcome(run_)
            n += 1
            if o != ("ok", want):
                bad.append({"what": "%s() of %s entries differs from the entries of that type with their own ids" % (meth, style.upper()),
                            "tags": {"spec": "Annotation", "op": meth, "style": style, "kind": "raises" if o[0] == "err" else "values"},
                            "vector": {k: v[k] for k in v if not k.startswith("_")}, "expected": want, "observed": o})
    import shutil
    shutil.rmtree(d, ignore_errors=True)
    return {"n": n, "nt": [json.dumps(["ann", entries])] if len(entries) > 1 else [], "bad": bad}


def check_matrix(v):
    """One state of spec/Matrix.tla: its text parsed, and the matrix written as csv."""
    import bionumpy as bnp
    from bionumpy.io.matrix_dump import parse_matrix, matrix_to_csv
    txt = lambda b: "".join(chr(c) for c in b)
    data, rows, cols, sep = v["data"], [txt(r) for r in v["rows"]], [txt(c) for c in v["cols"]], chr(v["sep"])
    bad, n = [], 0

    def parsed():
        m = parse_matrix(txt(v["text"]), field_type=int, rowname_type=str if rows else None, sep=sep)
        return {"data": [[int(x) for x in r] for r in np.asarray(m.data).tolist()], "cols": [str(c) for c in m.col_names.tolist()],
                "rows": [str(r) for r in m.row_names.tolist()] if m.row_names is not None else []}
    o = outcome(parsed)
    n += 1
    want = {"data": data, "cols": cols, "rows": rows}
    if o != ("ok", want):
        bad.append({"what": "parse_matrix differs from the cells of the text", "tags": {"spec": "Matrix", "op": "parse_matrix", "row_names": bool(rows)},
                    "vector": v, "expected": want, "observed": o})
    base = np.array(data, dtype=int)
    # Layouts (Matrix.tla): the same matrix held row-major, column-major or as a strided window of a larger one
    wide = np.zeros((2 * base.shape[0], 2 * base.shape[1]), dtype=int)
    wide[::2, ::2] = base
    for layout, m in (("row-major", base), ("column-major", np.asfortranarray(base)), ("strided", wide[::2, ::2])):
        o = outcome(lambda: bnp.as_encoded_array(matrix_to_csv(m, header=cols, sep=sep)).to_string())
        n += 1
        if o != ("ok", txt(v["csv"])):
            bad.append({"what": "matrix_to_csv differs from header and rows joined by the separator", "tags": {"spec": "Matrix", "op": "matrix_to_csv", "row_names": bool(rows), "layout": layout},
                        "vector": v, "expected": txt(v["csv"]), "observed": o})
    return {"n": n, "nt": [json.dumps(["matrix", data, rows, cols])] if len(data) > 1 or len(cols) > 1 else [], "bad": bad}


def check_join(v):
    """One completed behaviour of spec/Join.tla replayed into streams.left_join."""
    from bionumpy.streams.left_join import left_join
    left, right = v["left"], v["right"]

    def run_():
        return [[k, d] for k, _l, d in left_join(iter([("k%d" % k, ("L", k)) for k in left]), iter([("k%d" % k, "R") for k in right]))]
    o = outcome(run_)
    bad = []
    tags = {"spec": "Join", "op": "left_join", "joinable": v["joinable"]}
    if v["status"] == "done":
        want = [["k%d" % k, (d if d == "R" else None)] for k, d in v["out"]]
        if o != ("ok", want):
            bad.append({"what": "left_join differs from pairing every left group with the right group of its key", "tags": tags, "vector": v, "expected": want, "observed": o})
    elif o[0] == "ok":
        bad.append({"what": "left_join completed although the right side has groups the left side lacks (or in another order): they are dropped silently",
                    "tags": tags, "vector": v, "expected": "an error", "observed": o})
    return {"n": 1, "nt": [json.dumps(["join", left, right])] if right else [], "bad": bad}


def check_kmer_index(v):
    """One state of MC_C13 (Windows.tla!Index): the k-mer index and the lookup of the sequences that hold a k-mer."""
    import bionumpy as bnp
    from bionumpy.sequence.indexing.kmer_indexing import KmerIndex, KmerLookup
    rows = v["rows"]
    alpha = "ACGT"
    texts = ["".join(alpha[c] for c in r) for r in rows]
    bad, n = [], 0
    for k in range(1, len(v["index"]) + 1):
        if not any(len(t) >= k for t in texts):
            continue
        seqs = bnp.as_encoded_array(texts, bnp.DNAEncoding)
        want = {"".join(alpha[c] for c in km): sorted(j - 1 for j in js) for km, js in v["index"][k - 1]}

        def code(km):
            # the k-mer as the integer the index is keyed by (asking with a str converts a one-element array with int(), which the numpy of
            # this sandbox refuses: environment, section 5)
            from bionumpy.sequence import get_kmers
            return int(get_kmers(bnp.as_encoded_array(km, bnp.DNAEncoding), k).raw().ravel()[0])

        def run_():
            idx = KmerIndex.create_index(seqs, k)
            lk = KmerLookup.create_lookup(seqs, k=k)
            got = {km: [int(x) for x in idx.get_indices(code(km))] for km in want}
            absent = "".join("T" for _ in range(k))
            extra = [int(x) for x in idx.get_indices(code(absent))] if absent not in want else []
            looked = {km: lk.get_sequences(code(km)).tolist() for km in want}
            return got, extra, looked
        o = outcome(run_)
        n += 1
        wl = {km: [texts[j] for j in js] for km, js in want.items()}
        if o != ("ok", (want, [], wl)):
            bad.append({"what": "k-mer index / lookup differs from the rows that hold the k-mer", "tags": {"spec": "Windows.Index", "op": "kmer-index", "k": k},
                        "vector": {"rows": rows}, "case": {"texts": texts}, "expected": str((want, wl))[:300], "observed": str(o)[:400]})
    return {"n": n, "nt": [json.dumps(["kidx", rows])] if len(rows) > 1 else [], "bad": bad}


def check_lookup(v):
    """One state of spec/Lookup.tla: the writes applied to EncodedLookup objects through letter keys, then every read."""
    import bionumpy as bnp
    from bionumpy import EncodedLookup
    from bionumpy.encodings.alphabet_encoding import AlphabetEncoding
    n_ = v["n"]
    L = "ACGT"[:n_]
    enc = AlphabetEncoding(L)
    if not v["writes"]:
        return {"n": 0, "nt": [], "bad": []}
    bad, n = [], 0
    for form in ("str", "encoded"):
        def key(t):
            text = "".join(L[a - 1] for a in t)
            return text if form == "str" else bnp.as_encoded_array(text, enc)

        def run_():
            one = EncodedLookup(np.zeros(n_, dtype=int), enc)
            two = EncodedLookup(np.zeros((n_, n_), dtype=int), enc)
            for kind, t, val in v["writes"]:
                if kind == "one":
                    one[key(t)] = val
                else:
                    two[key(t[:1]), key(t[1:])] = val
            whole = list(range(1, n_ + 1))
            r1 = [int(x) for x in np.asarray(one[key(whole)]).tolist()] + [int(np.asarray(one[key([a])]).ravel()[0]) for a in whole]
            r2 = [[int(x) for x in np.asarray(two[key([a] * n_), key(whole)]).tolist()] for a in whole]
            rev = [int(x) for x in np.asarray(one[key(whole[::-1])]).tolist()]
            return r1, r2, rev
        o = outcome(run_)
        n += 1
        want = (v["one"] + v["one"], v["two"], v["one"][::-1])
        if o != ("ok", want):
            bad.append({"what": "a table indexed by letters does not hold what was written to it through letter keys",
                        "tags": {"spec": "Lookup", "key": form}, "vector": v, "case": {"alphabet": L, "writes": v["writes"]},
                        "expected": list(want), "observed": o})
    return {"n": n, "nt": [json.dumps(["lookup", v["writes"]])] if len(v["writes"]) > 1 else [], "bad": bad}


def check_consensus(v):
    """One state of spec/Consensus.tla: the variants applied to the reference sequences."""
    import bionumpy as bnp
    from bionumpy.datatypes import SequenceEntry, Variant
    from bionumpy.variants.consensus import apply_variants, apply_variants_to_sequence
    L = "ACGT"
    refs = ["".join(L[x] for x in r) for r in v["refs"]]
    names = ["c1", "c11", "c2"][:len(refs)]          # one name is a prefix of another
    vs = v["variants"]
    want = ["".join(L[x] for x in r) for r in v["consensus"]]
    bad, n = [], 0
    if not vs:
        return {"n": 0, "nt": [], "bad": []}

    def table(order):
        return Variant([names[vs[i][0] - 1] for i in order], [vs[i][1] for i in order], [refs[vs[i][0] - 1][vs[i][1]] for i in order], [L[vs[i][2]] for i in order])
    orders = {"as given": list(range(len(vs))), "genome order": sorted(range(len(vs)), key=lambda i: (vs[i][0], vs[i][1]))}
    for oname, order in orders.items():
        def run_():
            entries = SequenceEntry(names, refs)
            out = apply_variants(entries, table(order))
            return out.sequence.tolist(), entries.sequence.tolist(), out.name.tolist()
        o = outcome(run_)
        n += 1
        if o != ("ok", (want, refs, names)):
            bad.append({"what": "apply_variants differs from the references with the alternative base at every variant position (or changed its input)",
                        "tags": {"spec": "Consensus", "op": "apply_variants", "order": oname}, "vector": v, "case": {"refs": refs, "variants": vs},
                        "expected": [want, refs], "observed": o})
    # one contig at a time through the array function
    for c, ref in enumerate(refs):
        mine = [i for i in range(len(vs)) if vs[i][0] == c + 1]
        if not mine:
            continue
        def one():
            seq = bnp.as_encoded_array(ref, bnp.DNAEncoding)
            out = apply_variants_to_sequence(seq, table(mine))
            return out.to_string(), seq.to_string()
        o = outcome(one)
        n += 1
        if o != ("ok", (want[c], ref)):
            bad.append({"what": "apply_variants_to_sequence differs from the reference with the alternative bases (or changed its input)",
                        "tags": {"spec": "Consensus", "op": "apply_variants_to_sequence"}, "vector": v, "case": {"ref": ref, "variants": [vs[i] for i in mine]},
                        "expected": [want[c], ref], "observed": o})
    return {"n": n, "nt": [json.dumps(["cons", v["refs"], vs])] if len(vs) > 1 else [], "bad": bad}


def check_motif(v):
    """One state of spec/Motif.tla: the motif written as .jaspar and as .csv, read with read_motif, and scored."""
    import bionumpy as bnp
    from bionumpy.io import read_motif
    from bionumpy.sequence.position_weight_matrix import get_motif_scores
    order = "".join(chr(c) for c in v["order"])
    W = len(v["e"][0])
    d = os.path.join(v["_dir"], "motif_%d" % os.getpid())
    os.makedirs(d, exist_ok=True)
    weights = {order[l]: v["weights"][l] for l in range(len(order))}
    letters = sorted(order)
    seqs = ["".join(letters[(i + j) % len(letters)] for j in range(n)) for i, n in enumerate((W, W + 2, 1, W + 1))]
    want = [[sum(weights[s[i + p]][p] for p in range(W)) * float(np.log(2)) for i in range(len(s) - W + 1)] for s in seqs]
    bad, n = [], 0
    for suffix, key in ((".jaspar", "jaspar"), (".csv", "csv")):
        path = os.path.join(d, "m" + suffix)
        with open(path, "wb") as f:
            f.write(bytes(v[key]))

        def run_():
            pwm = read_motif(path)
            return [[float(x) for x in row] for row in get_motif_scores(bnp.as_encoded_array(seqs), pwm).tolist()]
        o = outcome(run_)
        n += 1
        if o[0] != "ok" or [len(r) for r in o[1]] != [len(r) for r in want] or any(abs(a - b) > 1e-9 for ra, rb in zip(o[1], want) for a, b in zip(ra, rb)):
            bad.append({"what": "scores of a motif read from a %s file differ from the log odds of its counts" % suffix, "tags": {"spec": "Motif", "op": "read_motif", "file": suffix, "letters": len(order)},
                        "vector": {k: v[k] for k in v if not k.startswith("_")}, "case": {"text": bytes(v[key]).decode(), "sequences": seqs}, "expected": want, "observed": o})
    return {"n": n, "nt": [json.dumps(["motif", v["order"], v["e"]])], "bad": bad}


_REC = []


def check_csv(v):
    """One state of spec/Csv.tla: the file read into a user-defined table type by header name (lazily, eagerly, in chunks) and written again."""
    import bionumpy as bnp
    from bionumpy.bnpdataclass import bnpdataclass
    from bionumpy.io.delimited_buffers import get_bufferclass_for_datatype
    if not _REC:
        @bnpdataclass
        class Rec:
            name: str
            count: int
            score: float
        _REC.append(Rec)
    Rec = _REC[0]
    rows = v["rows"]
    if not rows:
        return {"n": 0, "nt": [], "bad": []}
    sep = chr(v["sep"])
    text, canon = bytes(v["text"]), bytes(v["canon"])
    d = os.path.join(v["_dir"], "csv_%d" % os.getpid())
    os.makedirs(d, exist_ok=True)
    path = os.path.join(d, "t.csv")
    with open(path, "wb") as f:
        f.write(text)
    buf = get_bufferclass_for_datatype(Rec, delimiter=sep, has_header=bool(v.get("withheader", True)))
    want = [["".join(chr(c) for c in r["name"]), r["count"], float("".join(chr(c) for c in r["score"]))] for r in rows]
    hdr = ["".join(chr(c) for c in h) for h in v["header"]]
    tags0 = {"spec": "Csv", "header": ",".join(hdr), "extra_column": "extra" in hdr, "permuted": [h for h in hdr if h != "extra"] != ["name", "count", "score"]}
    bad, n = [], 0

    def proj(t):
        return [[a, int(b), float(c)] for a, b, c in zip(t.name.tolist(), t.count.tolist(), t.score.tolist())]
    for mode, f in (("lazy", lambda: proj(bnp.open(path, buffer_type=buf).read())),
                    ("eager", lambda: proj(bnp.open(path, buffer_type=buf, lazy=False).read())),
                    ("chunks", lambda: [r for c in bnp.open(path, buffer_type=buf).read_chunks(min_chunk_size=max(len(l) for l in text.split(b"\n")) + 1) for r in proj(c)]),
                    ("reversed", lambda: proj(bnp.open(path, buffer_type=buf).read()[::-1])[::-1])):
        o = outcome(f)
        n += 1
        if o != ("ok", want):
            bad.append({"what": "a delimited file with a header read into a table type does not give the columns named by the header", "tags": dict(tags0, op="read", mode=mode),
                        "vector": {k: v[k] for k in v if not k.startswith("_")}, "case": {"text": text.decode()}, "expected": want, "observed": o})
    out = os.path.join(d, "w.csv")

    def write(lazy):
        t = bnp.open(path, buffer_type=buf, lazy=lazy).read()
        with bnp.open(out, "w", buffer_type=buf) as w:
            w.write(t)
        return open(out, "rb").read()
    comment = b"#x\n" if text.startswith(b"#") else b""
    for mode, lazy, wanted in (("lazy", None, text[len(comment):]), ("eager", False, canon)):
        o = outcome(write, lazy)
        n += 1
        if o != ("ok", wanted):
            bad.append({"what": "writing the table read from a delimited file with a header does not give %s" % ("the file's own lines" if lazy is None else "the fields of the type under their names"),
                        "tags": dict(tags0, op="write", mode=mode), "vector": {k: v[k] for k in v if not k.startswith("_")}, "case": {"text": text.decode()},
                        "expected": wanted.decode(), "observed": str(o)[:300]})
    return {"n": n, "nt": [json.dumps(["csv", v["header"], rows])] if tags0["permuted"] or tags0["extra_column"] else [], "bad": bad}


def run(ctx):
    quick = ctx.tier == "quick"
    first = None
    for sepc, wc, wh in ((44, False, True), (9, True, True), (9, False, False)) if quick else ((44, False, True), (9, True, True), (59, False, True), (44, True, True), (9, False, False), (44, True, False)):
        res = ctx.tlc("MC_Csv", tag="MC_Csv_%d_%s_%s" % (sepc, wc, wh), spec="Spec", workers=4, constants={"Sep": sepc, "MaxRows": 2, "Headers": "<- Hdrs", "WithComment": wc, "WithHeader": wh},
                      invariants=["ByName", "OrderIrrelevant", "Emit"], coverage=True)
        ctx.require_actions(res, "MC_Csv", ["AddRow"])
        for v in res.vectors:
            v["_dir"] = ctx.work
        ctx.absorb(core.pmap(check_csv, res.vectors, chunk=50))
    res = ctx.tlc("MC_Motif", tag="MC_Motif", spec="Spec", workers=4, constants={"Orders": "<- OrdAll", "W": 2, "Exps": [0, 2] if quick else [0, 1, 3]},
                  invariants=["SameMotif", "Emit"])
    for v in res.vectors:
        v["_dir"] = ctx.work
    ctx.absorb(core.pmap(check_motif, res.vectors, chunk=50))
    for refs, mv in (("R1", 2), ("R2", 2)) if quick else (("R1", 3), ("R2", 3)):
        res = ctx.tlc("MC_Consensus", tag="MC_Consensus_" + refs, spec="Spec", workers=4, constants={"Refs": "<- " + refs, "MaxVars": mv},
                      invariants=["LengthKept", "OnlyVariantPositionsChange", "Emit"], properties=["OneLetter"], coverage=True)
        ctx.require_actions(res, "MC_Consensus", ["Add"])
        ctx.absorb(core.pmap(check_consensus, res.vectors, chunk=50))
    res = ctx.tlc("MC_Lookup", tag="MC_Lookup", spec="Spec", workers=4, constants={"N": 3, "Values": [5, 7], "MaxWrites": 2 if quick else 3},
                  invariants=["LastWriteWins", "Emit"], properties=["Frame"], coverage=True)
    ctx.require_actions(res, "MC_Lookup", ["Set1", "Set2"])
    ctx.absorb(core.pmap(check_lookup, res.vectors, chunk=100))
    res = ctx.tlc("MC_Join", tag="MC_Join", spec="Spec", workers=4, constants={"Keys": [1, 2, 3] if quick else [1, 2, 3, 4], "MaxLeft": 3 if quick else 4, "MaxRight": 2 if quick else 3},
                  invariants=["Right", "PrefixRight", "Emit"], coverage=True)
    ctx.require_actions(res, "MC_Join", ["Step", "Finish"])
    ctx.absorb(core.pmap(check_join, res.vectors, chunk=100))
    res = ctx.tlc("MC_C13", tag="MC_C13_index", spec="Spec", workers=8, constants={"NRows": 3, "MaxLen": 2 if quick else 3, "W": 2, "Letters": [0, 1]},
                  invariants=["IndexAgreesWithCounts", "Emit"])
    ctx.absorb(core.pmap(check_kmer_index, res.vectors, chunk=50))
    for refs, flank, ms in (("R1", 1, 2), ("R2", 1, 2), ("R1", 2, 2)) if quick else (("R1", 1, 3), ("R2", 1, 3), ("R1", 2, 3), ("R2", 2, 2)):
        res = ctx.tlc("MC_Signature", tag="MC_Signature_%s_%d" % (refs, flank), spec="Spec", workers=4,
                      constants={"Refs": "<- " + refs, "Flank": flank, "MaxSnps": ms},
                      invariants=["PyrimidineMiddle", "Total", "StrandSymmetric", "Emit"], coverage=True)
        ctx.require_actions(res, "MC_Signature", ["Add"])
        if first is None:
            first = res.vectors[5]
            ctx.sample(first)
        ctx.absorb(core.pmap(check_signature, res.vectors, chunk=50))
    res = ctx.tlc("MC_Annotation", tag="MC_Annotation", spec="Spec", workers=4, constants={"MaxEntries": 2 if quick else 3},
                  invariants=["WellDefined", "Aligned", "Emit"], coverage=True)
    ctx.require_actions(res, "MC_Annotation", ["Add"])
    for i, v in enumerate(res.vectors):
        v["_id"] = i
        v["_dir"] = ctx.work
    ctx.sample({k: res.vectors[9][k] for k in ("entries", "genes")})
    ctx.absorb(core.pmap(check_annotation, res.vectors, chunk=40))
    for sepc in (9, 44):
        res = ctx.tlc("MC_Matrix", tag="MC_Matrix_%d" % sepc, spec="Spec", workers=4,
                      constants={"MaxRows": 2, "MaxCols": 2, "Values": "<- Vals2" if quick else "<- Vals", "Names": "<- NameSet2" if quick else "<- NameSet", "Sep": sepc},
                      invariants=["RoundTrip", "CsvRoundTrip", "Emit"])
        ctx.absorb(core.pmap(check_matrix, res.vectors, chunk=100))
    ctx.exhaustive = True
    return ctx.finish(RULE, assumptions=[
        "Matrix: integer matrices; names without the separator; every line ends in LF",
        "Annotation: entries carry the ids their feature type requires (well-formed GTF/GFF3); values with a space only in GTF (quoted)",
        "not evidence for any listed property: specification growth (DESIGN.md section 18)",
        "Signature: substitutions at interior positions (a full context exists), listed in genome order; contexts holding N are not counted",
    ])


def replay(d):
    print("replay of EXT case:", d.get("what"), d.get("tags"))
    v = (d.get("vectors") or [d.get("vector")])[0]
    if d["tags"].get("spec") == "Matrix":
        r = check_matrix(v)
    elif d["tags"].get("spec") == "Consensus":
        r = check_consensus(v)
    elif d["tags"].get("spec") == "Lookup":
        r = check_lookup(v)
    elif d["tags"].get("spec") == "Csv":
        w = os.path.join(core.VERIF, ".work", "replay")
        os.makedirs(w, exist_ok=True)
        r = check_csv(dict(v, _dir=w))
    elif d["tags"].get("spec") == "Motif":
        w = os.path.join(core.VERIF, ".work", "replay")
        os.makedirs(w, exist_ok=True)
        r = check_motif(dict(v, _dir=w))
    elif d["tags"].get("spec") == "Join":
        r = check_join(v)
    elif d["tags"].get("spec") == "Windows.Index":
        r = check_kmer_index(v)
    elif d["tags"].get("spec") == "Annotation":
        w = os.path.join(core.VERIF, ".work", "replay")
        os.makedirs(w, exist_ok=True)
        r = check_annotation(dict(v, _id=0, _dir=w))
    else:
        r = check_signature(v)
    for b in r["bad"]:
        print("  disagrees:", b["what"], "expected", b["expected"], "observed", b["observed"])
    if not r["bad"]:
        print("  agrees now")
    return 1 if r["bad"] else 0
