"""C14 — reverse complement, stranded extraction and translation are exact.

spec/Dna.tla: complement table on ACGTN/acgtn, RevComp (TLC-checked involution, length preservation, the
'append a letter = prepend its complement' action property), stranded extraction, and the standard genetic
code written amino acid by amino acid (TLC checks 64 codons, one amino acid each; the driver cross-checks the
table against Biopython once per run).  MC_C14 makes every string of <=MaxLen letters (and every concatenation
of <=MaxLen codons) a state and prints it with its reverse complement, every stranded extraction and its
translation.  Binding A replays them in ASCII, ACGT and ACGTN encodings, singly and in ragged batches with
empty rows.
"""
import json
import os

import numpy as np

from .. import core
from ..core import outcome

RULE = ("one case = one sequence state of MC_C14 (mode seq: letters over ACGTNacgtn; mode codons: codon concatenations), replayed in each "
        "applicable encoding, alone and inside a ragged batch; non-trivial = the sequence has lower-case letters, N, or more than one codon; "
        "distinct by (mode, sequence)")


def _up(s):
    return s.upper()


_REGION = []


def _region_class():
    if not _REGION:
        from bionumpy.bnpdataclass import bnpdataclass
        from bionumpy.datatypes import Interval

        @bnpdataclass
        class Region(Interval):
            strand: str
        _REGION.append(Region)
    return _REGION[0]


def check_group(g):
    import bionumpy as bnp
    from bionumpy.sequence import get_reverse_complement, translate_dna_to_protein
    from bionumpy.sequence.dna import get_strand_specific_sequences
    from bionumpy.datatypes import Bed6, SequenceEntry
    from bionumpy.encodings.alphabet_encoding import ACGTnEncoding
    bad, n, nt = [], 0, []
    mode = g[0]["mode"]
    if mode == "seq":
        texts = ["".join(v["s"]) for v in g]
        want = ["".join(v["rc"]) for v in g]
        from bionumpy.encodings.alphabet_encoding import ACTGEncoding, ACTGnEncoding
        # the same four letters in another order of the alphabet (ACTG, as used for 2-bit k-mers), with and without N
        encs = [("ascii", None, lambda t: True), ("ACGT", bnp.DNAEncoding, lambda t: "N" not in t.upper()), ("ACGTN", ACGTnEncoding, lambda t: True),
                ("ACTG", ACTGEncoding, lambda t: "N" not in t.upper()), ("ACTGN", ACTGnEncoding, lambda t: True)]
        for ename, enc, ok in encs:
            sel = [i for i, t in enumerate(texts) if ok(t)]
            if not sel:
                continue
            # ragged batch (with an empty row in the middle when the batch has one)
            batch = [texts[i] for i in sel]
            arr = bnp.as_encoded_array(batch, enc) if enc is not None else bnp.as_encoded_array(batch)
            o = outcome(lambda: get_reverse_complement(arr).tolist())
            n += 1
            wb = [want[i] for i in sel]
            if o[0] != "ok" or [_up(x) for x in o[1]] != [_up(x) for x in wb]:
                first = None
                if o[0] == "ok":
                    for t, w, got in zip(batch, wb, o[1]):
                        if _up(got) != _up(w):
                            first = {"text": t, "want": w, "got": got}
                            break
                lower = bool(first and first["text"] != first["text"].upper())
                bad.append({"what": "reverse complement of a ragged batch differs from the table", "tags": {"op": "revcomp-batch", "encoding": ename, "lower_case": lower},
                            "group": {"op": "revcomp-batch", "encoding": ename, "lower_case": lower},
                            "vectors": g, "expected": wb[:5], "observed": first or o})
            else:
                o2 = outcome(lambda: get_reverse_complement(get_reverse_complement(arr)).tolist())
                n += 1
                if o2[0] != "ok" or [_up(x) for x in o2[1]] != [_up(x) for x in batch]:
                    bad.append({"what": "reverse complement applied twice does not give back the input", "tags": {"op": "revcomp-twice", "encoding": ename},
                                "vectors": g, "expected": batch[:5], "observed": str(o2)[:300]})
            # the same batch as ENTRIES read (lazily) from a FASTQ file: the result is a new table, the input is left alone, and twice gives it back
            if ename == "ascii" and all(batch):
                def entries():
                    d = os.path.join(os.environ.get("VERIF_RUN_WORK") or os.path.join(core.VERIF, ".work", "replay"), "c14_%d" % os.getpid())
                    os.makedirs(d, exist_ok=True)
                    path = os.path.join(d, "r.fq")
                    with open(path, "w") as f:
                        for k, sq in enumerate(batch):
                            f.write("@r%d\n%s\n+\n%s\n" % (k, sq, "".join(chr(40 + (k + q) % 30) for q in range(len(sq)))))
                    reads = bnp.open(path).read()
                    rc = get_reverse_complement(reads)
                    r1 = rc.sequence.tolist()
                    kept = reads.sequence.tolist()
                    rc2 = get_reverse_complement(rc)
                    return {"rc": r1, "input afterwards": kept, "twice": rc2.sequence.tolist(), "rc after the second call": rc.sequence.tolist(),
                            "names": rc.name.tolist()}
                o = outcome(entries)
                n += 1
                wante = {"rc": [_up(x) for x in wb], "input afterwards": [_up(x) for x in batch], "twice": [_up(x) for x in batch],
                         "rc after the second call": [_up(x) for x in wb], "names": ["r%d" % k for k in range(len(batch))]}
                gote = {k: ([_up(x) for x in val] if isinstance(val, list) and k != "names" else val) for k, val in o[1].items()} if o[0] == "ok" else o
                if gote != wante:
                    bad.append({"what": "reverse complement of entries read from a file: result, untouched input or double application differ from the table",
                                "tags": {"op": "revcomp-entries", "encoding": ename}, "group": {"op": "revcomp-entries"},
                                "vectors": g, "expected": str(wante)[:300], "observed": str(gote)[:400]})
            # single flat sequences
            for i in sel:
                t = texts[i]
                if not t:
                    continue
                a1 = bnp.as_encoded_array(t, enc) if enc is not None else bnp.as_encoded_array(t)
                o = outcome(lambda: get_reverse_complement(a1).to_string())
                n += 1
                if o[0] != "ok" or _up(o[1]) != _up(want[i]):
                    lower = t != t.upper()
                    bad.append({"what": "reverse complement differs from the table", "tags": {"op": "revcomp", "encoding": ename, "lower_case": lower},
                                "group": {"op": "revcomp", "encoding": ename, "lower_case": lower},
                                "vectors": [g[i]], "expected": want[i], "observed": o})
                # stranded extraction: all intervals of this sequence in one call
                ex = g[i]["extract"]
                if ex:
                    starts = np.array([e["a"] for e in ex])
                    stops = np.array([e["b"] for e in ex])
                    strands = [e["strand"] for e in ex]
                    wv = ["".join(e["seq"]) for e in ex]
                    ivs = Bed6(["c"] * len(ex), starts, stops, ["x"] * len(ex), np.zeros(len(ex), dtype=int), strands)
                    o = outcome(lambda: get_strand_specific_sequences(a1, ivs).tolist())
                    n += 1
                    if o[0] != "ok" or [_up(x) for x in o[1]] != [_up(x) for x in wv]:
                        lower = t != t.upper()
                        degenerate = sum(len(w) for w in wv) == len(wv)
                        bad.append({"what": "strand-aware extraction differs from subsequence / reverse complement",
                                    "tags": {"op": "extract", "encoding": ename, "lower_case": lower, "all_intervals_length_one": degenerate},
                                    "group": {"op": "extract", "encoding": ename, "lower_case": lower, "deg": degenerate},
                                    "vectors": [g[i]], "expected": wv, "observed": str(o)[:300]})
                    # the same intervals asked of a GenomicSequence one at a time, then all at once, then the whole contig: a history of
                    # queries on one object; each answer must be the specification's (extraction must not write into the stored contig)
                    if ename == "ascii":
                        def history():
                            from bionumpy.genomic_data import GenomicSequence
                            gs = GenomicSequence.from_dict({"c": t})
                            out = []
                            for k in range(len(ex)):
                                one = Bed6(["c"], starts[k:k + 1], stops[k:k + 1], ["x"], np.zeros(1, dtype=int), strands[k:k + 1])
                                out.append(gs.extract_intervals(one, stranded=True).tolist())
                            out.append(gs.extract_intervals(ivs, stranded=True).tolist())
                            whole = Bed6(["c"], [0], [len(t)], ["x"], [0], ["+"])
                            out.append(gs.extract_intervals(whole, stranded=True).tolist())
                            return out
                        def text_strand():
                            # the same intervals in a user-defined table whose strand column is plain text
                            from bionumpy.genomic_data import GenomicSequence
                            gs = GenomicSequence.from_dict({"c": t})
                            reg = _region_class()(["c"] * len(ex), starts, stops, strands)
                            out = [gs.extract_intervals(reg, stranded=True).tolist()]
                            gi = bnp.Genome.from_dict({"c": len(t)}).get_intervals(reg, stranded=True)
                            out.append(gs[gi].tolist())
                            return out
                        o = outcome(text_strand)
                        n += 1
                        if o[0] != "ok" or [[_up(x) for x in q] for q in o[1]] != [[_up(w) for w in wv]] * 2:
                            bad.append({"what": "stranded extraction with the strand held as a text column differs from subsequence / reverse complement",
                                        "tags": {"op": "extract-text-strand", "encoding": ename}, "group": {"op": "extract-text-strand"},
                                        "vectors": [g[i]], "expected": [_up(w) for w in wv], "observed": str(o)[:400]})

                        def through_intervals():
                            # the same extraction through GenomicIntervals: as given, two sets joined, and the single base at each strand-aware start
                            from bionumpy.genomic_data import GenomicSequence
                            gs = GenomicSequence.from_dict({"c": t})
                            gi = bnp.Genome.from_dict({"c": len(t)}).get_intervals(ivs, stranded=True)
                            out = [gs[gi].tolist()]
                            if len(ex) >= 2:
                                out.append(gs[np.concatenate([gi[:1], gi[1:]])].tolist())
                            out.append(gs[gi.get_location("start").get_windows(flank=0)].tolist())
                            return out
                        def from_fasta():
                            # the contig in an indexed FASTA file (wrapped lines) next to a second contig; the intervals asked in a rotated
                            # order (a cycle of length >= 3 when there are that many), alternating with whole-contig intervals of the other contig
                            d = os.path.join(os.environ.get("VERIF_RUN_WORK") or os.path.join(core.VERIF, ".work", "replay"), "c14_%d" % os.getpid())
                            os.makedirs(d, exist_ok=True)
                            path = os.path.join(d, "g.fa")
                            for f in (path, path + ".fai"):
                                if os.path.exists(f):
                                    os.remove(f)
                            other = "GATTACAT"
                            with open(path, "w") as f:
                                f.write(">c\n" + "".join(t[p:p + 4] + "\n" for p in range(0, len(t), 4)) + ">b\n" + other + "\n")
                            # label order = file order (c, b) or sorted (b, c): the contig is found by its name either way
                            genome = bnp.Genome.from_file(path, sort_names=(len(t) % 2 == 0))
                            gs = genome.read_sequence()
                            rot = [(k + 1) % len(ex) for k in range(len(ex))]
                            names, st, en, sd, wantf = [], [], [], [], []
                            for k in rot:
                                names += ["c", "b"]
                                st += [int(starts[k]), 0]
                                en += [int(stops[k]), len(other)]
                                sd += [strands[k], "+"]
                                wantf += [_up(wv[k]), other]
                            iv2 = Bed6(names, st, en, ["x"] * len(names), np.zeros(len(names), dtype=int), sd)
                            got = [gs.extract_intervals(iv2, stranded=True).tolist(), gs[genome.get_intervals(iv2, stranded=True)].tolist()]
                            return [[_up(x) for x in q] for q in got], [wantf, wantf]
                        if len(t) >= 1:
                            o = outcome(from_fasta)
                            n += 1
                            if o[0] != "ok" or o[1][0] != o[1][1]:
                                bad.append({"what": "stranded extraction from an indexed FASTA (intervals in rotated order, two contigs) differs from subsequence / reverse complement",
                                            "tags": {"op": "extract-fasta", "encoding": ename}, "group": {"op": "extract-fasta"},
                                            "vectors": [g[i]], "expected": str(o[1][1] if o[0] == "ok" else "")[:300], "observed": str(o[1][0] if o[0] == "ok" else o)[:400]})
                        o = outcome(through_intervals)
                        n += 1
                        wanti = [[_up(w) for w in wv]] + ([[_up(w) for w in wv]] if len(ex) >= 2 else []) + [[_up(w[:1]) for w in wv]]
                        if o[0] != "ok" or [[_up(x) for x in q] for q in o[1]] != wanti:
                            bad.append({"what": "stranded extraction through GenomicIntervals (as given / joined / at the strand-aware start) differs from subsequence / reverse complement",
                                        "tags": {"op": "extract-intervals", "encoding": ename}, "group": {"op": "extract-intervals"},
                                        "vectors": [g[i]], "expected": wanti, "observed": str(o)[:400]})
                        o = outcome(history)
                        n += 1
                        wanth = [[_up(w)] for w in wv] + [[_up(w) for w in wv]] + [[_up(t)]]
                        if o[0] != "ok" or [[_up(x) for x in q] for q in o[1]] != wanth:
                            bad.append({"what": "a history of stranded extractions from one GenomicSequence differs from subsequence / reverse complement",
                                        "tags": {"op": "extract-history", "encoding": ename}, "group": {"op": "extract-history"},
                                        "vectors": [g[i]], "expected": wanth, "observed": str(o)[:400]})
            nt += ["seq|" + texts[i] for i in sel if texts[i] != texts[i].upper() or "N" in texts[i].upper()]
    else:
        texts = ["".join(v["s"]) for v in g]
        want = ["".join(v["protein"]) for v in g]
        for variant in ("upper", "lower"):
            seqs = texts if variant == "upper" else [t.lower() for t in texts]
            entry = SequenceEntry(["s%d" % i for i in range(len(seqs))], seqs)
            o = outcome(lambda: translate_dna_to_protein(entry).sequence.tolist())
            n += 1
            if o != ("ok", want):
                first = None
                if o[0] == "ok":
                    for t, w, got in zip(seqs, want, o[1]):
                        if got != w:
                            first = {"dna": t, "want": w, "got": got}
                            break
                bad.append({"what": "translation differs from the standard genetic code", "tags": {"op": "translate", "case": variant},
                            "vectors": g, "expected": want[:5], "observed": first or o})
        # every sequence on its own, already encoded in the ACGT alphabet (the translator works in another letter order): the protein of ITS
        # letters, or a refusal - a sequence of one repeated letter (poly-A) is the case whose codes look alike in every order
        for t, w in zip(texts, want):
            def pre_encoded():
                return translate_dna_to_protein(SequenceEntry(["s"], bnp.as_encoded_array([t], bnp.DNAEncoding))).sequence.tolist()
            o = outcome(pre_encoded)
            n += 1
            if o[0] == "ok" and o[1] != [w]:
                bad.append({"what": "translation of a sequence already encoded in the ACGT alphabet differs from the standard genetic code", "tags": {"op": "translate", "case": "pre-encoded"},
                            "vectors": g, "expected": [w], "observed": {"dna": t, "got": o[1]}})
                break
        nt += ["cod|" + t for t in texts if len(t) > 3]
    return {"n": n, "nt": nt, "bad": bad, "traces": len(g)}


class _Annotation:
    """the least get_transcript_sequences asks of its annotation: a length and the exon entries (reading GTF attributes of single
    entries is what the numpy/npstructures pair of this sandbox cannot do, so the exon table is built directly)"""
    def __init__(self, exons):
        self._exons = exons

    def __len__(self):
        return len(self._exons)

    def get_exons(self):
        return self._exons


def check_transcripts(v):
    """One complete state of spec/Transcripts.tla: the spliced sequence of every transcript."""
    from bionumpy.datatypes import GFFExonEntry
    from bionumpy.sequence.genes import get_transcript_sequences
    L = "ACGTN"
    ref = "".join(L[x] for x in v["ref"])
    rows = [(a, b, t["strand"], "t%d" % (i + 1)) for i, t in enumerate(v["trs"]) for a, b in t["exons"]]
    want = ["".join(L[x] for x in sq) for sq in v["seqs"]]
    n_ = len(rows)

    def run_():
        ex = GFFExonEntry(["chr1"] * n_, ["src"] * n_, ["exon"] * n_, [r[0] for r in rows], [r[1] for r in rows], ["."] * n_, [r[2] for r in rows], ["."] * n_, ["x"] * n_,
                          ["g_" + r[3] for r in rows], [r[3] for r in rows], ["e%d" % i for i in range(n_)])
        res = get_transcript_sequences(_Annotation(ex), ref)
        return res.name.tolist(), [x.upper() for x in res.sequence.tolist()]
    o = outcome(run_)
    bad = []
    if o != ("ok", (["t%d" % (i + 1) for i in range(len(want))], want)):
        all_len1 = all(len(w) == 1 for w in want)
        bad.append({"what": "spliced transcript sequences differ from the joined exons (reverse-complemented as a whole on the minus strand)",
                    "tags": {"op": "transcripts", "encoding": "ACGTN", "all_transcripts_length_one": all_len1, "kind": "raises" if o[0] != "ok" else "values"},
                    "group": {"op": "transcripts", "kind": "raises" if o[0] != "ok" else "values", "len1": all_len1}, "vectors": [v], "expected": want, "observed": str(o)[:300]})
    multi = any(len(t["exons"]) > 1 and t["strand"] == "-" for t in v["trs"])
    return {"n": 1, "nt": ["tr|" + json.dumps(v["trs"])] if multi else [], "bad": bad, "traces": 1}


def _biopython_table_check(vectors):
    from Bio.Data import CodonTable
    t = CodonTable.unambiguous_dna_by_id[1]
    for v in vectors:
        if v["mode"] == "codons" and len(v["s"]) == 1:
            c = v["s"][0]
            aa = "*" if c in t.stop_codons else t.forward_table[c]
            if aa != v["protein"][0]:
                raise core.MachineryFailure("codon table transcription in Dna.tla differs from Biopython for %s" % c)


def check_order(job):
    """The same reverse complements asked in one order of the encodings, in a process where nothing was asked before: the answer
    for one encoding must not depend on which encoding was used first (Dna.tla's RevComp is a function of the text alone)."""
    import bionumpy as bnp
    from bionumpy.sequence import get_reverse_complement
    from bionumpy.encodings.alphabet_encoding import ACGTnEncoding
    perm, vecs = job
    from bionumpy.encodings.alphabet_encoding import ACTGEncoding
    encs = {"ascii": None, "ACGT": bnp.DNAEncoding, "ACGTN": ACGTnEncoding, "ACTG": ACTGEncoding}
    bad, n = [], 0
    for pos, ename in enumerate(perm):
        for v in vecs:
            t, want = "".join(v["s"]), "".join(v["rc"])
            if ename in ("ACGT", "ACTG") and "N" in t.upper():
                continue
            enc = encs[ename]
            o = outcome(lambda: get_reverse_complement(bnp.as_encoded_array(t, enc) if enc is not None else bnp.as_encoded_array(t)).to_string())
            n += 1
            if o[0] != "ok" or _up(o[1]) != _up(want):
                bad.append({"what": "reverse complement depends on which encoding was used earlier in the process", "tags": {"op": "revcomp-order", "encoding": ename, "order": "-".join(perm)},
                            "group": {"op": "revcomp-order", "order": "-".join(perm)}, "vectors": [v], "expected": want, "observed": o})
    return {"n": n, "nt": ["order|" + "-".join(perm)], "bad": bad}


def run(ctx):
    quick = ctx.tier == "quick"
    alpha = ["A", "C", "G", "T", "N", "a", "c", "g", "t", "n"]
    invs = ["Involution", "UpperCommutes", "TranslationLength", "TableWellFormed", "Emit"]
    r1 = ctx.tlc("MC_C14", tag="MC_C14_seq", spec="Spec", constants={"Mode": "seq", "MaxLen": 3 if quick else 4, "Alphabet": alpha},
                 invariants=invs, properties=["Grows"], coverage=True)
    ctx.require_actions(r1, "MC_C14", ["AddLetter"])
    r2 = ctx.tlc("MC_C14", tag="MC_C14_codons", spec="Spec", constants={"Mode": "codons", "MaxLen": 2, "Alphabet": alpha},
                 invariants=invs, coverage=True)
    ctx.require_actions(r2, "MC_C14", ["AddCodon"])
    _biopython_table_check(r2.vectors)
    seqv = sorted(r1.vectors, key=lambda v: (len(v["s"]), v["s"]))
    codv = [v for v in r2.vectors if v["s"]]
    if not quick:
        # three-codon concatenations: a deterministic sample of the 262 144 (TLC enumerates them all on the specification)
        r3 = ctx.tlc("MC_C14", tag="MC_C14_codons3", spec="Spec", constants={"Mode": "codons", "MaxLen": 3, "Alphabet": alpha},
                     invariants=["TranslationLength"], keep_vectors=False)
        import itertools
        codons = sorted({v["s"][0] for v in codv if len(v["s"]) == 1})
        prot = {v["s"][0]: v["protein"][0] for v in codv if len(v["s"]) == 1}
        for i, (a, b, c) in enumerate(itertools.product(codons, repeat=3)):
            if i % 13 == 0:
                codv.append({"mode": "codons", "s": [a, b, c], "protein": [prot[a], prot[b], prot[c]]})
    groups = []
    for i in range(0, len(seqv), 7):
        groups.append(seqv[i:i + 7])
    # a batch that starts with and contains empty rows
    groups.append([seqv[0], seqv[5], seqv[0], seqv[40]])
    for i in range(0, len(codv), 50):
        groups.append(codv[i:i + 50])
    ctx.sample({k: seqv[57][k] for k in ("s", "rc")})
    ctx.sample(codv[100])
    ctx.absorb(core.pmap(check_group, groups, chunk=4))
    # every order of the three encodings, each in a process of its own (a table cached for one encoding must not serve another)
    import itertools as _it
    pick = [v for v in seqv if len(v["s"]) == 3 and "".join(v["s"]) in ("ACG", "TNA", "gcn", "NNT", "acT")]
    ctx.absorb(core.pmap_isolated(check_order, [(list(p), pick) for p in _it.permutations(["ascii", "ACGT", "ACGTN"])]))
    # spliced transcripts (spec/Transcripts.tla): every complete state of <= 2 transcripts of <= 2 exons of 1-2 (1-3) bases on a ten-letter reference (three transcripts did not finish in 40 minutes)
    rt = ctx.tlc("MC_Transcripts", tag="MC_Transcripts", spec="Spec", workers=8,
                 constants={"Ref": "<- RefA", "MaxTranscripts": 2, "MaxExons": 2, "ExonLens": [1, 2] if quick else [1, 2, 3]},
                 invariants=["LengthIsSum", "StrandInvolution", "Emit"], properties=["Local"], coverage=True)
    ctx.require_actions(rt, "MC_Transcripts", ["NewTranscript", "AddExon"])
    # (quick tier: a deterministic sample of the complete states - every 15th, and every 6th of those with a minus-strand transcript of two exons)
    tv = rt.vectors if not quick else [v for i, v in enumerate(rt.vectors) if i % 15 == 0 or (i % 6 == 0 and any(len(t["exons"]) > 1 and t["strand"] == "-" for t in v["trs"]))]
    ctx.absorb(core.pmap(check_transcripts, tv, chunk=100))
    ctx.exhaustive = True
    return ctx.finish(RULE, assumptions=[
        "letters are compared case-insensitively (alphabet encodings decode to upper case; the property fixes the letter, not its case)",
        "the codon table of Dna.tla is cross-checked against Biopython's standard table in every run",
        "thorough tier replays every 13th of the 262 144 three-codon concatenations (all are enumerated by TLC on the specification)",
    ])


def replay(d):
    print("replay of C14 case:", d.get("what"), d.get("tags"))
    if d["tags"].get("op") == "transcripts":
        r = check_transcripts(d["vectors"][0])
        for b in r["bad"][:3]:
            print("  disagrees:", b["what"], "expected", str(b["expected"])[:200], "observed", str(b["observed"])[:200])
        if not r["bad"]:
            print("  agrees now")
        return 1 if r["bad"] else 0
    r = check_group(d["vectors"])
    same = [b for b in r["bad"] if b["tags"] == d["tags"]]
    for b in same[:3]:
        print("  disagrees:", b["what"], "expected", str(b["expected"])[:200], "observed", str(b["observed"])[:200])
    if not same:
        print("  agrees now")
    return 1 if same else 0
