"""C10 — genome-wide operations respect chromosome boundaries.

spec/Genome.tla defines every genome-wide operation as the per-contig map of the single-contig definitions
of Intervals.tla, plus the concatenated-coordinate bijection (TLC: Bijection, NoNeighbourEffect action
property, MergedInside).  MC_C10 adds entries one at a time on any contig of genomes with 1-4 contigs whose
names have prefix relations; every state is replayed through Genome.get_intervals(...).get_mask/get_pileup/
merged/clip/extended_to_size/sorted, locations + get_windows, GenomicArray[intervals] (stranded and not),
GenomicSequence[intervals] from a real FASTA, Geometry.* and GlobalOffset round trips.
"""
import json
import os

import numpy as np

from .. import core
from ..core import outcome

RULE = ("one case = (genome, entry-list state of MC_C10) replayed through the genome-wide API; non-trivial = some entry ends exactly at its "
        "contig's end or starts at position 0 of a later contig, or some contig has no entry; distinct by (genome, entries)")
NAMES = ["chr1", "chr11", "chr2", "chr22"]
COMP = {"A": "T", "C": "G", "G": "C", "T": "A"}


def _letter(c, p):
    return "ACGT"[(c * 3 + p) % 4]


def _chroms(col):
    """contig names of a chromosome column (string array, or codes of a StringEncoding)"""
    enc = getattr(col, "encoding", None)
    if enc is not None and hasattr(enc, "get_labels") and not hasattr(col, "lengths"):
        labels = enc.get_labels()
        return [labels[int(i)] for i in np.asarray(col.raw()).ravel().tolist()]
    out = col.tolist()
    return [out] if isinstance(out, str) else list(out)


def _rows(t, names):
    return [{"c": names.index(c) + 1, "s": int(s), "e": int(e)} for c, s, e in zip(_chroms(t.chromosome), np.asarray(t.start).tolist(), np.asarray(t.stop).tolist())]


def check_vector(v):
    import bionumpy as bnp
    from bionumpy.datatypes import Bed6, BedGraph, LocationEntry, Interval
    from bionumpy.genomic_data.geometry import Geometry
    G, es = v["G"], v["es"]
    names = NAMES[:len(G)]
    sizes = {names[i]: int(n) for i, n in enumerate(G)}
    g = bnp.Genome.from_dict(sizes)
    bad, n = [], 0
    at_boundary = any(e["e"] == G[e["c"] - 1] for e in es) and any(e["s"] == 0 and e["c"] > 1 for e in es)
    empty_contig = len({e["c"] for e in es}) < len(G)
    nt = [json.dumps([G, es])] if (at_boundary or empty_contig) and es else []

    def table(entries):
        return Bed6([names[e["c"] - 1] for e in entries], np.array([e["s"] for e in entries], dtype=int),
                    np.array([e["e"] for e in entries], dtype=int), ["x%d" % i for i in range(len(entries))],
                    np.zeros(len(entries), dtype=int), [e["st"] for e in entries])

    def cmp(op, exp, f, **tags):
        nonlocal n
        n += 1
        o = outcome(f)
        if o != ("ok", exp):
            t = {"op": op, "boundary": at_boundary}
            t.update(tags)
            bad.append({"what": "%s differs from the per-chromosome definition" % op, "tags": t, "vector": v, "expected": exp, "observed": o})

    def dense(arr, boolean=False):
        d = arr.to_dict()
        return [[(bool(x) if boolean else int(x)) for x in d[nm].tolist()] for nm in names]

    if not es:
        return {"n": 0, "nt": [], "bad": []}
    gi = g.get_intervals(table(es), stranded=True)
    cmp("get_mask", v["mask"], lambda: dense(gi.get_mask(), True))
    cmp("get_pileup", v["pileup"], lambda: dense(gi.get_pileup()))
    cmp("sorted", v["sorted"], lambda: _rows(gi.sorted().get_data(), names))
    # the same genome given with its contigs in the opposite order and asked to sort the names: every contig keeps its own size
    gs_ = bnp.Genome(dict(reversed(list(sizes.items()))), sort_names=True)
    cmp("get_mask[sort_names]", v["mask"], lambda: dense(gs_.get_intervals(table(es), stranded=True).get_mask(), True))
    cmp("get_pileup[sort_names]", v["pileup"], lambda: dense(gs_.get_intervals(table(es)).get_pileup()))
    # a second genome object over the same contigs listed in the opposite order (made while the first is alive): every contig keeps its own data
    if len(G) >= 2:
        gr_ = bnp.Genome.from_dict(dict(reversed(list(sizes.items()))))
        cmp("get_mask[same contigs, opposite order]", v["mask"], lambda: dense(gr_.get_intervals(table(es), stranded=True).get_mask(), True))
        cmp("get_pileup[same contigs, opposite order]", v["pileup"], lambda: dense(gr_.get_intervals(table(es)).get_pileup()))
    cmp("extended_to_size[sort_names]", v["extend"][2], lambda: _rows(gs_.get_intervals(table(es), stranded=True).extended_to_size(3).get_data(), names), length=3)
    # a genome derived (with_ignored_added) from one that already leaves a contig out: the contigs and their sizes are those of this genome
    from bionumpy.genomic_data.genome_context import ignore_underscores
    gd_ = bnp.Genome.from_dict(dict(list(sizes.items())[:1] + [("chr1_alt", 3)] + list(sizes.items())[1:]), filter_function=ignore_underscores).with_ignored_added(["other_x"])
    cmp("get_mask[derived genome]", v["mask"], lambda: dense(gd_.get_intervals(table(es), stranded=True).get_mask(), True))
    cmp("get_pileup[derived genome]", v["pileup"], lambda: dense(gd_.get_intervals(table(es)).get_pileup()))
    cmp("contigs[derived genome]", [list(names), int(sum(G))], lambda: (lambda p_: [list(p_.to_dict().keys()), int(sum(len(x) for x in p_.to_dict().values()))])(gd_.get_intervals(table(es)).get_pileup()))
    for d in (0, 1):
        cmp("merged", v["merged"][d], lambda: _rows(gi.sorted().merged(d).get_data(), names), distance=d)
    for L in (1, 2, 3):
        cmp("extended_to_size", v["extend"][L - 1], lambda: _rows(gi.extended_to_size(L).get_data(), names), length=L)
    # clip: entries whose stop sticks out of the contig
    stick = v["clipin"]
    cmp("clip", v["clip"], lambda: _rows(g.get_intervals(table(stick), stranded=True).clip().get_data(), names))
    # the coordinates on the concatenated genome (GlobalOffset; spec/Genome.tla: ToGlobal / ToLocal): an entry lands at the offset of its own
    # contig; with do_clip the part sticking out of the contig is cut off BEFORE the offset is added (it never reaches the next contig);
    # the way back gives the entries again, and the argument keeps its stops
    from bionumpy.genomic_data.global_offset import GlobalOffset
    go = GlobalOffset(dict(sizes))
    off = v["offsets"]
    cmp("GlobalOffset.from_local_interval", [[off[e["c"] - 1] + e["s"], off[e["c"] - 1] + e["e"]] for e in es],
        lambda: (lambda t_: [[int(a_), int(b_)] for a_, b_ in zip(t_.start.tolist(), t_.stop.tolist())])(go.from_local_interval(table(es))))
    cmp("GlobalOffset.to_local_interval", [{"c": e["c"], "s": e["s"], "e": e["e"]} for e in es], lambda: _rows(go.to_local_interval(go.from_local_interval(table(es))), names))

    def clipped_global():
        arg = table(stick)
        t_ = go.from_local_interval(arg, do_clip=True)
        return [[int(a_), int(b_)] for a_, b_ in zip(t_.start.tolist(), t_.stop.tolist())], [int(x) for x in arg.stop.tolist()]
    cmp("GlobalOffset.from_local_interval[do_clip]", ([[off[r["c"] - 1] + r["s"], off[r["c"] - 1] + r["e"]] for r in v["clip"]], [e["e"] for e in stick]), clipped_global)
    # windows around the start locations
    loc = g.get_locations(LocationEntry([names[e["c"] - 1] for e in es], np.array([e["s"] for e in es], dtype=int)))
    for f in (0, 1):
        cmp("get_windows", v["windows"][f], lambda: _rows(loc.get_windows(flank=f).get_data(), names), flank=f)
    # values of a track under the intervals
    ch, st, en, val = [], [], [], []
    for c, size in enumerate(G):
        for p in range(size):
            ch.append(names[c]); st.append(p); en.append(p + 1); val.append(10 * (c + 1) + p)
    track = g.get_track(BedGraph(ch, np.array(st), np.array(en), np.array(val)))
    giu = g.get_intervals(table(es), stranded=False)
    cmp("track[intervals]", v["under"], lambda: [[int(x) for x in np.asarray(r.to_array() if hasattr(r, "to_array") else r).tolist()] for r in track[giu]])
    cmp("track[stranded intervals]", v["understr"], lambda: [[int(x) for x in np.asarray(r.to_array() if hasattr(r, "to_array") else r).tolist()] for r in track[gi]])
    cmp("extract_intervals(stranded)", v["understr"],
        lambda: [[int(x) for x in np.asarray(r.to_array() if hasattr(r, "to_array") else r).tolist()] for r in track.extract_intervals(gi, stranded=True)])
    # intervals derived from stranded entries stay stranded: values under the clipped entries and under windows around stranded locations
    vals = lambda rows: [[int(x) for x in np.asarray(r.to_array() if hasattr(r, "to_array") else r).tolist()] for r in rows]
    cmp("track[stranded intervals.clip()]", v["underclip"], lambda: vals(track[g.get_intervals(table(stick), stranded=True).clip()]))
    # strandedness survives joining interval sets and taking the strand-aware start locations
    if len(es) >= 2:
        cmp("track[concatenate(stranded intervals)]", v["understr"], lambda: vals(track[np.concatenate([gi[:1], gi[1:]])]))
    for f in (0, 1):
        cmp("track[stranded intervals.get_location('start').get_windows()]", v["undertss"][f], lambda: vals(track[gi.get_location("start").get_windows(flank=f)]), flank=f)
    from bionumpy.genomic_data.genomic_intervals import GenomicLocation
    sloc = GenomicLocation.from_fields(g.get_genome_context(), [names[e["c"] - 1] for e in es], [e["s"] for e in es], [e["st"] for e in es])
    for f in (0, 1):
        cmp("track[stranded locations.get_windows()]", v["underwin"][f], lambda: vals(track[sloc.get_windows(flank=f)]), flank=f)
    # the same track evaluated lazily, one chromosome at a time (a stream of bedGraph chunks), under in-memory intervals that are grouped by
    # chromosome in genome order (in whatever order within a chromosome): row i belongs to interval i
    if all(a["c"] <= b["c"] for a, b in zip(es, es[1:])):
        def streamed(intervals):
            from bionumpy.streams import NpDataclassStream
            from bionumpy.genomic_data import GenomicArray
            bg = BedGraph(ch, np.array(st), np.array(en), np.array(val))
            cut = max(1, len(bg) // 2)
            lazy = GenomicArray.from_bedgraph(NpDataclassStream(iter([bg[:cut], bg[cut:]]), dataclass=BedGraph), g.get_genome_context())
            return [[int(x) for x in np.asarray(r.to_array() if hasattr(r, "to_array") else r).tolist()] for r in bnp.compute(lazy[intervals])]
        cmp("streamed track[intervals]", v["under"], lambda: streamed(giu))
        cmp("streamed track[stranded intervals]", v["understr"], lambda: streamed(gi))
        if len(G) >= 2:
            # intervals tied to a separately built genome: the same contigs in the same order are accepted, in the opposite order refused
            g_same = bnp.Genome.from_dict(dict(sizes))
            cmp("streamed track[intervals of an equal genome]", v["under"], lambda: streamed(g_same.get_intervals(table(es), stranded=False)))
            g_rev = bnp.Genome.from_dict(dict(reversed(list(sizes.items()))))
            n += 1
            o = outcome(lambda: streamed(g_rev.get_intervals(table(es), stranded=False)))
            if o[0] == "ok":
                bad.append({"what": "a streamed track was indexed by intervals of a genome listing the contigs in the opposite order, without an error",
                            "tags": {"op": "streamed track[intervals of a reversed genome]", "boundary": at_boundary}, "vector": v, "expected": "an error", "observed": o[1]})
    # arithmetics.sort_intervals with the order of the contigs given explicitly (a list, a key function; also the opposite order)
    from bionumpy.arithmetics import sort_intervals as _sort
    from bionumpy.datatypes import Interval as _Iv3
    plain = lambda: _Iv3([names[e["c"] - 1] for e in es], np.array([e["s"] for e in es], dtype=int), np.array([e["e"] for e in es], dtype=int))
    srt3 = [[r[0], r[1], r[2]] for r in v["sorted"]] if v["sorted"] and isinstance(v["sorted"][0], list) else None
    if srt3 is None:
        srt3 = [[names[r["c"] - 1], r["s"], r["e"]] for r in sorted(es, key=lambda e: (e["c"], e["s"], e["e"]))]
    rows3 = lambda t: [[c, int(a), int(b)] for c, a, b in zip(t.chromosome.tolist(), t.start.tolist(), t.stop.tolist())]
    cmp("sort_intervals[sort_order]", srt3, lambda: rows3(_sort(plain(), sort_order=list(names))))
    cmp("sort_intervals[chromosome_key_function]", srt3, lambda: rows3(_sort(plain(), chromosome_key_function=list(names).index)))
    rev3 = [[names[r["c"] - 1], r["s"], r["e"]] for r in sorted(es, key=lambda e: (-e["c"], e["s"], e["e"]))]
    cmp("sort_intervals[sort_order reversed]", rev3, lambda: rows3(_sort(plain(), sort_order=list(names)[::-1])))
    # every base of the genome as a location, mapped into the intervals that hold it (MC_C10!MapLoc); the intervals in genome order
    # (searching sorted positions is the documented way map_locations works)
    if all((a["c"], a["s"]) <= (b["c"], b["s"]) for a, b in zip(es, es[1:])) and all(a["e"] <= b["s"] or a["c"] != b["c"] for a, b in zip(es, es[1:])):
        def maploc():
            alln = [names[c] for c, size in enumerate(G) for _ in range(size)]
            allp = np.array([p for c, size in enumerate(G) for p in range(size)], dtype=int)
            r = giu.map_locations(LocationEntry(alln, allp))
            return [[int(str(x)[1:]) + 1, int(p)] for x, p in zip(r.chromosome.tolist(), r.position.tolist())]       # the intervals are named x0, x1, ...
        cmp("map_locations", [list(x) for x in v["maploc"]], maploc)
    # the same entries and the same track read from FILES through the genome (read_intervals / read_track), in memory and as streams
    bed = os.path.join(v["_dir"], "e_%d.bed" % os.getpid())
    bdg = os.path.join(v["_dir"], "t_%d.bdg" % os.getpid())
    with open(bed, "w") as fh:
        for i, e in enumerate(es):
            fh.write("%s\t%d\t%d\tx%d\t0\t%s\n" % (names[e["c"] - 1], e["s"], e["e"], i, e["st"]))
    with open(bdg, "w") as fh:
        for c_, s_, e_, v_ in zip(ch, st, en, val):
            fh.write("%s\t%d\t%d\t%d\n" % (c_, s_, e_, v_))
    cmp("read_intervals.get_pileup", v["pileup"], lambda: dense(g.read_intervals(bed).get_pileup()))
    cmp("read_intervals(stranded).get_mask", v["mask"], lambda: dense(g.read_intervals(bed, stranded=True).get_mask(), True))
    cmp("read_track[read_intervals(stranded)]", v["understr"], lambda: vals(g.read_track(bdg)[g.read_intervals(bed, stranded=True)]))
    cmp("read_track dense", [[10 * (c + 1) + p for p in range(size)] for c, size in enumerate(G)], lambda: dense(g.read_track(bdg)))
    if all(a["c"] <= b["c"] for a, b in zip(es, es[1:])):
        def streamed_files():
            pile = bnp.compute(g.read_intervals(bed, stream=True).get_pileup().get_data())
            cov = [[0] * size for size in G]
            told = [0] * len(G)         # the records of the pile-up tile EVERY contig, also those after the last one that has entries
            for c_, a_, b_, x_ in zip(pile.chromosome.tolist(), pile.start.tolist(), pile.stop.tolist(), pile.value.tolist()):
                told[names.index(c_)] += int(b_) - int(a_)
                for p in range(int(a_), int(b_)):
                    cov[names.index(c_)][p] = int(x_)
            tot = int(bnp.compute(g.read_track(bdg, stream=True).sum()))
            return cov, tot, told
        cmp("read_intervals(stream).get_pileup / read_track(stream).sum", (v["pileup"], sum(val), list(G)), streamed_files)
    # the start locations read from a VCF file through the genome (1-based positions in the file): the windows around them
    vcf = os.path.join(v["_dir"], "l_%d.vcf" % os.getpid())
    with open(vcf, "w") as fh:
        fh.write("##fileformat=VCFv4.2\n#CHROM\tPOS\tID\tREF\tALT\tQUAL\tFILTER\tINFO\n")
        for e in es:
            fh.write("%s\t%d\t.\tA\tC\t.\t.\t.\n" % (names[e["c"] - 1], e["s"] + 1))
    for f in (0, 1):
        cmp("read_locations.get_windows", v["windows"][f], lambda: _rows(g.read_locations(vcf).get_windows(flank=f).get_data(), names), flank=f)
    # sequence under the intervals, reverse-complemented on the minus strand
    fa = os.path.join(v["_dir"], "g%s_%d.fa" % ("".join(str(x) for x in G), os.getpid()))
    if not os.path.exists(fa):
        with open(fa, "w") as fh:
            for c, size in enumerate(G):
                fh.write(">%s\n%s\n" % (names[c], "".join(_letter(c + 1, p) for p in range(size))))
    far = fa[:-3] + "_rev.fa"          # the same contigs listed in the opposite order: the genome sorts the names
    if not os.path.exists(far):
        with open(far, "w") as fh:
            for c in reversed(range(len(G))):
                fh.write(">%s\n%s\n" % (names[c], "".join(_letter(c + 1, p) for p in range(G[c]))))

    def seqs(stranded, path=None, **kw):
        gs = bnp.Genome.from_file(path or fa, filter_function=None, **kw)
        seq = gs.read_sequence()
        gis = gs.get_intervals(table(es), stranded=stranded)
        out = seq[gis]
        return [s.upper() for s in out.tolist()]
    fwd = [[_letter(e["c"], p) for p in range(e["s"], e["e"])] for e in es]
    want_fwd = ["".join(x) for x in fwd]
    want_str = ["".join(COMP[b] for b in reversed(x)) if e["st"] == "-" else "".join(x) for x, e in zip(fwd, es)]
    cmp("sequence[intervals]", want_fwd, lambda: seqs(False))
    cmp("sequence.extract_intervals(stranded)", want_str, lambda: seqs(True))
    cmp("sequence[intervals] (FASTA order differs from genome order)", want_fwd, lambda: seqs(False, far, sort_names=True))
    cmp("sequence stranded (FASTA order differs from genome order)", want_str, lambda: seqs(True, far, sort_names=True))
    # Geometry
    geo = Geometry(sizes)
    cmp("Geometry.get_mask", v["mask"], lambda: dense(geo.get_mask(table(es)), True))
    cmp("Geometry.get_pileup", v["pileup"], lambda: dense(geo.get_pileup(table(es))))
    srt = sorted(es, key=lambda e: (e["c"], e["s"], e["e"]))
    cmp("Geometry.merge_intervals", v["merged"][0], lambda: _rows(geo.merge_intervals(table(srt), 0), names))
    cmp("Geometry.sort", v["sorted"], lambda: _rows(geo.sort(table(es)), names))
    cmp("Geometry.clip", v["clip"], lambda: _rows(geo.clip(table(stick)), names))
    # an empty interval at the first base of every contig but the first (an insertion point): sorting and merging keep it on its own contig
    if len(G) >= 2:
        es0 = es + [{"c": c + 1, "s": 0, "e": 0, "st": "+"} for c in range(1, len(G))]
        want0 = [{"c": e["c"], "s": e["s"], "e": e["e"]} for e in sorted(es0, key=lambda e: (e["c"], e["s"], e["e"]))]
        cmp("Geometry.sort[with empty intervals at contig starts]", want0, lambda: _rows(geo.sort(table(es0)), names))
    cmp("Geometry.extend_to_size", v["extend"][1], lambda: _rows(geo.extend_to_size(table(es), 2), names), length=2)
    # concatenated coordinates: bijection on valid positions
    go = g.get_genome_context().global_offset
    allc = [names[c] for c, size in enumerate(G) for _ in range(size)]
    allp = np.array([p for c, size in enumerate(G) for p in range(size)], dtype=int)
    want_glob = [v["offsets"][c] + p for c, size in enumerate(G) for p in range(size)]
    cmp("GlobalOffset.from_local_coordinates", want_glob, lambda: [int(x) for x in go.from_local_coordinates(bnp.as_encoded_array(allc), allp).tolist()])
    def back():
        c, p = go.to_local_coordinates(np.array(want_glob, dtype=int))
        return [_chroms(c), [int(x) for x in p.tolist()]]
    cmp("GlobalOffset.to_local_coordinates", [allc, allp.tolist()], back)
    return {"n": n, "nt": nt, "bad": bad}


def check_binned(v):
    """One behaviour of spec/Binned.tla on a real BinnedGenome: the same calls, then every contig's bin counts."""
    import bionumpy as bnp
    from bionumpy.datatypes import LocationEntry
    from bionumpy.genomic_data import BinnedGenome
    sizes, B, calls = v["sizes"], v["bin"], v["calls"]
    names = NAMES[:len(sizes)]

    def run_():
        g = bnp.Genome.from_dict({nm: int(n) for nm, n in zip(names, sizes)})
        bg = BinnedGenome(g.get_genome_context(), bin_size=B)
        for batch in calls:
            bg.count(LocationEntry([names[e[0] - 1] for e in batch], np.array([e[1] for e in batch], dtype=int)))
        d = bg.count_dict
        # the same positions counted from a VCF file holding all the calls (count_file reads it in chunks; 1-based positions in the file)
        import tempfile
        with tempfile.TemporaryDirectory() as td:
            pth = os.path.join(td, "p.vcf")
            with open(pth, "w") as fh:
                fh.write("##fileformat=VCFv4.2\n#CHROM\tPOS\tID\tREF\tALT\tQUAL\tFILTER\tINFO\n")
                for batch in calls:
                    for e in batch:
                        fh.write("%s\t%d\t.\tA\tC\t.\t.\t.\n" % (names[e[0] - 1], e[1] + 1))
            bf = BinnedGenome(g.get_genome_context(), bin_size=B)
            if any(calls):
                bf.count_file(pth)
            df = bf.count_dict
            from_file = [[int(x) for x in df[nm].tolist()] for nm in names]
        return [[int(x) for x in d[nm].tolist()] for nm in names], [[int(x) for x in bg[nm].tolist()] for nm in names], from_file
    o = outcome(run_)
    bad = []
    if o != ("ok", (v["counts"], v["counts"], v["counts"])):
        bad.append({"what": "BinnedGenome counts differ from the number of positions per contig and bin", "tags": {"op": "BinnedGenome.count", "boundary": False, "ncalls": len(calls)},
                    "vector": v, "expected": v["counts"], "observed": o})
    multi = len(calls) > 1 or any(len(b) > 1 for b in calls)
    return {"n": 1, "nt": [json.dumps(["binned", sizes, B, calls])] if multi else [], "bad": bad}


def run(ctx):
    quick = ctx.tier == "quick"
    plans = [("G1", 2), ("G2", 2), ("G3", 2), ("G2b", 2)] if quick else [("G1", 3), ("G2", 3), ("G3", 3), ("G2b", 3), ("G4", 2)]
    vectors = []
    for gname, me in plans:
        res = ctx.tlc("MC_C10", tag="MC_C10_" + gname, spec="Spec", constants={"G": "<- " + gname, "MaxEntries": me, "Over": 1},
                      invariants=["BijectionOK", "MergedInside", "MapLocInside", "Emit"], properties=["NoNeighbourEffect"], coverage=True)
        ctx.require_actions(res, "MC_C10", ["Add"])
        vectors += res.vectors
    for v in vectors:
        v["_dir"] = ctx.work
    ctx.sample({k: vectors[30][k] for k in ("G", "es", "mask", "merged")})
    ctx.absorb(core.pmap(check_vector, vectors, chunk=25))
    # binned counting over the genome (spec/Binned.tla; beyond the listed clauses, same boundary hazard: bins never span contigs)
    for gname, b in (("G2", 2), ("G3", 2), ("G3", 3)) if quick else (("G2", 2), ("G3", 2), ("G3", 3), ("G2", 1), ("G3", 4)):
        res = ctx.tlc("MC_Binned", tag="MC_Binned_%s_%d" % (gname, b), spec="Spec", workers=4,
                      constants={"Sizes": "<- " + gname, "B": b, "MaxCalls": 2, "MaxPerCall": 2 if quick or gname == "G3" else 3},
                      invariants=["CountsRight", "Conserved", "Emit"], coverage=True)
        ctx.require_actions(res, "MC_Binned", ["Count"])
        ctx.absorb(core.pmap(check_binned, res.vectors, chunk=100))
    ctx.exhaustive = True
    return ctx.finish(RULE, assumptions=[
        "contig names chr1, chr11, chr2, chr22 (one a prefix of another); names with '_' are covered by C12",
        "merged() is called on sorted intervals (documented precondition of merge_intervals); distances 0 and 1",
        "sequence letters are compared case-insensitively",
    ])


def replay(d):
    print("replay of C10 case:", d.get("what"), d.get("tags"))
    if d["tags"].get("op") == "BinnedGenome.count":
        r = check_binned(d["vector"])
        for b in r["bad"]:
            print("  disagrees:", b["what"], "expected", b["expected"], "observed", b["observed"])
        return 1 if r["bad"] else 0
    v = dict(d["vector"], _dir=os.path.join(core.VERIF, ".work"))
    os.makedirs(v["_dir"], exist_ok=True)
    print("  genome", v["G"], "entries", v["es"])
    r = check_vector(v)
    same = [b for b in r["bad"] if b["tags"]["op"] == d["tags"]["op"]]
    for b in same[:3]:
        print("  disagrees:", b["what"], "expected", str(b["expected"])[:200], "observed", str(b["observed"])[:200])
    if not same:
        print("  agrees now")
    return 1 if same else 0
