"""C17 — indexed FASTA random access agrees with the file.

spec/Faidx.tla: file layout from records (header length, L, W), the index row (L, offset, W, W+1) and
the substring as meaning; the row/modulo byte arithmetic and newline deletion of indexed_fasta.py as L1,
checked by TLC for every record set x every [a, b).  Every configuration is printed with its index and
concretised to a real FASTA file: created index, written .fai, supplied faidx-style .fai, whole-contig
fetch, every interval through the plain and the StringEncoding path (all records mixed in one batch),
contig lengths, Genome.from_file(...).read_sequence().
"""
import json
import os

import numpy as np

from .. import core
from ..core import outcome

RULE = ("one case = one FASTA configuration (1..N records x header length x L x W, final newline) from MC_C17; every [a,b) of every "
        "record is fetched; non-trivial = some record spans more than one line; distinct by configuration")
LETTERS = "ACGTTGCAAGTC"


def _concrete(recs, finalnl, blankend=False, crlf=False):
    names, seqs, text = [], [], ""
    nl = "\r\n" if crlf else "\n"
    for i, r in enumerate(recs):
        name = "r%d" % (i + 1)
        header = name if r["hdr"] == 2 else name + " d" + "x" * (r["hdr"] - 4)
        assert len(header) == r["hdr"]
        seq = "".join(LETTERS[(3 * i + p) % len(LETTERS)] for p in range(r["L"]))
        lines = [seq[p:p + r["W"]] for p in range(0, r["L"], r["W"])]
        text += ">" + header + nl + "".join(l + nl for l in lines)
        names.append(name)
        seqs.append(seq)
    if not finalnl:
        text = text[:-len(nl)]
    elif blankend:
        text += nl
    return names, seqs, text


def check_vector(v):
    import bionumpy as bnp
    from bionumpy.io.indexed_fasta import IndexedFasta, create_index
    from bionumpy.io.indexed_files import IndexBuffer
    from bionumpy.datatypes import Interval
    from bionumpy.encodings.string_encodings import StringEncoding
    recs, finalnl = v["recs"], v["finalnl"]
    crlf = bool(v.get("crlf"))
    names, seqs, text = _concrete(recs, finalnl, v.get("blankend", False), crlf)
    # Replace: every file a worker process handles lives under the SAME path (written, indexed, read, replaced by the next one)
    d = os.path.join(v["_dir"], "c17_%d" % os.getpid())
    os.makedirs(d, exist_ok=True)
    path = os.path.join(d, "g.fa")
    if os.path.exists(path + ".fai"):
        os.remove(path + ".fai")
    with open(path, "w", newline="") as f:
        f.write(text)
    assert len(text) == v["flen"]
    bad, n = [], 0
    tags0 = {"finalnl": finalnl, "nrec": len(recs), "blank_line_at_end": bool(v.get("blankend")), "crlf": crlf}
    multiline = any(r["L"] > r["W"] for r in recs)
    exp_index = [[names[i], row["length"], row["offset"], row["lenc"], row["lenb"]] for i, row in enumerate(v["index"])]

    def rep(what, op, exp, obs, **extra):
        bad.append({"what": what, "tags": dict(tags0, op=op, **extra), "vector": {k: v[k] for k in v if not k.startswith("_")},
                    "case": {"text": text}, "expected": exp, "observed": obs})

    # 1. the index the library builds
    def built():
        idx = create_index(path)
        # the library keeps the whole header line in the index and takes the first word as the name when it reads it back
        return [[c.split()[0], int(l), int(s), int(cp), int(ll)] for c, l, s, cp, ll in
                zip(idx.chromosome.tolist(), idx.length.tolist(), idx.start.tolist(), idx.characters_per_line.tolist(), idx.line_length.tolist())]
    o = outcome(built)
    n += 1
    if o[0] == "ok":
        # bases-per-line / bytes-per-line of a single-line record are not determined by the file: compare them only for multi-line records
        got = [row[:3] + (row[3:] if recs[i]["L"] > recs[i]["W"] else ["*", "*"]) for i, row in enumerate(o[1])]
        want = [row[:3] + (row[3:] if recs[i]["L"] > recs[i]["W"] else ["*", "*"]) for i, row in enumerate(exp_index)]
        if got != want:
            rep("created index differs from the file layout", "create_index", want, got)
    else:
        rep("create_index raised", "create_index", exp_index, o[1])

    def fetch_all(kind):
        """kind: 'built' uses the .fai written from create_index, 'supplied' a faidx-style .fai written from the model's index"""
        fai = path + ".fai"
        if kind == "built":
            bnp.open(fai, "w", buffer_type=IndexBuffer).write(create_index(path))
        else:
            with open(fai, "w") as f:
                for row in exp_index:
                    f.write("\t".join(str(x) for x in row) + "\n")
        res = {}
        fa = IndexedFasta(path)
        res["lengths"] = outcome(lambda: {k: int(x) for k, x in fa.get_contig_lengths().items()})
        res["whole"] = [outcome(lambda nm=nm: fa[nm].to_string()) for nm in names]
        # the same contigs fetched one after the other and looked at only afterwards (a result must not be a window on a reused buffer)
        res["held"] = outcome(lambda: [x.to_string() for x in [fa[nm] for nm in names]])
        if crlf:
            # CR LF files: the index, the contig lengths and whole contigs (interval fetches of such files are refused by the library)
            res["ivs"] = []
            return res
        ivs = [(i, a, b) for i, r in enumerate(recs) for a in range(r["L"]) for b in range(a + 1, r["L"] + 1)]
        chrom = [names[i] for i, _, _ in ivs]
        st = np.array([a for _, a, _ in ivs])
        en = np.array([b for _, _, b in ivs])
        res["ivs"] = ivs
        res["slow"] = outcome(lambda: fa.get_interval_sequences(Interval(chrom, st, en)).tolist())
        # the same batch in an order where each interval starts at the contig-relative byte offset the previous one stopped at
        # (preferably on another contig): every fetch positions the file handle itself (SeeksItself)
        def boff(i, x):
            w = recs[i]["W"]
            return (x // w) * (w + 1) + x % w
        left, chain = list(range(len(ivs))), []
        while left:
            if chain:
                pi, _pa, pb = ivs[chain[-1]]
                cand = [k for k in left if boff(ivs[k][0], ivs[k][1]) == boff(pi, pb)]
                cand = [k for k in cand if ivs[k][0] != pi] or cand or left
            else:
                cand = left
            chain.append(cand[0])
            left.remove(cand[0])
        res["chain"] = chain
        res["slow-chained"] = outcome(lambda: fa.get_interval_sequences(Interval([chrom[k] for k in chain], st[chain], en[chain])).tolist())
        enc = StringEncoding(names[::-1] if len(names) > 1 else names)       # label order different from file order
        res["fast"] = outcome(lambda: fa.get_interval_sequences(Interval(enc.encode(chrom), st, en)).tolist())
        # one interval at a time, to localise
        res["single"] = [outcome(lambda i=i, a=a, b=b: fa.get_interval_sequences(Interval([names[i]], [a], [b])).tolist()[0]) for i, a, b in ivs]
        return res

    for kind in ("built", "supplied"):
        o = outcome(fetch_all, kind)
        n += 1
        if o[0] == "err":
            rep("opening the indexed FASTA raised", "open_indexed", "ok", o[1], index=kind)
            continue
        res = o[1]
        want_len = {nm: r["L"] for nm, r in zip(names, recs)}
        if res["lengths"] != ("ok", want_len):
            rep("get_contig_lengths() does not report the sequence lengths", "get_contig_lengths", want_len, res["lengths"], index=kind)
        for nm, sq, ow in zip(names, seqs, res["whole"]):
            n += 1
            if ow != ("ok", sq):
                rep("fetching a whole contig does not return its sequence", "whole", sq, ow, index=kind)
        n += 1
        if res["held"] != ("ok", seqs):
            rep("whole contigs fetched one after the other and compared afterwards are not the sequences", "whole-held", seqs, res["held"], index=kind)
        if crlf:
            continue
        want = [seqs[i][a:b] for i, a, b in res["ivs"]]
        for pathname in ("slow", "fast"):
            n += len(want)
            if res[pathname] != ("ok", want):
                # localise the first differing interval
                firstbad = None
                if res[pathname][0] == "ok":
                    for (i, a, b), w, g in zip(res["ivs"], want, res[pathname][1]):
                        if w != g:
                            firstbad = {"rec": recs[i], "a": a, "b": b, "want": w, "got": g}
                            break
                at_ragged_end = (not finalnl)
                rep("interval fetch (%s path, all intervals in one batch) differs from the substrings" % pathname, "fetch-" + pathname,
                    str(want)[:200], str(firstbad or res[pathname])[:300], index=kind, ragged_end=at_ragged_end)
        n += len(want)
        wantc = [want[k] for k in res["chain"]]
        if res["slow-chained"] != ("ok", wantc):
            rep("interval fetch (slow path, each interval starting at the offset where the previous one stopped) differs from the substrings",
                "fetch-slow-chained", str(wantc)[:200], str(res["slow-chained"])[:300], index=kind, ragged_end=(not finalnl))
        for (i, a, b), w, g in zip(res["ivs"], want, res["single"]):
            n += 1
            if g != ("ok", w):
                effw = recs[i]["W"] if (kind == "supplied" or recs[i]["L"] > recs[i]["W"]) else recs[i]["L"]
                ragged = (not finalnl) and i == len(recs) - 1 and b == recs[i]["L"] and b % effw == 0
                rep("single interval fetch differs from the substring", "fetch-single", w, g, index=kind, ragged_end=ragged,
                    a_mod=a % recs[i]["W"], b_mod=b % recs[i]["W"])
                break
    # a genome made from this file asked for the sequence of ANOTHER file with the same contig names (every sequence reversed)
    if not crlf:
        def other_file():
            path2 = os.path.join(d, "h.fa")
            for f_ in (path2, path2 + ".fai"):
                if os.path.exists(f_):
                    os.remove(f_)
            with open(path2, "w") as f:
                for nm, sq in zip(names, seqs):
                    f.write(">%s\n%s\n" % (nm, sq[::-1]))
            g_ = bnp.Genome.from_file(path, filter_function=None)
            from bionumpy.datatypes import Interval as _Iv
            whole_ = _Iv(names, np.zeros(len(names), dtype=int), np.array([len(sq) for sq in seqs]))
            return [x.upper() for x in g_.read_sequence(path2)[g_.get_intervals(whole_)].tolist()], [x.upper() for x in g_.read_sequence()[g_.get_intervals(whole_)].tolist()]
        o = outcome(other_file)
        n += 1
        if o != ("ok", ([sq[::-1].upper() for sq in seqs], [sq.upper() for sq in seqs])):
            rep("Genome.read_sequence(other file) / read_sequence() do not read the file that was asked for", "read_sequence", [sq[::-1] for sq in seqs], o)
    if not crlf:
        # the same records under names that hold an underscore, behind a sequence object made from the indexed file alone (no Genome): it
        # reports every contig of the file with its length, and intervals placed through ITS context get their own bases
        def own_context():
            from bionumpy.genomic_data import GenomicSequence, GenomicIntervals
            pathu = os.path.join(d, "u.fa")
            for f_ in (pathu, pathu + ".fai"):
                if os.path.exists(f_):
                    os.remove(f_)
            unames = ["c_%d.x" % (i + 1) for i in range(len(names))]
            with open(pathu, "w") as f:
                for nm, sq in zip(unames, seqs):
                    f.write(">%s\n%s\n" % (nm, sq))
            sq_ = GenomicSequence.from_indexed_fasta(bnp.open_indexed(pathu))
            ctx_ = sq_.genome_context
            ivs_ = GenomicIntervals.from_fields(ctx_, unames, np.zeros(len(unames), dtype=int), np.array([len(x) for x in seqs]))
            return {k: int(x) for k, x in ctx_.chrom_sizes.items()}, [x.to_string().upper() for x in sq_[ivs_]]
        o = outcome(own_context)
        n += 1
        want_u = ({"c_%d.x" % (i + 1): len(sq) for i, sq in enumerate(seqs)}, [sq.upper() for sq in seqs])
        if o != ("ok", want_u):
            rep("a sequence object made from the indexed file alone does not report / serve every contig of the file", "GenomicSequence.from_indexed_fasta[own context]", want_u, o)
    if not crlf and len(names) >= 2:
        # ONE sequence object asked with intervals whose contig column is encoded by two genomes that list the contigs in opposite orders
        # (then by the first again): every interval gets the bases of the contig it names, whatever was asked before
        def two_orders():
            from bionumpy.datatypes import Interval as _Iv
            g1 = bnp.Genome.from_file(path, filter_function=None)
            g2 = bnp.Genome.from_dict({nm: len(sq) for nm, sq in reversed(list(zip(names, seqs)))})
            seq_ = g1.read_sequence()
            part = _Iv(list(names), np.zeros(len(names), dtype=int), np.array([max(1, len(sq) - 1) for sq in seqs]))
            return [[x.upper() for x in seq_[g_.get_intervals(part)].tolist()] for g_ in (g1, g2, g1)]
        o = outcome(two_orders)
        n += 1
        want2 = [sq[:max(1, len(sq) - 1)].upper() for sq in seqs]
        if o != ("ok", [want2, want2, want2]):
            rep("one sequence object asked through genomes listing the contigs in two orders does not give every interval its own contig", "read_sequence[two contig orders]", want2, o)
    key = json.dumps([recs, finalnl, crlf])
    return {"n": n, "nt": [key] if multiline else [], "bad": bad}


def check_big(v):
    """A FASTA of several reader chunks: created index against the arithmetic index of the specification, and fetches at the record borders."""
    import bionumpy as bnp
    from bionumpy.io.indexed_fasta import IndexedFasta, create_index
    from bionumpy.datatypes import Interval
    recs = v["recs"]
    crlf = bool(v.get("crlf"))
    finalnl = bool(v.get("finalnl", True))
    nl = "\r\n" if crlf else "\n"
    d = os.path.join(v["_dir"], "c17_big_%d" % os.getpid())
    os.makedirs(d, exist_ok=True)
    path = os.path.join(d, "big.fa")
    names = []

    def base(i, p):
        return LETTERS[(3 * i + p) % len(LETTERS)]
    for f_ in (path, path + ".fai"):
        if os.path.exists(f_):
            os.remove(f_)
    with open(path, "w", newline="") as f:
        for i, r in enumerate(recs):
            name = "r%d" % (i + 1)
            header = name if r["hdr"] == 2 else name + " d" + "x" * (r["hdr"] - 4)
            names.append(name)
            unit = "".join(base(i, p) for p in range(len(LETTERS)))
            seq = (unit * (r["L"] // len(LETTERS) + 1))[:r["L"]]
            body = nl.join(seq[p:p + r["W"]] for p in range(0, r["L"], r["W"]))
            f.write(">" + header + nl + body + (nl if (finalnl or i + 1 < len(recs)) else ""))
    bad, n = [], 0
    vec = {k: v[k] for k in v if not k.startswith("_")}
    if os.path.getsize(path) != v["flen"]:
        raise core.MachineryFailure("big FASTA has %d bytes, the specification says %d" % (os.path.getsize(path), v["flen"]))
    want = [[names[i], row["length"], row["offset"], row["lenc"], row["lenb"]] for i, row in enumerate(v["index"])]

    def built():
        idx = create_index(path)
        return [[c.split()[0], int(l), int(s), int(cp), int(ll)] for c, l, s, cp, ll in
                zip(idx.chromosome.tolist(), idx.length.tolist(), idx.start.tolist(), idx.characters_per_line.tolist(), idx.line_length.tolist())]
    o = outcome(built)
    n += 1
    if o != ("ok", want):
        bad.append({"what": "created index of a multi-chunk FASTA differs from the file layout", "tags": {"op": "create_index", "big": True, "nrec": len(recs), "finalnl": finalnl, "crlf": crlf},
                    "vector": vec, "expected": want, "observed": o})
    else:
        def fetches():
            from bionumpy.io.indexed_files import IndexBuffer
            bnp.open(path + ".fai", "w", buffer_type=IndexBuffer).write(create_index(path))
            fa = IndexedFasta(path)
            if crlf:
                # CR LF: whole contigs only (interval fetches of such files are refused by the library)
                last = fa[names[-1]].to_string()
                lens = {k: int(x) for k, x in fa.get_contig_lengths().items()}
                return last == "".join(base(len(recs) - 1, p) for p in range(recs[-1]["L"])), lens == {nm: r["L"] for nm, r in zip(names, recs)}, [last[:20]]
            ivs = []
            for i, r in enumerate(recs):
                L = r["L"]
                for a, b in ((0, min(L, 7)), (max(0, L - 9), L), (L // 2, min(L, L // 2 + 130))):
                    ivs.append((i, a, b))
            got = fa.get_interval_sequences(Interval([names[i] for i, _, _ in ivs], np.array([a for _, a, _ in ivs]), np.array([b for _, _, b in ivs]))).tolist()
            exp = ["".join(base(i, p) for p in range(a, b)) for i, a, b in ivs]
            lens = {k: int(x) for k, x in fa.get_contig_lengths().items()}
            return got == exp, lens == {nm: r["L"] for nm, r in zip(names, recs)}, [g[:20] for g in got][:6]
        o = outcome(fetches)
        n += 1
        if o[0] != "ok" or not (o[1][0] and o[1][1]):
            bad.append({"what": "fetching from a multi-chunk FASTA differs from the file", "tags": {"op": "fetch-big", "big": True, "nrec": len(recs), "finalnl": True, "crlf": crlf},
                        "vector": vec, "expected": "substrings at the record borders and the sequence lengths", "observed": str(o)[:300]})
    import shutil
    shutil.rmtree(d, ignore_errors=True)
    return {"n": n, "nt": [json.dumps(["big", recs, crlf])], "bad": bad}


def run(ctx):
    quick = ctx.tier == "quick"
    vectors = []
    for fn in (True, False):
        consts = {"MaxRecs": 2, "MaxL": 4 if quick else 6, "MaxW": 3 if quick else 4, "FinalNL": fn, "BlankEnd": False, "MaxFetch": 1, "CRLF": False}
        invs = ["FetchCorrect" if fn else "FetchCorrectUnlessAtRaggedEnd", "OffsetsAgree", "SeeksItself", "Emit"]
        res = ctx.tlc("MC_C17", tag="MC_C17_%s" % ("nl" if fn else "nonl"), spec="Spec", constants=consts, invariants=invs, coverage=True)
        ctx.require_actions(res, "MC_C17", ["FetchAny", "WholeAny", "Replace"])
        vectors += res.vectors
    if True:
        # batches of two fetches through one handle, smaller files (two fetches on the large instances cost 40 minutes of TLC time)
        res = ctx.tlc("MC_C17", tag="MC_C17_batch", spec="Spec", constants={"MaxRecs": 2, "MaxL": 3 if quick else 4, "MaxW": 2 if quick else 3, "FinalNL": True, "BlankEnd": False, "MaxFetch": 2, "CRLF": False},
                      invariants=["FetchCorrect", "SeeksItself"], keep_vectors=False)
    # the same files with an empty line after the last record
    res = ctx.tlc("MC_C17", tag="MC_C17_blank", spec="Spec", constants={"MaxRecs": 2, "MaxL": 3 if quick else 5, "MaxW": 2 if quick else 3, "FinalNL": True, "BlankEnd": True, "MaxFetch": 1, "CRLF": False},
                  invariants=["FetchCorrect", "OffsetsAgree", "Emit"])
    vectors += res.vectors
    # CR LF line ends, with and without a terminated last line: index, contig lengths and whole contigs
    for fn in (True, False):
        res = ctx.tlc("MC_C17", tag="MC_C17_crlf_%s" % fn, spec="Spec", constants={"MaxRecs": 2, "MaxL": 3 if quick else 5, "MaxW": 2 if quick else 3, "FinalNL": fn, "BlankEnd": False, "MaxFetch": 1, "CRLF": True},
                      invariants=["WholeCorrect", "OffsetsAgree", "Emit"])
        vectors += res.vectors
    if not quick:
        res = ctx.tlc("MC_C17", tag="MC_C17_3recs", spec="Spec", constants={"MaxRecs": 3, "MaxL": 3, "MaxW": 2, "FinalNL": True, "BlankEnd": False, "MaxFetch": 2, "CRLF": False},
                      invariants=["FetchCorrect", "OffsetsAgree", "Emit"])
        vectors += res.vectors
    for i, v in enumerate(vectors):
        v["_id"] = i
        v["_dir"] = ctx.work
    ctx.sample({k: vectors[7][k] for k in ("recs", "finalnl", "index")})
    ctx.absorb(core.pmap(check_vector, vectors, chunk=10))
    # a file of several reader chunks (the index is built chunk by chunk): index by the arithmetic definition, TLC-checked above
    big = ctx.tlc("MC_C17big", tag="MC_C17big", spec="BigSpec", constants={"MaxRecs": 1, "MaxL": 1, "MaxW": 1, "FinalNL": True, "BlankEnd": False, "MaxFetch": 1, "CRLF": False}, invariants=["EmitBig", "ReadBoundaryAtLineEnd"])
    bv = dict(big.vectors[0], _dir=ctx.work)
    ctx.absorb([check_big(bv)])
    big2 = ctx.tlc("MC_C17big", tag="MC_C17big_six", spec="BigSpec2", constants={"MaxRecs": 1, "MaxL": 1, "MaxW": 1, "FinalNL": True, "BlankEnd": False, "MaxFetch": 1, "CRLF": False}, invariants=["EmitBig"])
    ctx.absorb([check_big(dict(big2.vectors[0], _dir=ctx.work))])
    big3 = ctx.tlc("MC_C17big", tag="MC_C17big_two_reads", spec="BigSpec3", constants={"MaxRecs": 1, "MaxL": 1, "MaxW": 1, "FinalNL": False, "BlankEnd": False, "MaxFetch": 1, "CRLF": False}, invariants=["EmitBig", "TwoFullReads"])
    ctx.absorb([check_big(dict(big3.vectors[0], _dir=ctx.work))])
    bigc = ctx.tlc("MC_C17big", tag="MC_C17big_crlf", spec="BigSpec", constants={"MaxRecs": 1, "MaxL": 1, "MaxW": 1, "FinalNL": True, "BlankEnd": False, "MaxFetch": 1, "CRLF": True}, invariants=["EmitBig"])
    ctx.absorb([check_big(dict(bigc.vectors[0], _dir=ctx.work))])
    ctx.exhaustive = True
    return ctx.finish(RULE, assumptions=[
        "bases-per-line of a record that fits on one line is not determined by the file and is not compared",
        "a description after the contig name is separated by a space; names are unique",
    ])


def replay(d):
    print("replay of C17 case:", d.get("what"), d.get("tags"))
    print(d["case"]["text"])
    v = dict(d["vector"], _id=0, _dir=os.path.join(core.VERIF, ".work"))
    r = check_vector(v)
    same = [b for b in r["bad"] if b["tags"].get("op") == d["tags"].get("op")]
    for b in same[:3]:
        print("  disagrees:", b["what"], "expected", str(b["expected"])[:200], "observed", str(b["observed"])[:200])
    if not same:
        print("  agrees now")
    return 1 if same else 0
