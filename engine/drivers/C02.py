"""C02 — parsed columns mean what the file format says the text means.

spec/Formats.tla gives, per format, what a file's text means (lines, comment/header lines, tab-separated
columns, column kinds: verbatim text, integers by value, VCF POS 1-based -> 0-based, optional integers,
floats as exact rationals, strands, comma-separated integer lists, SAM's rest-of-line tags; FASTA lines joined;
FASTQ line roles and Phred+33) and spec/MC_C02.tla assembles well-formed files line by line from sample
records (non-canonical spellings included) with optional header/comment lines, LF/CRLF, with/without final
newline, FASTA at several wrap widths; TLC checks that header and comment lines never become entries and that
the entries do not depend on line ends / header / final newline, and prints every file with its meaning.
Binding A replays every file (lazy, eager, direct buffer); binding B generates larger random files per
grammar, reads them with the implementation and lets TLC decide obs = Parse(text) (Trace_C02).
"""
import dataclasses
import json
import os
import random
from fractions import Fraction

import numpy as np

from .. import core
from ..core import outcome

RULE = ("A: one case = one well-formed file state of MC_C02 (format, sample records in any order/multiplicity, header lines, CRLF, final newline, "
        "FASTA width), read lazily, eagerly and through the buffer class; B: one random grammar-generated file read and validated by TLC; "
        "non-trivial = more than one record with unequal field widths, or a header/comment line, CRLF or missing final newline; distinct by file text")
FORMATS = ["vcfinfo", "vcfphased", "bed3", "bed6", "bed6dot", "bed12", "bedgraph", "narrowpeak", "chromsizes", "vcf", "sam", "gtf", "gff", "pairs", "wig", "gfa", "fasta", "fastq"]
KINDS = {
    "bed3": ["str", "int", "int"], "bed6": ["str", "int", "int", "str", "optint", "strand"],
    "bed12": ["str", "int", "int", "str", "optint", "strand", "int", "int", "str", "int", "ints", "ints"],
    "bedgraph": ["str", "int", "int", "float"], "narrowpeak": ["str", "int", "int", "str", "optint", "strand", "float", "float", "float", "int"],
    "chromsizes": ["str", "int"], "vcf": ["str", "int1", "str", "str", "str", "str", "str", "str"],
    "sam": ["str", "int", "str", "int", "int", "str", "str", "int", "int", "str", "str", "rest"],
    "gtf": ["str", "str", "str", "int", "int", "str", "strand", "str", "str"], "gff": ["str", "str", "str", "int", "int", "str", "strand", "str", "str"],
    "pairs": ["str", "str", "int", "str", "int", "strand", "strand"], "wig": ["str", "int", "int", "float"], "gfa": ["str", "str"],
}
KINDS["bed6dot"] = KINDS["bed6"]


def _open_kw(fmt):
    import bionumpy as bnp
    from bionumpy.io import delimited_buffers as db
    suffix = {"bed3": ".bed", "bed6": ".bed", "bed6dot": ".bed", "bed12": ".bed", "bedgraph": ".bdg", "narrowpeak": ".narrowPeak", "chromsizes": ".sizes",
              "vcf": ".vcf", "sam": ".sam", "gtf": ".gtf", "gff": ".gff", "pairs": ".pairs", "wig": ".wig", "gfa": ".gfa", "fasta": ".fa", "fastq": ".fq"}[fmt]
    buf = {"bed6": db.Bed6Buffer, "bed6dot": db.Bed6Buffer, "bed12": db.Bed12Buffer}.get(fmt)
    return suffix, buf


def _bytes(s):
    return [ord(c) for c in s]


def _cell(kind, v):
    if kind in ("str", "rest", "strand"):
        s = v if isinstance(v, str) else (v.to_string() if hasattr(v, "to_string") else str(v))
        return _bytes(s)
    if kind in ("int", "int1"):
        return int(v)
    if kind == "optint":
        return ["int", int(v)]
    if kind == "float":
        f = Fraction(float(v))
        if f.denominator > 10 ** 6 or abs(f.numerator) > 2 * 10 ** 8:
            f = Fraction(float(v)).limit_denominator(10 ** 6)
            if float(f) != float(v):
                return [int(round(float(v) * 1000)) + 1, 1000, "inexact"]
        return [f.numerator, f.denominator]
    if kind == "ints":
        return [int(x) for x in v]
    raise ValueError(kind)


def project(fmt, table):
    rows = table.tolist()
    out = []
    if fmt == "fasta":
        return [[_bytes(r.name), _bytes(r.sequence)] for r in rows]
    if fmt == "fastq":
        return [[_bytes(r.name), _bytes(r.sequence), [int(x) for x in r.quality]] for r in rows]
    ks = KINDS[fmt]
    for r in rows:
        vals = [getattr(r, f.name) for f in dataclasses.fields(r)]
        out.append([_cell(k, v) for k, v in zip(ks, vals)])
    return out


def _same(fmt, exp, got):
    if fmt in ("fasta", "fastq"):
        return exp == got
    if len(exp) != len(got):
        return False
    ks = KINDS[fmt]
    for re, rg in zip(exp, got):
        if len(re) != len(rg):
            return False
        for k, e, g in zip(ks, re, rg):
            if k == "float":
                if len(g) != 2 or e[0] * g[1] != g[0] * e[1]:
                    return False
            elif k == "optint":
                if e == ["missing"]:
                    if g not in (["int", 0], ["missing"]):
                        return False
                elif e != g:
                    return False
            elif e != g:
                return False
    return True


def read_all(fmt, data, d, tag):
    """three ways of reading the same bytes -> projected rows (or error)"""
    import bionumpy as bnp
    suffix, buf = _open_kw(fmt)
    path = os.path.join(d, "f%s%s" % (tag, suffix))
    with open(path, "wb") as f:
        f.write(data)
    kw = {"buffer_type": buf} if buf is not None else {}
    res = {}
    for lazy in (True, False):
        res["lazy" if lazy else "eager"] = outcome(lambda: project(fmt, bnp.open(path, lazy=lazy, **kw).read()))
    res["chunks"] = outcome(lambda: [r for c in bnp.open(path, **kw).read_chunks(min_chunk_size=max(len(data) // 2, 1)) for r in project(fmt, c)])
    # the entries selected in another order before any column is parsed (expected: the same rows, reversed), and the whole table
    # parsed after a look at its first rows (a column parsed for a slice must not disturb the parse of the whole)
    for lazy in (True, False):
        res[("lazy" if lazy else "eager") + "-reversed"] = outcome(lambda: project(fmt, bnp.open(path, lazy=lazy, **kw).read()[::-1]))

    def peek_then_all():
        t = bnp.open(path, **kw).read()
        project(fmt, t[:max(1, len(t) // 2)])
        return project(fmt, t)
    res["lazy-after-peek"] = outcome(peek_then_all)

    def after_slice_write():
        # a slice of the table is written to another file before any column of the table itself is parsed
        t = bnp.open(path, **kw).read()
        if len(t) < 2:
            return None
        w = bnp.open(path + ".part" + suffix, "w", **kw)
        w.write(t[1:])
        w.close()
        os.remove(path + ".part" + suffix)
        return project(fmt, t)
    res["lazy-after-slice-write"] = outcome(after_slice_write)

    def chunks_sliced_concat():
        # every chunk without its first entry, joined again: the entries of the file minus those (first entries are put back as markers)
        chunks = list(bnp.open(path, **kw).read_chunks(min_chunk_size=max(len(data) // 3, 1)))
        if len(chunks) < 2 or any(len(c) < 2 for c in chunks[:-1]):
            return None
        joined = np.concatenate([c[1:] for c in chunks])
        rows = project(fmt, joined)
        out, k = [], 0
        for c in chunks:
            out.append("dropped")
            out += rows[k:k + len(c) - 1]
            k += len(c) - 1
        return out
    res["chunks-sliced-concat"] = outcome(chunks_sliced_concat)
    os.remove(path)
    return res


INFO_KEYS = [("DP", "Integer"), ("AF", "Float"), ("DB", "Flag"), ("DBV", "String"), ("AC", "Integers")]
INFO_KEYS_ALT = [("DP", "Float"), ("AF", "String"), ("DB", "Flag"), ("DBV", "String"), ("AC", "Integers")]      # FormatSamples.tla!AltInfoDecl


def alt_header(data):
    """the same file with the header declaring DP as Float and AF as String (same keys, same order)"""
    return data.replace(b"ID=DP,Number=1,Type=Integer", b"ID=DP,Number=1,Type=Float").replace(b"ID=AF,Number=1,Type=Float", b"ID=AF,Number=1,Type=String")


def read_vcf_typed(data, d, tag, INFO_KEYS=INFO_KEYS, only_info=False):
    """typed INFO (default VCF buffer, lazy and eager), genotype strings (VCFBuffer2) and the genotype matrix (VCFMatrixBuffer)"""
    import bionumpy as bnp
    from bionumpy.io.vcf_buffers import VCFBuffer2, VCFMatrixBuffer
    path = os.path.join(d, "v%s.vcf" % tag)
    with open(path, "wb") as f:
        f.write(data)
    res = {}

    def typed(lazy, variant=""):
        t = bnp.open(path, lazy=lazy).read()
        if variant == "reversed":
            t = t[::-1]
        elif variant == "after-peek":
            head = t[:max(1, len(t) // 2)]
            for key, typ in INFO_KEYS:
                getattr(head.info, key).tolist()
        info = t.info
        cols = {}
        for key, typ in INFO_KEYS:
            col = getattr(info, key)
            vals = col.tolist()
            cols[key] = vals
        n = len(t)
        out = []
        base = project("vcf", bnp.open(path, lazy=lazy, buffer_type=bnp.io.vcf_buffers.VCFWithInfoAsStringBuffer).read())
        if variant == "reversed":
            base = base[::-1]
        for i in range(n):
            row = []
            for key, typ in INFO_KEYS:
                x = cols[key][i]
                if typ == "Integer":
                    row.append(["int", int(x)])
                elif typ == "Float":
                    row.append(["nan"] if x != x else ["float", _cell("float", x)])
                elif typ == "Flag":
                    row.append(bool(x))
                elif typ == "String":
                    row.append(_bytes(x))
                else:
                    row.append([int(y) for y in x])
            out.append({"base": base[i], "info": row})
        return out
    for lazy in (True, False):
        res["info-" + ("lazy" if lazy else "eager")] = outcome(typed, lazy)
        res["info-" + ("lazy" if lazy else "eager") + "-reversed"] = outcome(typed, lazy, "reversed")
        res["info-" + ("lazy" if lazy else "eager") + "-after-peek"] = outcome(typed, lazy, "after-peek")
    # three tables joined in one call: this file, the same records in the opposite line order (another file), and this file again
    def concat3(lazy):
        lines = data.split(b"\n")
        nl_end = data.endswith(b"\n")
        body = [l for l in lines if l and not l.startswith(b"#")]
        head = [l for l in lines if l.startswith(b"#")]
        path2 = path[:-4] + "_r.vcf"
        with open(path2, "wb") as f:
            f.write(b"\n".join(head + body[::-1]) + b"\n")
        a, b, c = (bnp.open(p_, lazy=lazy).read() for p_ in (path, path2, path))
        if not lazy:
            for t_ in (a, b, c):
                t_.info            # typed INFO of every operand already parsed
        j = np.concatenate([a, b, c])
        info = j.info
        out = []
        for i in range(len(j)):
            row = []
            for key, typ in INFO_KEYS:
                x = getattr(info, key).tolist()[i]
                if typ == "Integer":
                    row.append(["int", int(x)])
                elif typ == "Float":
                    row.append(["nan"] if x != x else ["float", _cell("float", x)])
                elif typ == "Flag":
                    row.append(bool(x))
                elif typ == "String":
                    row.append(_bytes(x))
                else:
                    row.append([int(y) for y in x])
            out.append({"base": None, "info": row})
        os.remove(path2)
        return out
    for lazy in (True, False):
        res["info-" + ("lazy" if lazy else "eager") + "-concat3"] = outcome(concat3, lazy)
    if only_info:
        os.remove(path)
        return res
    res["genotype-strings"] = outcome(lambda: [[list(b) for b in row] for row in bnp.open(path, buffer_type=VCFBuffer2).read().genotype.raw().tolist()])
    def matrix():
        txt = bnp.open(path, buffer_type=VCFMatrixBuffer).read().genotypes.tolist()
        txt = txt if isinstance(txt, str) else "\n".join(txt)
        return [[_bytes(x) for x in row.split("\t")] for row in txt.split("\n")]
    res["genotype-matrix"] = outcome(matrix)
    os.remove(path)
    return res


def check_vcf_order(job):
    """two VCF files with the same INFO keys declared with different types, read one after the other in a process where no VCF was read
    before: each must be read by its own header"""
    order, v = job
    bad, n = [], 0
    for which in order:
        r = check_vcf_typed(v, alt=(which == "alt"))
        n += r["n"]
        for b in r["bad"]:
            b["tags"]["order"] = "-".join(order)
            b["tags"]["header"] = which
            b["group"] = dict(b["group"], order="-".join(order), header=which)
        bad += r["bad"]
    return {"n": n, "nt": ["vcforder|" + "-".join(order)], "bad": bad}


def check_vcf_typed(v, alt=False):
    data = bytes(v["text"])
    exp = v["expected"]
    INFO_KEYS = globals()["INFO_KEYS"]
    if alt:
        data, exp, INFO_KEYS = alt_header(data), v["expectedAlt"], INFO_KEYS_ALT
        res = read_vcf_typed(data, v["_dir"], "%d_%da" % (os.getpid(), v["_id"]), INFO_KEYS=INFO_KEYS, only_info=True)
    else:
        res = read_vcf_typed(data, v["_dir"], "%d_%d" % (os.getpid(), v["_id"]))
    bad, n = [], 0
    for mode, o in res.items():
        n += 1
        ok = o[0] == "ok"
        if ok and mode.startswith("info"):
            wantrows = exp[::-1] if mode.endswith("-reversed") else (exp + exp[::-1] + exp if mode.endswith("-concat3") else exp)
            ok = len(o[1]) == len(wantrows)
            for g, e in zip(o[1] if ok else [], wantrows):
                if g["base"] is not None and not _same("vcf", [e["base"][:7] + [[]]], [g["base"][:7] + [[]]]):      # the INFO text itself is compared through its typed keys
                    ok = False
                for (key, typ), ge, ee in zip(INFO_KEYS, g["info"], e["info"]):
                    if typ == "Integer":
                        ok = ok and (ge == ee or (ee == ["missing"] and ge == ["int", 0]))
                    elif typ == "Float":
                        ok = ok and ((ee == ["missing"] and ge == ["nan"]) or (ee[0] == "float" and ge[0] == "float" and ee[1][0] * ge[1][1] == ge[1][0] * ee[1][1]))
                    else:
                        ok = ok and ge == ee
        elif ok:
            ok = o[1] == [e["gt"] for e in exp]
        if not ok:
            bad.append({"what": "typed VCF INFO keys / genotypes differ from what the header declaration and the text say",
                        "tags": {"format": "vcfinfo", "mode": mode, "kind": "raises" if o[0] != "ok" else "values"},
                        "group": {"format": "vcfinfo", "mode": mode}, "vector": {k: v[k] for k in v if not k.startswith("_")},
                        "case": {"text": data.decode("latin-1")[-300:]}, "expected": str(exp)[:400], "observed": str(o)[:400]})
    return {"n": n, "nt": [json.dumps(v["text"])], "bad": bad}


VCF_BUFFERS = ["default", "VCFBuffer2", "VCFMatrixBuffer", "PhasedVCFMatrixBuffer", "PhasedHaplotypeVCFMatrixBuffer"]


def check_vcf_phased(v, order=None, lazies=(True, False)):
    """A VCF whose genotypes are all phased and biallelic, read through every VCF buffer class in the given order (lazily and eagerly):
    each class gives its own columns, whichever class read a file with this header before."""
    import bionumpy as bnp
    from bionumpy.io import vcf_buffers as vb
    data, exp = bytes(v["text"]), v["expected"]
    path = os.path.join(v["_dir"], "ph_%d_%d.vcf" % (os.getpid(), v["_id"]))
    with open(path, "wb") as f:
        f.write(data)
    bad, n = [], 0
    for name in (order or VCF_BUFFERS):
        for lazy in lazies:
            kw = {} if name == "default" else {"buffer_type": getattr(vb, name)}

            def run_(variant):
                t = bnp.open(path, lazy=lazy, **kw).read()
                if variant == "reversed":
                    t = t[::-1]
                if name == "default":
                    return [r[:7] for r in project("vcf", t)]
                if name == "VCFBuffer2":
                    return [[list(b) for b in row] for row in t.genotype.raw().tolist()]
                g = t.genotypes
                codes = [[int(x) for x in row] for row in np.asarray(g.raw()).tolist()]
                if name == "PhasedHaplotypeVCFMatrixBuffer":
                    return codes
                txt = g.tolist()
                txt = txt if isinstance(txt, str) else "\n".join(txt)
                return [codes if name == "PhasedVCFMatrixBuffer" else None, [[_bytes(x) for x in row.split("\t")] for row in txt.split("\n")]]
            for variant in ("", "reversed"):
                rows = exp[::-1] if variant else exp
                want = {"default": [e["base"][:7] for e in rows], "VCFBuffer2": [e["gt"] for e in rows],
                        "VCFMatrixBuffer": [None, [e["gt"] for e in rows]], "PhasedVCFMatrixBuffer": [[e["phased"] for e in rows], [e["gt"] for e in rows]],
                        "PhasedHaplotypeVCFMatrixBuffer": [e["haplo"] for e in rows]}[name]
                o = outcome(run_, variant)
                n += 1
                ok = o[0] == "ok" and (_same("vcf", [w + [[]] for w in want], [g + [[]] for g in o[1]]) if name == "default" else o[1] == want)
                if not ok:
                    bad.append({"what": "a VCF with phased genotypes read through %s differs from what the text says" % name,
                                "tags": {"format": "vcfphased", "buffer": name, "lazy": lazy, "mode": variant or "plain", "kind": "raises" if o[0] != "ok" else "values",
                                         "order": "-".join(order) if order else "all"},
                                "group": {"format": "vcfphased", "buffer": name, "lazy": lazy, "order": "-".join(order) if order else "all"},
                                "vector": {k: v[k] for k in v if not k.startswith("_")}, "case": {"text": data.decode("latin-1")[-300:]},
                                "expected": str(want)[:300], "observed": str(o)[:300]})
    os.remove(path)
    return {"n": n, "nt": [json.dumps(v["text"])], "bad": bad}


def check_vcf_buffer_order(job):
    """the buffer classes in one order, in a process where no VCF was read before"""
    order, lazies, v = job
    r = check_vcf_phased(v, order=order, lazies=lazies)
    return {"n": r["n"], "nt": ["vcfbuffers|%s|%s" % ("-".join(order), lazies)], "bad": r["bad"]}


def check_vector(v):
    fmt = v["fmt"]
    if fmt == "vcfinfo":
        return check_vcf_typed(v)
    if fmt == "vcfphased":
        return check_vcf_phased(v)
    data = bytes(v["text"])
    exp = v["expected"]
    bad, n = [], 0
    res = read_all(fmt, data, v["_dir"], "%d_%d" % (os.getpid(), v["_id"]))
    widths = len({len(str(r)) for r in exp}) > 1
    nt = [json.dumps(v["text"])] if (len(exp) > 1 and widths) or v["crlf"] or not v["finalnl"] or v["header"] or v["ncomments"] else []
    for mode, o in res.items():
        want = exp[::-1] if mode.endswith("-reversed") else exp
        if mode == "lazy-after-slice-write" and o == ("ok", None):
            continue
        if mode == "chunks-sliced-concat":
            if o == ("ok", None):
                continue
            if o[0] == "ok" and len(o[1]) == len(exp):
                keep = [i for i, r in enumerate(o[1]) if r != "dropped"]
                o, want = ("ok", [o[1][i] for i in keep]), [exp[i] for i in keep]
        n += 1
        if o[0] != "ok" or not _same(fmt, want, o[1]):
            kind = "raises" if o[0] != "ok" else ("count" if len(o[1]) != len(exp) else "values")
            mixed_dot = fmt == "bed6dot" or False
            bad.append({"what": "entries read from a well-formed %s file differ from what the format assigns to its text" % fmt,
                        "tags": {"format": fmt, "mode": mode, "kind": kind, "crlf": v["crlf"], "finalnl": v["finalnl"], "header": v["header"],
                                 "comments": v["ncomments"] > 0},
                        "group": {"format": fmt, "kind": kind, "crlf": v["crlf"], "comments": v["ncomments"] > 0, "header": v["header"]},
                        "vector": {k: v[k] for k in v if not k.startswith("_")}, "case": {"text": data.decode("latin-1")},
                        "expected": str(exp)[:300], "observed": str(o)[:300]})
    return {"n": n, "nt": nt, "bad": bad}


# ------------------------------------------------------------------------------------------------ binding B: grammar-driven random files
def _gen_file(rng, fmt):
    def ident(maxw=12):
        w = rng.choice([1, 2, 3, maxw])
        return "".join(rng.choice("abcXYZ019_") for _ in range(w))
    def integer(maxd=8, signed=False, spell=True):
        v = rng.randint(0, 10 ** rng.randint(1, maxd) - 1)
        s = str(v)
        if spell and rng.random() < 0.2:
            s = "0" * rng.randint(1, 2) + s
        if spell and rng.random() < 0.1:
            s = "+" + s
        if signed and rng.random() < 0.3:
            s = "-" + str(v)
        return s
    def flt():
        return rng.choice(["1.5", "0.25", "10", "2e1", "3.5e0", "-2.25", "1e3", "1.5e+03", "2e+1", "0.5", "12.75", "7", "1.0e-1".replace("e-1", "e0")])
    def seq(n=None):
        return "".join(rng.choice("ACGT") for _ in range(n if n is not None else rng.choice([1, 2, 5, 17, 60])))
    n = rng.randint(1, 25)
    lines, header = [], []
    if fmt in ("bed3", "bed6", "bed12", "bedgraph", "narrowpeak", "wig"):
        for _ in range(n):
            st = integer(7)
            cols = [ident(), st, integer(8)]
            if fmt in ("bed6", "bed12", "narrowpeak"):
                cols += [ident(), integer(3, spell=False), rng.choice("+-.")]
            if fmt == "bed12":
                k = rng.randint(1, 4)
                cols += [integer(6), integer(6), ",".join(integer(3, spell=False) for _ in range(3)), str(k),
                         ",".join(integer(4, spell=False) for _ in range(k)) + rng.choice(["", ","]), ",".join(integer(4, spell=False) for _ in range(k)) + rng.choice(["", ","])]
            if fmt in ("bedgraph", "wig"):
                cols.append(flt())
            if fmt == "narrowpeak":
                cols += [flt(), flt(), flt(), integer(3, spell=False)]
            lines.append("\t".join(cols))
            if fmt == "wig" and rng.random() < 0.15:
                lines.append("#interior comment")
        if fmt in ("bedgraph", "wig") and rng.random() < 0.5:
            header = ["#track type=bedGraph"]
    elif fmt == "chromsizes":
        lines = ["%s\t%s" % (ident(), integer(9, spell=False)) for _ in range(n)]
    elif fmt == "vcf":
        header = ["##fileformat=VCFv4.2", "#CHROM\tPOS\tID\tREF\tALT\tQUAL\tFILTER\tINFO"]
        for _ in range(n):
            lines.append("\t".join([ident(), str(rng.randint(1, 10 ** rng.randint(1, 8))), rng.choice([".", "rs" + integer(5, spell=False)]), seq(rng.choice([1, 1, 3])),
                                    seq(rng.choice([1, 2])), rng.choice([".", "30", "5.5"]), rng.choice(["PASS", ".", "q10"]), rng.choice([".", "DP=3", "DP=10;AF=0.5"])]))
    elif fmt == "sam":
        header = ["@HD\tVN:1.6", "@SQ\tSN:c\tLN:999"]
        for _ in range(n):
            k = rng.choice([1, 3, 20])
            cols = [ident(), str(rng.choice([0, 16, 99, 147])), ident(), integer(7, spell=False), str(rng.randint(0, 60)), "%dM" % k,
                    rng.choice(["*", "="]), integer(5, spell=False), integer(4, signed=True, spell=False), seq(k), "I" * k]
            tags = rng.choice([[], ["NM:i:0"], ["NM:i:1", "MD:Z:3"]])
            lines.append("\t".join(cols + tags))
    elif fmt in ("gtf", "gff"):
        header = ["#!genome-build x"] if fmt == "gtf" else ["##gff-version 3"]
        for _ in range(n):
            attr = 'gene_id "%s"; transcript_id "%s";' % (ident(), ident()) if fmt == "gtf" else "ID=%s;Parent=%s" % (ident(), ident())
            lines.append("\t".join([ident(), ident(), rng.choice(["gene", "exon", "transcript"]), integer(6, spell=False), integer(7, spell=False),
                                    rng.choice([".", "0.5"]), rng.choice("+-."), rng.choice([".", "0", "1"]), attr]))
            if fmt == "gff" and rng.random() < 0.15:
                lines.append("#interior comment")
    elif fmt == "pairs":
        header = ["## pairs format v1.0"]
        lines = ["\t".join([ident(), ident(), integer(7, spell=False), ident(), integer(7, spell=False), rng.choice("+-"), rng.choice("+-")]) for _ in range(n)]
    elif fmt == "gfa":
        lines = ["S\t%s\t%s" % (ident(), seq()) for _ in range(n)]
    elif fmt == "fasta":
        w = rng.choice([1, 2, 7, 60, 80])
        for _ in range(n):
            s = seq(rng.choice([1, w - 1 if w > 1 else 1, w, w + 1, 2 * w, 2 * w + 1, 3]))
            lines.append(">" + ident() + rng.choice(["", " some description"]))
            lines += [s[i:i + w] for i in range(0, len(s), w)]
    elif fmt == "fastq":
        for _ in range(n):
            s = seq()
            name = ident()
            lines += ["@" + name, s, rng.choice(["+", "+" + name]), "".join(chr(33 + rng.randint(0, 60)) for _ in s)]
    use_header = header if rng.random() < 0.7 or fmt in ("vcf",) else []
    nl = "\r\n" if rng.random() < 0.3 else "\n"
    text = "".join(l + nl for l in use_header + lines)
    if rng.random() < 0.4:
        text = text[:-len(nl)]
    return text


def record_trace(job):
    import bionumpy as bnp
    tid, seed, d = job
    rng = random.Random(seed)
    fmt = rng.choice([f for f in FORMATS if f not in ("bed6dot", "vcfinfo", "vcfphased")])
    text = _gen_file(rng, fmt)
    data = text.encode("latin-1")
    res = read_all(fmt, data, d, "B%d_%d" % (os.getpid(), tid))
    # rows of a reversed selection are sent to TLC in file order (TLC compares with Parse(text))
    csc = res.pop("chunks-sliced-concat")
    if res.get("lazy-after-slice-write") == ("ok", None):
        res.pop("lazy-after-slice-write")
    res = {m: (("ok", o[1][::-1]) if m.endswith("-reversed") and o[0] == "ok" else o) for m, o in res.items()}
    if csc != ("ok", None):
        # the entries dropped from each chunk are filled in from the lazy read (itself validated by TLC), so that TLC sees a whole file
        if csc[0] == "ok" and res["lazy"][0] == "ok" and len(csc[1]) == len(res["lazy"][1]):
            csc = ("ok", [res["lazy"][1][i] if r == "dropped" else r for i, r in enumerate(csc[1])])
        res["chunks-sliced-concat"] = csc
    return {"tid": tid, "fmt": fmt, "text": list(data), "res": res}


def validate(ctx, recs):
    items, bad = [], []
    for r in recs:
        for mode, o in r["res"].items():
            if o[0] != "ok":
                bad.append({"what": "reading a well-formed %s file raised" % r["fmt"], "tags": {"format": r["fmt"], "mode": mode, "kind": "raises", "binding": "B"},
                            "group": {"format": r["fmt"], "kind": "raises"}, "trace": {"fmt": r["fmt"], "text": r["text"]},
                            "expected": "entries", "observed": o[1], "case": {"text": bytes(r["text"]).decode("latin-1")[:400]}})
            else:
                items.append({"tid": len(items), "fmt": r["fmt"], "text": r["text"], "obs": o[1], "_mode": mode, "_src": r["tid"]})
    path = os.path.join(ctx.work, "c02_traces.json")
    with open(path, "w") as f:
        json.dump([{k: t[k] for k in ("tid", "fmt", "text", "obs")} for t in items], f)
    res = ctx.tlc("Trace_C02", workers=1, env={"TRACE_FILE": path}, init="Init", next_="Next", postcondition="Post", timeout=3000)
    rej, acc = {}, None
    for line in res.printed:
        parts = [p.strip().strip('"') for p in line.strip("<>").split(",", 2)]
        if parts[0] == "REJECT":
            rej[int(parts[1])] = parts[2]
        elif parts[0] == "ACCEPTED":
            acc = int(parts[1])
    if acc is None or acc + len(rej) != len(items):
        raise core.MachineryFailure("Trace_C02 bookkeeping mismatch %s %s %s" % (acc, len(rej), len(items)))
    for tid, why in rej.items():
        t = items[tid]
        bad.append({"what": "entries read from a %s file are not what Formats.tla assigns to its text (%s)" % (t["fmt"], why),
                    "tags": {"format": t["fmt"], "mode": t["_mode"], "kind": "values", "binding": "B"}, "group": {"format": t["fmt"], "kind": "values"},
                    "trace": {"fmt": t["fmt"], "text": t["text"]}, "expected": "Formats.tla!Parse", "observed": str(t["obs"])[:300],
                    "case": {"text": bytes(t["text"]).decode("latin-1")[:400]}})
    return bad, acc


def run(ctx):
    quick = ctx.tier == "quick"
    vectors = []
    for fmt in FORMATS:
        res = ctx.tlc("MC_C02", tag="MC_C02_" + fmt, spec="Spec",
                      constants={"Fmt": fmt, "MaxRecords": 2 if quick else 3, "WrapWidths": [1, 2, 4] if quick else [1, 2, 3, 4, 10]},
                      invariants=["EntriesAreRecords", "PhasedInverse", "Emit"], coverage=fmt in ("bed3", "gff"), workers=4)
        if fmt in ("bed3", "gff"):
            # the vacuity guard (every action taken) needs TLC's coverage statistics, which cost about 20 s per run on this module: two formats
            # stand for all (the actions are the same for every format; gff also takes AddComment)
            ctx.require_actions(res, "MC_C02", ["AddRecord", "Close"] + (["AddComment"] if fmt == "gff" else []))
        vectors += res.vectors
    for i, v in enumerate(vectors):
        v["_id"] = i
        v["_dir"] = ctx.work
    ctx.sample({k: vectors[5][k] for k in ("fmt", "expected", "crlf", "finalnl")})
    ctx.absorb(core.pmap(check_vector, vectors, chunk=25))
    # the same INFO keys declared with other types in a second file: both orders, each in a process of its own
    vv = [v for v in vectors if v["fmt"] == "vcfinfo" and len(v["expected"]) >= 2][:3]
    ctx.absorb(core.pmap_isolated(check_vcf_order, [(o, v) for v in vv for o in (["std", "alt"], ["alt", "std"])]))
    # every VCF buffer class after every other one on a file with the same header, eagerly and lazily, each pair in a process of its own
    pv = [v for v in vectors if v["fmt"] == "vcfphased" and len(v["expected"]) >= 2][:1]
    import itertools
    ctx.absorb(core.pmap_isolated(check_vcf_buffer_order, [([a, b], lz, v) for v in pv for a, b in itertools.permutations(VCF_BUFFERS, 2) for lz in ((False,), (True, False))]))
    ntr = 300 if quick else 3000
    recs = core.pmap(record_trace, [(i, ctx.seed * 100003 + i, ctx.work) for i in range(ntr)], chunk=20)
    bad, acc = validate(ctx, recs)
    for b in bad:
        ctx.disagree(b)
    ctx.count(evaluations=3 * len(recs), traces=acc, nontrivial_keys=["B|%d" % r["tid"] for r in recs])
    ctx.sample({"binding": "B", "fmt": recs[0]["fmt"], "text": bytes(recs[0]["text"]).decode("latin-1")[:200]})
    ctx.exhaustive = True
    return ctx.finish(RULE, assumptions=[
        "a missing optional integer ('.') is represented by the library as 0; both are accepted for a '.' cell",
        "floats are restricted to values with short exact decimal expansions so that equality is exact (accuracy of general floats is C18)",
        "integers stay below 2^31 (TLC integers); 64-bit values are C18's subject; typed VCF INFO and genotype matrices are driven by the VCF part below when present",
    ])


def replay(d):
    print("replay of C02 case:", d.get("what"), d.get("tags"))
    print(d.get("case", {}).get("text"))
    w = os.path.join(core.VERIF, ".work", "replay")
    os.makedirs(w, exist_ok=True)
    if "vector" in d:
        r = check_vector(dict(d["vector"], _id=0, _dir=w))
        same = r["bad"]
    else:
        ctx = core.Ctx("C02", "quick", 0)
        t = d["trace"]
        rec = {"tid": 0, "fmt": t["fmt"], "text": t["text"], "res": read_all(t["fmt"], bytes(t["text"]), ctx.work, "r")}
        same, _ = validate(ctx, [rec])
        import shutil
        shutil.rmtree(ctx.work, ignore_errors=True)
    for b in same[:3]:
        print("  disagrees:", b["what"], b["tags"], "expected", str(b["expected"])[:200], "observed", str(b["observed"])[:300])
    if not same:
        print("  agrees now")
    return 1 if same else 0
