"""C20 — operations do not modify their inputs.

spec/Frame.tla: a heap of content digests; a public call leaves every pre-existing handle unchanged (action
property FrameCondition, model-checked) and its result is a function of the argument contents; only explicit
assignment may change a handle.  Binding B (Trace_C20): a registry of public functions and methods (text/number
conversion, interval arithmetic, sequence functions, encoding changes, genomic-data methods, table methods,
field access on lazily read chunks of every format) is called on generated arguments that take the special
paths (negative numbers, '+' signs, scientific floats, list-valued columns, genotype columns); every call is
recorded as an event (argument digests before/after, result digests of two calls; for file chunks the bytes
they would write before and after their fields were inspected) and TLC decides each event.
"""
import dataclasses
import hashlib
import io
import json
import os
import random

import numpy as np

from .. import core, tablekit as tk
from ..core import outcome

_FLC = []


def _first_letter_code():
    if not _FLC:
        from bionumpy.encodings import BaseEncoding
        from bionumpy.sequence.rollable import RollableFunction

        class FirstLetterCode(RollableFunction):
            _encoding = BaseEncoding
            window_size = 3

            def __call__(self, windows):
                return windows.raw()[..., 0]
        _FLC.append(FirstLetterCode)
    return _FLC[0]()


RULE = ("one case = one call of a registered public function/method on generated arguments (event: digests of arguments before and after, "
        "digests of two results); non-trivial = the call takes a special path (signed or scientific numbers, list-valued or genotype columns, "
        "views, lazily read chunks); distinct by (function, argument digest)")


def digest(x):
    return hashlib.sha1(json.dumps(_content(x), sort_keys=True, default=str).encode()).hexdigest()[:16]


def _encname(e):
    """a stable name of an encoding (the default repr of an object holds its address)"""
    r = str(e)
    return type(e).__name__ if " at 0x" in r else r


def _content(x, depth=0):
    from bionumpy.encoded_array import EncodedArray, EncodedRaggedArray
    from bionumpy.string_array import StringArray
    from npstructures import RaggedArray
    from bionumpy.bnpdataclass.lazybnpdataclass import LazyBNPDataClass
    if depth > 6:
        return "deep"
    if x is None or isinstance(x, (bool, int, float, str)):
        return x
    if isinstance(x, bytes):
        return x.decode("latin-1")
    if isinstance(x, (np.integer, np.floating, np.bool_)):
        return x.item()
    if isinstance(x, np.ndarray):
        return ["nd", str(x.dtype), x.tolist()]
    if isinstance(x, LazyBNPDataClass):
        return ["lazy", bytes(np.asarray(x.get_buffer().raw() if hasattr(x.get_buffer(), "raw") else x.get_buffer()).astype(np.uint8)).decode("latin-1")]
    if isinstance(x, EncodedRaggedArray):
        return ["era", _encname(x.encoding), np.asarray(x.ravel().raw()).tolist(), np.asarray(x.lengths).tolist()]
    if isinstance(x, EncodedArray):
        return ["ea", _encname(x.encoding), np.asarray(x.raw()).tolist()]
    if isinstance(x, StringArray):
        return ["sa", x.tolist()]
    if isinstance(x, RaggedArray):
        return ["ra", np.asarray(x.ravel()).tolist(), np.asarray(x.lengths).tolist()]
    if dataclasses.is_dataclass(x) and not isinstance(x, type):
        return ["dc", type(x).__name__, {f.name: _content(getattr(x, f.name), depth + 1) for f in dataclasses.fields(x)}]
    if isinstance(x, dict):
        return {str(k): _content(v, depth + 1) for k, v in x.items()}
    if isinstance(x, (list, tuple)):
        return [_content(v, depth + 1) for v in x]
    if type(x).__name__.startswith("GenomicSequence") and hasattr(x, "_dict"):
        return ["gseq", {str(k): _content(v, depth + 1) for k, v in x._dict.items()}]
    if hasattr(x, "to_dict") and hasattr(x, "genome_context"):
        return ["ga", {k: _content(np.asarray(v), depth + 1) for k, v in x.to_dict().items()}]
    if hasattr(x, "get_data") and hasattr(x, "genome_context"):
        return ["gi", _content(x.get_data(), depth + 1)]
    if hasattr(x, "to_array"):
        return ["rl", _content(np.asarray(x.to_array()), depth + 1)]
    if hasattr(x, "counts") and hasattr(x, "alphabet"):
        return ["counts", np.asarray(x.counts).tolist()]
    r = repr(x)[:200]
    import re as _re
    return ["repr", _re.sub(r" at 0x[0-9a-f]+", "", r)]


def _registry():
    """name -> (callable(*args), args maker(rng) -> tuple, special?)"""
    import bionumpy as bnp
    from bionumpy.io import strops
    from bionumpy import arithmetics as ar
    from bionumpy.arithmetics.intervals import extend_to_size, clip
    from bionumpy.datatypes import Interval, Bed6, BedGraph, LocationEntry, SequenceEntry
    from bionumpy.sequence import get_kmers, get_minimizers, count_kmers, get_reverse_complement, translate_dna_to_protein
    from bionumpy.sequence.dna import get_strand_specific_sequences
    from bionumpy.sequence.position_weight_matrix import PWM, get_motif_scores
    from bionumpy.encoded_array import change_encoding
    from bionumpy.bnpdataclass import replace
    from bionumpy.encodings.alphabet_encoding import ACGTnEncoding
    from npstructures import RaggedArray
    from bionumpy.genomic_data import GenomicSequence
    from bionumpy.genomic_data.global_offset import GlobalOffset
    from bionumpy.alignments.cigar import count_reference_length
    from bionumpy.encodings.alphabet_encoding import CigarOpEncoding
    from bionumpy.encodings.vcf_encoding import GenotypeRowEncoding, PhasedGenotypeRowEncoding

    def ivs(rng, n=None, disjoint=False):
        n = n if n is not None else rng.randint(1, 6)
        pts = sorted(rng.sample(range(0, 41), 2 * n))
        if disjoint:
            st, en = pts[0::2], pts[1::2]
        else:
            st = sorted(rng.randint(0, 30) for _ in range(n))
            en = [s + rng.randint(1, 9) for s in st]
        return Interval(["chr1"] * n, np.array(st), np.array(en))

    def bed6(rng):
        iv = ivs(rng)
        n = len(iv)
        return Bed6(["chr1"] * n, iv.start, iv.stop, ["n%d" % i for i in range(n)], np.arange(n), [rng.choice("+-") for _ in range(n)])

    def seqs(rng, enc=None):
        rows = ["".join(rng.choice("ACGT") for _ in range(rng.choice([0, 1, 3, 4, 9]))) for _ in range(rng.randint(1, 5))] + ["ACGTAC"]
        return bnp.as_encoded_array(rows, enc or bnp.DNAEncoding)

    def view(rng):
        s = seqs(rng)
        return s[::-1]

    def numtext(rng):
        return bnp.as_encoded_array([rng.choice(["-12", "+7", "007", "0", "123456", "-1", "+0"]) for _ in range(rng.randint(1, 5))])

    def floattext(rng):
        return bnp.as_encoded_array([rng.choice(["1.5", "-2.25", "1e3", "2.5e-2", "-1e-3", "10", "0.125"]) for _ in range(rng.randint(1, 5))])

    g = bnp.Genome.from_dict({"chr1": 50, "chr2": 30})
    pwm = PWM(np.array([[1.0, 2.0], [3.0, 4.0], [5.0, 6.0], [7.0, 8.0]]), "ACGT")
    R = {
        "str_to_int": (strops.str_to_int, lambda r: (numtext(r),), True),
        # the same text presented as lazily indexed views (reversed rows, picked rows, masked rows, a slice of a slice)
        "str_to_int[reversed view]": (strops.str_to_int, lambda r: (numtext(r)[::-1],), True),
        "str_to_int[picked rows]": (strops.str_to_int, lambda r: ((lambda t: t[[len(t) - 1, 0]])(numtext(r)),), True),
        "str_to_int[masked rows]": (strops.str_to_int, lambda r: ((lambda t: t[np.arange(len(t)) % 2 == 0])(numtext(r)),), True),
        "str_to_int[slice of slice]": (strops.str_to_int, lambda r: ((lambda t: t[::-1][:2])(numtext(r)),), True),
        "str_to_float[reversed view]": (strops.str_to_float, lambda r: (floattext(r)[::-1],), True),
        "str_to_float[picked rows]": (strops.str_to_float, lambda r: ((lambda t: t[[len(t) - 1, 0]])(floattext(r)),), True),
        "str_to_int_with_missing": (strops.str_to_int_with_missing, lambda r: (bnp.as_encoded_array(["-3", "", "+4"]),), True),
        "str_to_float": (strops.str_to_float, lambda r: (floattext(r),), True),
        "ints_to_strings": (strops.ints_to_strings, lambda r: (np.array([r.randint(-10 ** 6, 10 ** 6) for _ in range(4)]),), True),
        "int_lists_to_strings": (strops.int_lists_to_strings, lambda r: (RaggedArray([[1, -2, 30], [], [r.randint(-99, 99)]]),), True),
        "float_to_strings": (strops.float_to_strings, lambda r: (np.array([1.5, -2.25e-3, r.random()]),), True),
        "split": (strops.split, lambda r: (bnp.as_encoded_array("1,-2,+3,44"), ","), True),
        "join": (strops.join, lambda r: (bnp.as_encoded_array(["a", "", "bcd"]), ","), False),
        "str_equal": (strops.str_equal, lambda r: (bnp.as_encoded_array(["chr1", "chr11", "chr1"]), "chr1"), False),
        "get_pileup": (ar.get_pileup, lambda r: (ivs(r), 50), False),
        "get_boolean_mask": (ar.get_boolean_mask, lambda r: (ivs(r), 50), False),
        "merge_intervals": (ar.merge_intervals, lambda r: (ivs(r), r.randint(0, 3)), True),
        "sort_intervals": (ar.sort_intervals, lambda r: (ivs(r)[::-1],), False),
        "count_overlap": (ar.count_overlap, lambda r: (ivs(r, disjoint=True), ivs(r, disjoint=True)), False),
        "intersect": (ar.intersect, lambda r: (ivs(r, 3, True), ivs(r, 2, True)), False),
        "unique_intersect": (ar.unique_intersect, lambda r: (ivs(r), ivs(r, disjoint=True), 50), False),
        "jaccard": (ar.jaccard, lambda r: ({"chr1": 50}, ivs(r, 3, True), ivs(r, 2, True)), False),
        "extend_to_size": (extend_to_size, lambda r: (bed6(r), r.randint(1, 8), 50), False),
        "clip": (clip, lambda r: (ivs(r), 20), False),
        # coordinates on the concatenated genome, with the rarely used clipping option and stops sticking out of the contig (size 20, starts below 20)
        "GlobalOffset.from_local_interval[do_clip]": (lambda t: GlobalOffset({"chr1": 20, "chr2": 30}).from_local_interval(t, do_clip=True),
                                                      lambda r: ((lambda iv: Interval(iv.chromosome, np.minimum(iv.start, 19), iv.stop + 12))(ivs(r)),), False),
        "GlobalOffset.start_ends_from_intervals[do_clip]": (lambda t: GlobalOffset({"chr1": 20, "chr2": 30}).start_ends_from_intervals(t, do_clip=True),
                                                            lambda r: ((lambda iv: Interval(iv.chromosome, np.minimum(iv.start, 19), iv.stop + 12))(ivs(r)),), False),
        # reference length of CIGAR strings that hold operations which do not consume the reference (I, S): the lengths given stay as they are
        "count_reference_length": (count_reference_length, lambda r: (lambda k_: (bnp.as_encoded_array(["MIS", "SMDM", "M"][:k_], CigarOpEncoding),
                                                                                   RaggedArray([[5, 2, 3], [4, 10, 1, 7], [9]][:k_])))(r.randint(1, 3)), False),
        # a user-defined function rolled over the sequences with mode="same" (the tail of every row is zeroed in the RESULT, never in the argument)
        "RollableFunction.rolling_window[same]": (lambda sq: _first_letter_code().rolling_window(sq, mode="same"), lambda r: (bnp.as_encoded_array(["acgtacgt", "ggtca", "ttt"][:r.randint(1, 3)]),), False),
        # genotype columns as text rows ending in a newline, encoded to genotype codes
        "GenotypeRowEncoding.encode": (lambda t: GenotypeRowEncoding.encode(t), lambda r: (bnp.as_encoded_array(["0|1\t1|1\n", "1/1\t0/0\n", ".|.\t0|1\n"][:r.randint(1, 3)]),), False),
        "PhasedGenotypeRowEncoding.encode": (lambda t: PhasedGenotypeRowEncoding.encode(t), lambda r: (bnp.as_encoded_array(["0|1\t1|1\n", "1|1\t0|0\n"][:r.randint(1, 2)]),), False),
        # several separators at once: the text that is split keeps all of them
        "split[two separators]": (lambda t: strops.split(t, [";", "="]), lambda r: (bnp.as_encoded_array(["a=1;b=22;c", "k=v"][r.randint(0, 1)] + ";x=y").copy(),), False),
        "get_kmers": (get_kmers, lambda r: (seqs(r), r.randint(1, 3)), False),
        "get_kmers(view)": (get_kmers, lambda r: (view(r), 2), True),
        "get_minimizers": (get_minimizers, lambda r: (seqs(r), 2, 3), False),
        "count_kmers": (count_kmers, lambda r: (seqs(r), 2), False),
        "get_motif_scores": (get_motif_scores, lambda r: (seqs(r), pwm), False),
        "match_string": (bnp.match_string, lambda r: (seqs(r), bnp.as_encoded_array("AC", bnp.DNAEncoding)), False),
        "get_reverse_complement": (get_reverse_complement, lambda r: (seqs(r),), False),
        "get_reverse_complement(ascii view)": (get_reverse_complement, lambda r: (bnp.as_encoded_array(["acgtn", "AC", ""])[::-1],), True),
        "get_strand_specific_sequences": (get_strand_specific_sequences, lambda r: (bnp.as_encoded_array("ACGTACGTAC" * 5, bnp.DNAEncoding), bed6(r)), False),
        "translate": (translate_dna_to_protein, lambda r: (SequenceEntry(["a", "b"], ["ATGTAA", "TTTTTCTGA"]),), False),
        "change_encoding": (change_encoding, lambda r: (seqs(r), ACGTnEncoding), False),
        "change_encoding(view)": (change_encoding, lambda r: (view(r), ACGTnEncoding), True),
        "as_encoded_array(retarget)": (bnp.as_encoded_array, lambda r: (seqs(r), bnp.DNAEncoding), False),
        "np.concatenate(tables)": (lambda a, b: np.concatenate([a, b]), lambda r: (ivs(r), ivs(r)), False),
        "table[mask]": (lambda t: t[np.arange(len(t)) % 2 == 0], lambda r: (bed6(r),), False),
        "table.sort_by": (lambda t: t.sort_by("stop"), lambda r: (bed6(r),), False),
        "replace": (lambda t: replace(t, start=t.start + 1), lambda r: (ivs(r),), False),
        "table.tolist": (lambda t: [dataclasses.astuple(e) for e in t.tolist()], lambda r: (bed6(r),), False),
        "table.topandas": (lambda t: t.topandas().to_dict("list"), lambda r: (bed6(r),), False),
        "Genome.get_intervals.get_mask": (lambda t: g.get_intervals(t).get_mask(), lambda r: (ivs(r),), False),
        "Genome.get_intervals.get_pileup": (lambda t: g.get_intervals(t).get_pileup(), lambda r: (ivs(r),), False),
        "GenomicIntervals.merged": (lambda t: g.get_intervals(t).sorted().merged(1).get_data(), lambda r: (ivs(r),), False),
        "GenomicIntervals.extended_to_size": (lambda t: g.get_intervals(t, stranded=True).extended_to_size(5).get_data(), lambda r: (bed6(r),), False),
        "Genome.get_track+1": (lambda t: g.get_track(t) + 1, lambda r: (BedGraph(["chr1", "chr2"], np.array([0, 3]), np.array([5, 9]), np.array([1.5, -2.0])),), True),
        # a sequence held in memory, asked for one interval on the minus strand / for several stranded intervals
        "GenomicSequence.extract_intervals[one minus interval]": (
            lambda gs, iv: gs.extract_intervals(iv, stranded=True).tolist(),
            lambda r: (GenomicSequence.from_dict({"chr1": "ACGTTGCAAGTCCGTA", "chr2": "GGGTTTACAAC"}),
                       Bed6(["chr1"], np.array([r.randint(0, 5)]), np.array([r.randint(8, 15)]), ["x"], np.array([0]), ["-"])), True),
        "GenomicSequence.extract_intervals[stranded]": (
            lambda gs, iv: gs.extract_intervals(iv, stranded=True).tolist(),
            lambda r: (GenomicSequence.from_dict({"chr1": "ACGTTGCAAGTCCGTA", "chr2": "GGGTTTACAAC"}),
                       Bed6(["chr1", "chr2"], np.array([r.randint(0, 5), 1]), np.array([r.randint(8, 15), 9]), ["x", "y"], np.array([0, 0]), ["-", "+"])), True),
        "GenomicArray[intervals]": (lambda a, t: [np.asarray(x.to_array()).tolist() for x in a[g.get_intervals(t)]],
                                    lambda r: (g.get_track(BedGraph(["chr1"], np.array([0]), np.array([45]), np.array([2]))), ivs(r)), False),
        "get_windows": (lambda t: g.get_locations(t).get_windows(flank=2).get_data(), lambda r: (LocationEntry(["chr1", "chr2"], np.array([1, 28])),), False),
    }
    # ---- more of the public surface, with arguments that are ALREADY in the encoding the callee works in (as_encoded_array then hands the
    # caller's own object on, so an in-place step inside the callee would write into the caller's data), as ragged and as 2-D arrays
    from bionumpy.variants.mutation_signature import encode_snps, MutationTypeEncoding
    from bionumpy.variants.consensus import apply_variants, apply_variants_to_sequence
    from bionumpy.sequence.string_matcher import RegexMatcher
    from bionumpy.sequence.indexing.kmer_indexing import KmerIndex
    from bionumpy.sequence.count_encoded import count_encoded
    from bionumpy.datatypes import Variant
    from bionumpy.io.matrix_dump import matrix_to_csv, parse_matrix
    from bionumpy.io.dump_csv import dump_csv
    from bionumpy.string_array import as_string_array, string_array
    from bionumpy.arithmetics import forbes
    from bionumpy.arithmetics.intervals import global_intersect

    def kmers3(rng, two_d):
        rows = ["".join(rng.choice("ACGT") for _ in range(3)) for _ in range(rng.randint(2, 5))] + ["AAG", "TGC", "CCA", "GTT"]
        a = bnp.as_encoded_array(rows, bnp.DNAEncoding)
        return a.ravel().reshape(len(rows), 3) if two_d else a

    def alts(k):
        # an alternative base that differs from the middle base of every k-mer
        mid = k[:, 1] if not hasattr(k, "lengths") else k.ravel().reshape(len(k), 3)[:, 1]
        return bnp.as_encoded_array("".join("ACGT"[("ACGT".index(c) + 1) % 4] for c in mid.to_string()), bnp.DNAEncoding)
    variants = lambda: Variant(["c1", "c1", "c2"], np.array([1, 4, 0]), ["C", "A", "G"], ["T", "G", "A"])
    R.update({
        # arguments held in ANOTHER, compatible alphabet than the one the callee presents them to (ragged and flat)
        "as_encoded_array(retarget ragged ACGTN -> ACGT)": (bnp.as_encoded_array, lambda r: (seqs(r, ACGTnEncoding), bnp.DNAEncoding), True),
        "as_encoded_array(retarget flat ACGTN -> ACGT)": (bnp.as_encoded_array, lambda r: (seqs(r, ACGTnEncoding).ravel(), bnp.DNAEncoding), True),
        "match_string(pattern in another alphabet)": (bnp.match_string, lambda r: (seqs(r), bnp.as_encoded_array("AC", ACGTnEncoding)), True),
        "ragged == ragged in another alphabet": (lambda a, b: a == b, lambda r: (lambda x: (bnp.as_encoded_array(x.tolist(), bnp.DNAEncoding), x))(seqs(r, ACGTnEncoding)), True),
        "count_kmers(ACGTN-encoded without N)": (count_kmers, lambda r: (seqs(r, ACGTnEncoding), 2), True),
        "encode_snps[DNA-encoded 2-D k-mers]": (encode_snps, lambda r: (lambda k: (k, alts(k)))(kmers3(r, True)), True),
        "encode_snps[DNA-encoded ragged k-mers]": (encode_snps, lambda r: (lambda k: (k, alts(k)))(kmers3(r, False)), True),
        "MutationTypeEncoding.from_flanked_snp": (lambda k, a: MutationTypeEncoding(1).from_flanked_snp(k, a), lambda r: (lambda k: (k, alts(k)))(kmers3(r, True)), True),
        "apply_variants_to_sequence": (apply_variants_to_sequence, lambda r: (bnp.as_encoded_array("ACGTAC", bnp.DNAEncoding), variants()[:2]), True),
        "apply_variants": (apply_variants, lambda r: (SequenceEntry(["c1", "c2"], ["ACGTAC", "GGTT"]), variants()), True),
        "RegexMatcher.rolling_window": (lambda sq: RegexMatcher("A.{0,1}[CG]", encoding=bnp.DNAEncoding).rolling_window(sq, mode="same"), lambda r: (seqs(r),), True),
        "PWM.calculate_scores": (lambda sq: pwm.calculate_scores(sq), lambda r: (bnp.as_encoded_array("ACGTTGCA" + "".join(r.choice("ACGT") for _ in range(4)), bnp.DNAEncoding),), True),
        "KmerIndex.create_index": (lambda sq: sorted((int(k), [int(x) for x in v]) for k, v in KmerIndex.create_index(sq, 2)._lookup.items()),
                                   lambda r: (bnp.as_encoded_array(["ACGT", "CGA", "TTAC"], bnp.DNAEncoding),), True),
        "count_encoded": (lambda sq: count_encoded(sq).counts, lambda r: (seqs(r).ravel(),), True),
        "count_encoded(axis=-1)": (lambda sq: count_encoded(sq, axis=-1).counts, lambda r: (seqs(r),), True),
        "get_kmers[2-D]": (get_kmers, lambda r: (kmers3(r, True), 2), True),
        "get_reverse_complement[2-D]": (get_reverse_complement, lambda r: (kmers3(r, True),), True),
        "matrix_to_csv": (matrix_to_csv, lambda r: (np.array([[1, -20], [300, r.randint(0, 9)]]), ["a", "bb"]), True),
        "parse_matrix": (lambda t: (lambda m: (m.data, m.col_names.tolist()))(parse_matrix(t, field_type=int, rowname_type=None)), lambda r: ("a,bb\n1,-20\n300,%d\n" % r.randint(0, 9),), True),
        "dump_csv": (dump_csv, lambda r: ([(int, np.array([5, -60, r.randint(0, 99)])), (str, bnp.as_encoded_array(["x", "yy", ""]))],), True),
        "string_array": (string_array, lambda r: (seqs(r),), True),
        "as_string_array": (as_string_array, lambda r: (["chr1", "c", "chr%d" % r.randint(2, 30)],), True),
        "StringArray == text": (lambda a: (a == "chr1"), lambda r: (as_string_array(["chr1", "c", "chr1"]),), True),
        "forbes": (forbes, lambda r: ({"chr1": 50}, ivs(r, 3, True), ivs(r, 2, True)), True),
        "global_intersect": (global_intersect, lambda r: (ivs(r, 3, True), ivs(r, 2, True)), True),
        "np.sort(encoded)": (lambda a: np.sort(a.raw()), lambda r: (seqs(r).ravel(),), True),
        "np.argsort(encoded)": (np.argsort, lambda r: (seqs(r).ravel(),), True),
        "np.bincount(encoded)": (np.bincount, lambda r: (seqs(r).ravel(),), True),
        "GenomicIntervals.clip": (lambda t: g.get_intervals(t).clip().get_data(), lambda r: (ivs(r),), True),
        "GenomicIntervals.get_location": (lambda t: g.get_intervals(t, stranded=True).get_location("start").get_data(), lambda r: (bed6(r),), True),
        "GenomicIntervals.sorted": (lambda t: g.get_intervals(t).sorted().get_data(), lambda r: (ivs(r)[::-1],), True),
        "Genome.get_track.get_data": (lambda t: g.get_track(t).get_data(), lambda r: (BedGraph(["chr1", "chr2"], np.array([0, 3]), np.array([5, 9]), np.array([1.5, -2.0])),), True),
        "Genome.get_track[gap-free].sum": (lambda t: g.get_track(t).sum(), lambda r: (BedGraph(["chr1", "chr1", "chr2"], np.array([0, 20, 0]), np.array([20, 50, 30]), np.array([1.5, r.random(), -2.0])),), True),
    })
    return R


# ---- lazily read chunks of every format: inspecting / parsing fields does not change the bytes the chunk writes
CHUNK_SOURCES = {
    "bed6": ("noncanon",), "bed3": ("noncanon", "crlf"), "narrowpeak": ("noncanon",), "vcf": ("noncanon",), "sam": ("noncanon", "crlf"),
    "bedgraph": ("noncanon",), "fastq": ("noncanon",), "fasta2": ("noncanon",),
}
BED12 = ("c1\t0\t100\tn\t5\t+\t10\t90\t0,0,255\t2\t10,20,\t0,50,\n"
         "c2\t5\t300\tm\t0\t-\t5\t200\t255,0,0\t3\t1,2,3\t0,10,100\n")
VCFGT = ("##fileformat=VCFv4.2\n##FORMAT=<ID=GT,Number=1,Type=String,Description=\"g\">\n#CHROM\tPOS\tID\tREF\tALT\tQUAL\tFILTER\tINFO\tFORMAT\ts1\ts2\n"
         "chr1\t8\trs1\tA\tC\t.\tPASS\t.\tGT\t0|1\t1|1\nchr2\t1006\t.\tAT\tG\t30\t.\tDP=3\tGT\t0/0\t1|0\n")
SIGNED = "chr1\t-5\t+10\tn1\t-7\t+\nchr2\t+3\t007\tn2\t1e3\t-\n"


_ONLYLIST = []


def _chunk_events(rng):
    """events for lazily read chunks: bytes written before vs after touching every field (twice), and after derived operations"""
    import bionumpy as bnp
    from bionumpy.io.delimited_buffers import Bed12Buffer, Bed6Buffer
    from bionumpy.io.vcf_buffers import VCFBuffer2
    from bionumpy.bnpdataclass import replace
    from bionumpy.io.parser import NumpyFileReader
    from bionumpy.io.npdataclassreader import NpDataclassReader
    events = []

    def chunk_of(fmt, variant):
        return tk.open_table(fmt, tk.source_bytes(fmt, variant)[0], True).read(), tk.buffer_class(fmt)

    def raw_chunk(text, buf):
        return NpDataclassReader(NumpyFileReader(io.BytesIO(text.encode()), buf), lazy=True).read(), buf

    sources = [("%s/%s" % (f, v), (lambda f=f, v=v: chunk_of(f, v))) for f, vs in CHUNK_SOURCES.items() for v in vs]
    # a user-defined table whose only column is a list of integers, in a file without a final newline and read in one or several raw reads
    from bionumpy.io.delimited_buffers import get_bufferclass_for_datatype
    if not _ONLYLIST:
        from bionumpy.bnpdataclass import bnpdataclass
        from typing import List

        @bnpdataclass
        class OnlyList:
            values: List[int]
        _ONLYLIST.append(get_bufferclass_for_datatype(OnlyList, delimiter="\t"))
    sources += [("custom/list-only-no-final-newline", lambda: raw_chunk("1,2,3\n40,5\n6", _ONLYLIST[0])),
                ("custom/list-only", lambda: raw_chunk("1,2,3\n40,5\n6\n", _ONLYLIST[0]))]
    sources += [("bed12/list-columns", lambda: raw_chunk(BED12, Bed12Buffer)), ("vcf/genotypes", lambda: raw_chunk(VCFGT, VCFBuffer2)),
                ("bed6/signed-scientific", lambda: raw_chunk(SIGNED, Bed6Buffer))]
    for name, make in sources:
        o = outcome(make)
        if o[0] == "err":
            # the sources are valid files: if one cannot be read nothing below would be compared (and nobody would notice)
            raise core.MachineryFailure("C20 chunk source %s cannot be read: %s" % (name, o[1][:200]))
        chunk, buf = o[1]

        def written(c):
            f = io.BytesIO()
            f.mode = "ab"
            from bionumpy.io.parser import NpBufferedWriter
            NpBufferedWriter(f, buf).write(c)
            return f.getvalue().decode("latin-1")
        before = outcome(written, chunk)
        fields = [f.name for f in dataclasses.fields(chunk)]
        rng.shuffle(fields)
        vals1, vals2 = [], []
        for nm in fields:                       # parse every field, in a random order
            vals1.append(outcome(lambda: digest(getattr(chunk, nm)))[1])
        sub = outcome(lambda: chunk[1:])        # derive a selection and write it: must not disturb the parent
        if sub[0] == "ok":
            outcome(written, sub[1])
        for nm in fields:
            vals2.append(outcome(lambda: digest(getattr(chunk, nm)))[1])
        after = outcome(written, chunk)
        events.append({"f": "fields-of-chunk:" + name, "before": str(before), "after": str(after), "res1": str(vals1), "res2": str(vals2), "special": True})
        # a modified write (one column replaced by itself) of a chunk whose fields were all inspected must equal the modified
        # write of a freshly read chunk that was never inspected
        first = [f for f in dataclasses.fields(chunk)][0].name

        def modwrite(c):
            col = getattr(c, first)
            return written(replace(c, **{first: col}))
        fresh = outcome(make)
        m0 = outcome(modwrite, fresh[1][0]) if fresh[0] == "ok" else fresh
        m1 = outcome(modwrite, chunk)
        events.append({"f": "modified-write:" + name, "before": str(before), "after": str(outcome(written, chunk)), "res1": str(m0), "res2": str(m1), "special": True})
        # a second table over the same buffer (one column replaced by itself): its fields, parsed twice, are the chunk's fields, and parsing
        # them leaves the chunk's own fields as they were
        pc = outcome(make)
        if pc[0] == "ok":
            c2 = pc[1][0]
            f0 = [f.name for f in dataclasses.fields(c2)]
            own1 = [outcome(lambda nm=nm: digest(getattr(c2, nm)))[1] for nm in f0]
            rp = outcome(lambda: replace(c2, **{f0[-1]: getattr(c2, f0[-1])}))
            if rp[0] == "ok":
                d1 = [outcome(lambda nm=nm: digest(getattr(rp[1], nm)))[1] for nm in f0]
                rp2 = outcome(lambda: replace(c2, **{f0[0]: getattr(c2, f0[0])}))
                d2 = [outcome(lambda nm=nm: digest(getattr(rp2[1], nm)))[1] for nm in f0] if rp2[0] == "ok" else d1
                own2 = [outcome(lambda nm=nm: digest(getattr(c2, nm)))[1] for nm in f0]
                events.append({"f": "fields-of-derived-tables:" + name, "before": str(own1), "after": str(own2), "res1": str(d1), "res2": str(d2), "special": True})
        # np.concatenate of a chunk with one replaced column and an untouched chunk: the untouched operand still writes its own bytes
        for nm in fields:
            pa, pb = outcome(make), outcome(make)
            if pa[0] != "ok" or pb[0] != "ok":
                continue
            a_, b_ = pa[1][0], pb[1][0]
            ra = outcome(lambda: replace(a_, **{nm: getattr(a_, nm)}))
            if ra[0] != "ok":
                continue
            j1 = outcome(lambda: written(np.concatenate([ra[1], b_])))
            mid_b = outcome(written, b_)
            j2 = outcome(lambda: written(np.concatenate([ra[1], b_])))
            events.append({"f": "concatenate-replaced-with-untouched:%s:%s" % (name, nm), "before": str(before), "after": str(outcome(written, b_) if mid_b == before else mid_b),
                           "res1": str(j1), "res2": str(j2), "special": True})
    return events


def make_events(job):
    seed, names = job
    rng = random.Random(seed)
    reg = _registry()
    events = []
    for name in names:
        if name == "__chunks__":
            events += _chunk_events(rng)
            continue
        fn, mk, special = reg[name]
        sub = rng.randrange(1 << 30)
        a = outcome(mk, random.Random(sub))
        if a[0] == "err":
            continue
        args = a[1]
        before = [digest(x) for x in args]
        r1 = outcome(lambda: digest(fn(*args)))
        mid = [digest(x) for x in args]
        r2 = outcome(lambda: digest(fn(*args)))
        after = [digest(x) for x in args]
        events.append({"f": name, "before": str(before), "after": str(after if after != before else mid), "res1": str(r1), "res2": str(r2),
                       "special": special, "args": repr(_content(args))[:300]})
        # the same call on arguments nobody has looked at yet (looking at a lazily indexed view materialises it, which would hide a callee
        # that writes through it): the content before the call is that of an identical twin built from the same recipe
        a2, tw = outcome(mk, random.Random(sub)), outcome(mk, random.Random(sub))
        if a2[0] == "ok" and tw[0] == "ok":
            fresh, twin = a2[1], tw[1]
            before2 = [digest(x) for x in twin]
            q1 = outcome(lambda: digest(fn(*fresh)))
            mid2 = [digest(x) for x in fresh]
            q2 = outcome(lambda: digest(fn(*fresh)))
            after2 = [digest(x) for x in fresh]
            if before2 == before:       # the recipe is deterministic
                events.append({"f": name + "#untouched", "before": str(before2), "after": str(after2 if after2 != before2 else mid2), "res1": str(q1), "res2": str(q2),
                               "special": special, "args": repr(_content(twin))[:300]})
    return events


def run(ctx):
    import os
    quick = ctx.tier == "quick"
    res = ctx.tlc("MC_C20", spec="Spec", constants={"Handles": ["h1", "h2"], "Digests": [0, 1], "Funcs": ["f", "g"]},
                  properties=["FrameCondition"], constraints=["Bound"])
    names = sorted(_registry())
    rounds = 6 if quick else 60
    jobs = [(ctx.seed * 1000 + i, names) for i in range(rounds)] + [(ctx.seed * 1000 + 500 + i, ["__chunks__"]) for i in range(2 if quick else 8)]
    all_events = [e for evs in core.pmap(make_events, jobs, chunk=1) for e in evs]
    for i, e in enumerate(all_events):
        e["tid"] = i
    path = os.path.join(ctx.work, "c20.json")
    with open(path, "w") as f:
        json.dump([{k: e[k] for k in ("tid", "before", "after", "res1", "res2")} for e in all_events], f)
    r = ctx.tlc("Trace_C20", workers=1, env={"TRACE_FILE": path}, init="Init", next_="Next", postcondition="Post")
    rej, acc = {}, None
    for line in r.printed:
        parts = [p.strip().strip('"') for p in line.strip("<>").split(",", 2)]
        if parts[0] == "REJECT":
            rej[int(parts[1])] = parts[2]
        elif parts[0] == "ACCEPTED":
            acc = int(parts[1])
    if acc is None or acc + len(rej) != len(all_events):
        raise core.MachineryFailure("Trace_C20 bookkeeping mismatch")
    for tid, clause in rej.items():
        e = all_events[tid]
        ctx.disagree({"what": "%s: %s" % (e["f"], clause), "tags": {"function": e["f"], "clause": clause},
                      "event": e, "expected": "arguments unchanged and equal results", "observed": {k: e[k][:200] for k in ("before", "after", "res1", "res2")}})
    ctx.count(evaluations=2 * len(all_events), traces=len(all_events),
              nontrivial_keys=["%s|%s" % (e["f"], e["before"]) for e in all_events if e.get("special")])
    called = sorted({e["f"] for e in all_events})
    errs = sorted({e["f"] for e in all_events if e["res1"].startswith("('err'")})
    ctx.notes.append("functions called: %d; raising on the unchanged tree (still checked for argument changes): %s" % (len(called), errs))
    ctx.sample({k: all_events[0][k] for k in ("f", "args", "before", "after", "res1", "res2")})
    ctx.sample({k: all_events[-1][k] for k in ("f", "before", "res1")})
    ctx.exhaustive = False
    return ctx.finish(RULE, assumptions=[
        "contents are compared through digests of decoded content (values, encodings, row lengths; written bytes for lazily read chunks), not identity",
        "a function that raises is still checked for not having changed its arguments; two raises with the same message count as equal results",
    ])


def replay(d):
    print("replay of C20 case:", d.get("what"), d.get("tags"))
    e = d["event"]
    print("  recorded:", {k: e[k][:160] for k in ("f", "before", "after", "res1", "res2")})
    # re-run the same function with fresh generated arguments over a few seeds
    reg = _registry()
    name = e["f"]
    bad = 0
    if name in reg:
        for s in range(20):
            evs = make_events((s, [name]))
            bad += sum(1 for x in evs if x["before"] != x["after"] or x["res1"] != x["res2"])
    else:
        evs = make_events((0, ["__chunks__"]))
        bad += sum(1 for x in evs if x["f"] == name and (x["before"] != x["after"] or x["res1"] != x["res2"]))
    print("  still failing on re-run:", bad)
    return 1 if bad else 0
