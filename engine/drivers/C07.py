"""C07 — encoded arrays behave like NumPy arrays of characters.

spec/CharArray.tla: a pool of arrays whose meaning is the Python list of strings; operations create arrays
from arrays (row slices/steps/reversal/mask/fancy/empty selection, column slices, concatenate, copy), observe
(integer row and column indexing, comparison with a character, ravel) or assign (row, masked).  TLC explores
every program to a depth from every small ragged list and checks AssignLocal (an assignment changes one array
only: copies are independent).  Every program is replayed on EncodedRaggedArrays of four encodings and after
the last step the WHOLE pool is compared (contents and encoding).
"""
import hashlib
import json

import numpy as np

from .. import core
from ..core import outcome

RULE = ("one case = (program of array operations from a small ragged list = TLC state of MC_C07, encoding) replayed on real encoded arrays; "
        "non-trivial = the program has a selection or assignment acting on the result of an earlier selection/copy; distinct by (program, encoding)")
ALL_OPS = ["rows", "cols", "concat", "concat1", "copy", "row", "col", "eq", "streq", "streq2", "rslice", "decode", "ravel", "setrow", "setmask"]


_BRACKETS = []


def _encodings():
    import bionumpy as bnp
    from bionumpy.encodings.alphabet_encoding import ACGTnEncoding, AminoAcidEncoding
    # "ascii-wide": ASCII text whose codes are held in a 64-bit integer array (EncodedArray(np.array([ord(c) ...]), BaseEncoding), the
    # construction the class docstring shows), not in bytes
    if not _BRACKETS:
        from bionumpy.encodings.alphabet_encoding import AlphabetEncoding
        _BRACKETS.append(AlphabetEncoding("()[]{}"))      # a user-defined alphabet of symbols: '[' and '{' lie 32 apart like a letter and its lower case
    return [("ascii", None, "xy"), ("ascii-wide", "wide", "xy"), ("DNA", bnp.DNAEncoding, "AG"), ("DNA2", bnp.DNAEncoding, "TC"), ("ACGTN", ACGTnEncoding, "NA"), ("amino", AminoAcidEncoding, "W*"),
            ("brackets", _BRACKETS[0], "{[")]


def _create(texts, enc):
    """ragged array of the texts in the given encoding (None = ASCII as as_encoded_array makes it; "wide" = ASCII codes in an int64 array)"""
    import bionumpy as bnp
    from bionumpy.encoded_array import EncodedArray, EncodedRaggedArray, BaseEncoding
    if enc == "wide":
        codes = np.array([ord(c) for t in texts for c in t], dtype=np.int64)
        return EncodedRaggedArray(EncodedArray(codes, BaseEncoding), [len(t) for t in texts])
    if not texts:
        return bnp.as_encoded_array([""], enc)[:0] if enc is not None else bnp.as_encoded_array([""])[:0]
    return bnp.as_encoded_array(list(texts), enc) if enc is not None else bnp.as_encoded_array(list(texts))


def _row_index(kind, n):
    if kind == "1:":
        return slice(1, None)
    if kind == "::2":
        return slice(None, None, 2)
    if kind == "::-1":
        return slice(None, None, -1)
    if kind == "mask":
        return np.array([j % 2 == 1 for j in range(n)], dtype=bool)
    if kind == "listmask":
        return [j % 2 == 1 for j in range(n)]          # the same mask as a plain Python list
    if kind == "fancy":
        return [-1, 0, 0] if n else []
    if kind == "0:0":
        return slice(0, 0)
    raise ValueError(kind)


def _col_index(kind):
    return {"1:": slice(1, None), "::-1": slice(None, None, -1), ":-1": slice(None, -1), "0:1": slice(0, 1)}[kind]


def check_matrix_vector(v):
    """A program of CharArray.tla with Matrix = TRUE on 2-D encoded arrays (a flat encoded array reshaped to rows x columns)."""
    import bionumpy as bnp
    prog, obs, pool_exp = v["prog"], v["obs"], v["pool"]
    bad, n = [], 0
    for ename, enc, letters in _encodings()[:4]:
        txt = lambda row: "".join(letters[c] for c in row)
        rows0 = prog[0]["start"]
        w = len(rows0[0])
        if enc == "wide":
            from bionumpy.encoded_array import EncodedArray, BaseEncoding
            flat = EncodedArray(np.array([ord(c) for r in rows0 for c in txt(r)], dtype=np.int64), BaseEncoding)
        else:
            flat = bnp.as_encoded_array("".join(txt(r) for r in rows0), enc) if enc is not None else bnp.as_encoded_array("".join(txt(r) for r in rows0))
        pool = [flat.reshape(len(rows0), w)]
        last, failed = ("ok", None), None
        for step, op in enumerate(prog[1:]):
            name = op["op"]
            t = pool[op["t"] - 1]

            def do():
                if name == "rows":
                    pool.append(t[_row_index(op["sel"], len(t))])
                elif name == "cols":
                    ncol = t.shape[1]
                    idx = {"cfancy": [-1, 0], "cmask": np.array([j % 2 == 0 for j in range(ncol)], dtype=bool)}.get(op["sel"])
                    pool.append(t[:, idx if idx is not None else _col_index(op["sel"])])
                elif name == "copy":
                    pool.append(t.copy())
                elif name == "concat1":
                    pool.append(np.concatenate([t]))
                elif name == "row":
                    return t[0 if op["r"] == 1 else -1].to_string()
                elif name == "col":
                    return t[:, 0 if op["c"] == 1 else -1].to_string()
                elif name == "eq":
                    return [[bool(x) for x in row] for row in np.asarray(t == letters[op["x"]]).tolist()]
                elif name == "ravel":
                    return t.ravel().to_string()
                elif name == "setrow":
                    val = letters[op["x"]] * t.shape[1]
                    t[0] = val if op["form"] == "str" else bnp.as_encoded_array(val)
                elif name == "setmask":
                    val = letters[op["y"]]
                    t[t == letters[op["x"]]] = val if op["form"] == "str" else bnp.as_encoded_array(val)
                else:
                    raise ValueError(name)
                return None
            last = outcome(do)
            n += 1
            if last[0] == "err":
                failed = step
                break
        tags = {"encoding": ename, "op": prog[-1]["op"], "ops": "-".join(p["op"] for p in prog[1:]), "matrix": True}
        case = {"prog": prog, "start": [txt(r) for r in rows0], "encoding": ename}
        if failed is not None:
            if prog[failed + 1]["op"] in ("setrow", "setmask") and "read-only" in str(last[1]):
                continue        # a base-encoded array made from a Python str borrows the (immutable) bytes of the string: not assignable, by NumPy's rules
            if failed == len(prog) - 2 and not (prog[-1]["op"] in ("row", "col") and not pool_exp[prog[-1]["t"] - 1]):
                bad.append({"what": "operation %s on a character matrix raised" % prog[-1]["op"], "tags": dict(tags, kind="raises"), "vector": v, "case": case,
                            "expected": "a value", "observed": last[1]})
            continue
        if obs["kind"] == "str" and last[1] != txt(obs["val"]):
            bad.append({"what": "%s of a character matrix returns something else than the list of strings gives" % prog[-1]["op"], "tags": dict(tags, kind="value"),
                        "vector": v, "case": case, "expected": txt(obs["val"]), "observed": last[1]})
        elif obs["kind"] == "bools" and last[1] != obs["val"]:
            bad.append({"what": "comparison of a character matrix with a character differs", "tags": dict(tags, kind="value"), "vector": v, "case": case,
                        "expected": obs["val"], "observed": last[1]})
        for k, (arr, exp) in enumerate(zip(pool, pool_exp)):
            o = outcome(lambda: [row.to_string() for row in arr])
            n += 1
            want = [txt(r) for r in exp]
            if o != ("ok", want):
                bad.append({"what": "matrix %d of the pool does not hold the model's rows after %s" % (k + 1, prog[-1]["op"]),
                            "tags": dict(tags, kind="pool", which=("result" if k == len(pool) - 1 else "earlier-array")), "vector": v, "case": case,
                            "expected": want, "observed": o})
    return {"n": n, "nt": [json.dumps(["matrix", prog])], "bad": bad}


def check_vector(v):
    import bionumpy as bnp
    if v.get("_matrix"):
        return check_matrix_vector(v)
    prog, obs, pool_exp = v["prog"], v["obs"], v["pool"]
    bad, n, nt = [], 0, []
    encs = _encodings()
    h = int(hashlib.sha1(json.dumps(prog, sort_keys=True).encode()).hexdigest(), 16)
    chosen = [encs[h % len(encs)], encs[(h + 2) % len(encs)]] if not v.get("_all") else encs
    deep = sum(1 for p in prog[1:] if p["op"] in ("rows", "cols", "copy", "concat")) >= 2 or any(p["op"].startswith("set") for p in prog)
    for ename, enc, letters in chosen:
        txt = lambda row: "".join(letters[c] for c in row)
        start = pool_exp[0] if len(prog) == 1 else None
        # the first array of the pool is the program's start; later assignments may have changed it, so rebuild the start from the program
        first = v["start"] if "start" in v else None
        rows0 = v["_start"]
        a0 = _create([txt(r) for r in rows0], enc)
        pool = [a0]
        last = ("ok", None)
        failed = None
        for step, op in enumerate(prog[1:]):
            name = op["op"]
            t = pool[op["t"] - 1]

            def do():
                if name == "rows":
                    u = t[_row_index(op["sel"], len(t))]
                    pool.append(u)
                    return None
                if name == "cols":
                    u = t[:, _col_index(op["sel"])]
                    pool.append(u)
                    return None
                if name == "concat":
                    pool.append(np.concatenate([t, pool[op["u"] - 1]]))
                    return None
                if name == "copy":
                    pool.append(t.copy())
                    return None
                if name == "concat1":
                    pool.append(np.concatenate([t]))
                    return None
                if name == "row":
                    return t[0 if op["r"] == 1 else -1].to_string()
                if name == "col":
                    return t[:, 0 if op["c"] == 1 else -1].to_string()
                if name == "eq":
                    res_ = [[bool(x) for x in row] for row in (t == letters[op["x"]]).tolist()]
                    # the same letter given as an element of plain (ASCII) text and as an element of an array in t's own encoding: an
                    # operand that is already an encoded array is compared by its letter, not by its code
                    for oname, operand in (("ascii element", lambda: bnp.as_encoded_array(letters[op["x"]] + "x")[0]),
                                           ("own-encoding element", lambda: bnp.as_encoded_array(letters[op["x"]], t.encoding)[0])):
                        try:
                            alt = [[bool(x) for x in row] for row in (t == operand()).tolist()]
                        except Exception:      # noqa: refused
                            continue
                        if alt != res_:
                            return {"operand": oname, "gives": alt, "text operand gives": res_}
                    return res_
                if name == "streq":
                    return [bool(x) for x in bnp.str_equal(t, txt(op["s"])).tolist()]
                if name == "streq2":
                    return [bool(x) for x in np.atleast_1d(bnp.str_equal(t, pool[op["u"] - 1])).tolist()]
                if name == "rslice":
                    out = bnp.ragged_slice(t, np.array(op["starts"], dtype=int), np.array(op["ends"], dtype=int))
                    return {"rows": [str(x) for x in out.tolist()], "encoding_kept": out.encoding == t.encoding,
                            "flat": "".join(t.tolist())}
                if name == "decode":
                    from bionumpy.string_array import string_array
                    return [[str(x) for x in t.encoding.decode(t).tolist()], [str(x) for x in string_array(t).tolist()]]
                if name == "ravel":
                    return t.ravel().to_string()
                if name == "setrow":
                    val = letters[op["x"]] * len(t[0])
                    t[0] = val if op["form"] == "str" else bnp.as_encoded_array(val)
                    return None
                if name == "setmask":
                    val = letters[op["y"]]
                    t[t == letters[op["x"]]] = val if op["form"] == "str" else bnp.as_encoded_array(val)
                    return None
                raise ValueError(name)
            last = outcome(do)
            n += 1
            if last[0] == "err":
                failed = step
                break
        tags = {"encoding": ename, "op": prog[-1]["op"], "ops": "-".join(p["op"] for p in prog[1:])}
        case = {"prog": prog, "start": [txt(r) for r in rows0], "encoding": ename}
        if deep:
            nt.append("%s|%s" % (ename, json.dumps(prog, sort_keys=True)))
        if failed is not None:
            if failed == len(prog) - 2:      # an earlier failing step is reported by the prefix's own vector
                bad.append({"what": "operation %s raised" % prog[-1]["op"], "tags": dict(tags, kind="raises"), "vector": v, "case": case,
                            "expected": "a value", "observed": last[1]})
            continue
        # value returned by the last operation
        if obs["kind"] == "str":
            want = txt(obs["val"])
            if last[1] != want:
                bad.append({"what": "%s returns something else than the list of strings gives" % prog[-1]["op"], "tags": dict(tags, kind="value"),
                            "vector": v, "case": case, "expected": want, "observed": last[1]})
        elif obs["kind"] == "flags":
            if last[1] != obs["val"]:
                bad.append({"what": "str_equal differs from comparing the rows as strings", "tags": dict(tags, kind="value"), "vector": v, "case": case,
                            "expected": obs["val"], "observed": last[1]})
        elif obs["kind"] == "rows" and prog[-1]["op"] == "rslice":
            want = [txt(r) for r in obs["val"]]
            got = last[1]
            if got["rows"] != want or not got["encoding_kept"]:
                # the reading the code is known to make: starts/ends taken as positions in the flat text of all rows
                flat_reading = [got["flat"][a:b] for a, b in zip(prog[-1]["starts"], prog[-1]["ends"])]
                bad.append({"what": "ragged_slice does not slice every row from its own start", "tags": dict(tags, kind="value", reads_flat_text=(got["rows"] == flat_reading and got["encoding_kept"])),
                            "vector": v, "case": case, "expected": want, "observed": got["rows"]})
        elif obs["kind"] == "rows":
            want = [txt(r) for r in obs["val"]]
            if last[1] != [want, want]:
                bad.append({"what": "decode / string_array of the array are not its rows", "tags": dict(tags, kind="value"), "vector": v, "case": case,
                            "expected": [want, want], "observed": last[1]})
        elif obs["kind"] == "bools":
            if last[1] != obs["val"]:
                bad.append({"what": "comparison with a character differs", "tags": dict(tags, kind="value"), "vector": v, "case": case,
                            "expected": obs["val"], "observed": last[1]})
        # the whole pool: contents and encoding of every array
        for k, (arr, exp) in enumerate(zip(pool, pool_exp)):
            o = outcome(lambda: arr.tolist())
            n += 1
            want = [txt(r) for r in exp]
            if o != ("ok", want):
                bad.append({"what": "array %d of the pool does not decode to the model's list of strings after %s" % (k + 1, prog[-1]["op"]),
                            "tags": dict(tags, kind="pool", which=("result" if k == len(pool) - 1 else "earlier-array")), "vector": v, "case": case,
                            "expected": want, "observed": o})
                break
            want_enc = a0.encoding
            if arr.encoding != want_enc:
                bad.append({"what": "the encoding of the result is not the encoding of the operand", "tags": dict(tags, kind="encoding"),
                            "vector": v, "case": case, "expected": str(want_enc), "observed": str(arr.encoding)})
                break
    return {"n": n, "nt": nt, "bad": bad}


def _with_start(vectors, starts):
    """attach the start array: the pool's first array before any assignment = first array of the depth-1 prefix"""
    # the start is recoverable: assignments only act on the LAST array right after create/copy; the first array can only be changed
    # by an assignment directly after "create"
    out = []
    for v in vectors:
        v["_start"] = v["prog"][0]["start"]        # what the program was created from (CharArray.tla!Init)
        out.append(v)
    return out


def run(ctx):
    quick = ctx.tier == "quick"
    base = {"Symbols": [0, 1], "MaxPool": 3, "Matrix": False}
    plans = [dict(base, MaxRows=2, MaxLen=2, MaxDepth=3, Ops=ALL_OPS, StartArrays="<- AllArrays"),
             dict(base, MaxRows=3, MaxLen=2, MaxDepth=4, Ops=["rows", "cols", "copy", "concat1", "setrow", "setmask"], StartArrays="<- DeepStart")]
    if not quick:
        plans = [dict(base, MaxRows=3, MaxLen=2, MaxDepth=3, Ops=ALL_OPS, StartArrays="<- AllArrays"),
                 dict(base, MaxRows=3, MaxLen=2, MaxDepth=4, Ops=ALL_OPS, StartArrays="<- DeepStart"),
                 dict(base, MaxPool=4, MaxRows=3, MaxLen=2, MaxDepth=5, Ops=["rows", "cols", "copy", "setrow", "setmask"], StartArrays="<- DeepStart")]
    vectors = []
    for i, c in enumerate(plans):
        res = ctx.tlc("MC_C07", tag="MC_C07_%d" % i, spec="Spec", constants=c, invariants=["TypeOK", "Emit"], properties=["AssignLocal"], coverage=True)
        ctx.require_actions(res, "MC_C07", ["RowSelect", "ColSelect", "Copy", "AssignRow", "AssignMask"])
        vectors += _with_start(res.vectors, None)
    # rectangular arrays as 2-D character matrices; columns also picked by an index list or a mask
    resm = ctx.tlc("MC_C07", tag="MC_C07_matrix", spec="Spec", constants=dict(base, Matrix=True, MaxRows=3, MaxLen=3, MaxDepth=3 if quick else 4,
                                                                               Ops=["rows", "cols", "copy", "concat1", "row", "col", "eq", "ravel", "setrow", "setmask"], StartArrays="<- RectStart"),
                   invariants=["TypeOK", "Emit"])
    for v in resm.vectors:
        v["_matrix"] = True
    vectors += resm.vectors
    ctx.sample(vectors[100])
    ctx.absorb(core.pmap(check_vector, vectors, chunk=50))
    ctx.exhaustive = True
    return ctx.finish(RULE, assumptions=[
        "single-cell assignment a[i, j] = c and scalar assignment into flat arrays are excluded: they fail in the installed numpy/npstructures pair on the unchanged tree",
        "assignments are made into a freshly created or copied array; what a VIEW shows after its parent is assigned to is not prescribed by the list-of-strings model",
        "each program runs on two of the five (encoding, letter pair) combinations chosen by hash (all five in replay)",
    ])


def replay(d):
    print("replay of C07 case:", d.get("what"), d.get("tags"), d.get("case"))
    v = dict(d["vector"], _all=True, _matrix=bool(d["tags"].get("matrix")))
    v["_start"] = v["prog"][0]["start"]
    r = check_vector(v)
    same = [b for b in r["bad"] if b["tags"]["kind"] == d["tags"]["kind"]]
    for b in same[:3]:
        print("  disagrees:", b["what"], "expected", str(b["expected"])[:200], "observed", str(b["observed"])[:200])
    if not same:
        print("  agrees now")
    return 1 if same else 0
