"""C09 — genomic arrays are exact, lossless views of dense per-base arrays.

spec/GenomicArray.tla: Dense(bedGraph), pile-up of the runs read as intervals, pointwise evaluation of
expression trees over {+,-,*,<,>,==,&,|,~, scalars}, sum, histogram, and the back-conversion ToRuns (maximal
constant runs per contig in genome order) with TLC-checked Lossless / RunsOrdered.  MC_C09 grows a bedGraph
run by run in genome order and then picks an expression tree; every state is printed with the dense result
and replayed on GenomicArray objects built by Genome.get_track / get_intervals(...).get_pileup().
"""
import json

import numpy as np

from .. import core
from ..core import outcome

RULE = ("one case = (genome, bedGraph state of MC_C09, expression tree) replayed through Genome.get_track, ufuncs, to_dict, sum, histogram, "
        "get_data; non-trivial = the bedGraph has a gap, does not start at 0 or does not end at the contig size, or the tree has depth 2; "
        "distinct by (genome, bedGraph, tree)")
NAMES = ["chr1", "chr11", "chr2", "chrX"]


def _genome(G, with_ignored=False):
    import bionumpy as bnp
    sizes = {NAMES[i]: int(n) for i, n in enumerate(G)}
    if with_ignored is True:
        # a contig the genome lists but filters out (as Genome.from_file does with names holding '_'): nothing may depend on it
        from bionumpy.genomic_data.genome_context import ignore_underscores
        sizes = dict(list(sizes.items())[:1] + [("chr1_alt", 3)] + list(sizes.items())[1:])
        return bnp.Genome.from_dict(sizes, filter_function=ignore_underscores)
    if with_ignored == "derived":
        # a genome derived (with_ignored_added) from one that already filters a contig out: it ignores the old names and the new one
        from bionumpy.genomic_data.genome_context import ignore_underscores
        sizes = dict(list(sizes.items())[:1] + [("chr1_alt", 3)] + list(sizes.items())[1:])
        return bnp.Genome.from_dict(sizes, filter_function=ignore_underscores).with_ignored_added(["extra_contig"])
    if with_ignored == "sorted":
        # the same contigs listed in the opposite order, the genome asked to sort the names (sizes of different contigs differ)
        return bnp.Genome(dict(reversed(list(sizes.items()))), sort_names=True)
    return bnp.Genome.from_dict(sizes)


def _apply(t, A, B):
    if t[0] == "A":
        return A
    if t[0] == "B":
        return B
    if t[0] == "k":
        return t[1]
    if t[0] == "~":
        return ~_apply(t[1], A, B)
    x, y = _apply(t[1], A, B), _apply(t[2], A, B)
    op = t[0]
    if op == "+":
        return x + y
    if op == "-":
        return x - y
    if op == "*":
        return x * y
    if op == "<":
        return x < y
    if op == ">":
        return x > y
    if op == "==":
        return x == y
    if op == "&":
        return x & y
    if op == "|":
        return x | y
    raise ValueError(op)


def _depth(t):
    if t[0] in ("A", "B", "k"):
        return 0
    return 1 + max(_depth(x) for x in t[1:])


def check_vector(v):
    r = _check(v, False)
    if hash(json.dumps([v["G"], v["bg"]])) % 3 == 0:
        r2 = _check(v, True)
        r = dict(r, n=r["n"] + r2["n"], bad=r["bad"] + r2["bad"])          # (keeps r["back"], the records for the trace check)
    elif hash(json.dumps([v["G"], v["bg"]])) % 3 == 1 and len(v["G"]) > 1:
        r2 = _check(v, "sorted")
        r = dict(r, n=r["n"] + r2["n"], bad=r["bad"] + r2["bad"])          # (keeps r["back"], the records for the trace check)
    else:
        r2 = _check(v, "derived")
        r = dict(r, n=r["n"] + r2["n"], bad=r["bad"] + r2["bad"])          # (keeps r["back"], the records for the trace check)
    return r


def _check(v, with_ignored):
    from bionumpy.datatypes import BedGraph, Interval
    G, bg, tree = v["G"], v["bg"], v["tree"]
    names = NAMES[:len(G)]
    g = _genome(G, with_ignored)
    bad, n = [], 0
    key = json.dumps([G, bg, tree])
    gaps = (not bg) or any(bg[i]["c"] == bg[i + 1]["c"] and bg[i]["e"] < bg[i + 1]["s"] for i in range(len(bg) - 1)) \
        or any(r["s"] > 0 for r in bg) or any(r["e"] < G[r["c"] - 1] for r in bg)
    nt = [key] if (gaps or _depth(tree) >= 2) else []
    chrom = [names[r["c"] - 1] for r in bg]
    st = np.array([r["s"] for r in bg], dtype=int)
    en = np.array([r["e"] for r in bg], dtype=int)
    vals = np.array([r["v"] for r in bg], dtype=int)
    tags = {"op": tree[0], "depth": _depth(tree), "empty": not bg, "ignored_contig_listed": with_ignored in (True, "derived"), "sort_names": with_ignored == "sorted", "derived_genome": with_ignored == "derived"}

    def dense(x):
        d = x.to_dict()
        return [[(bool(y) if isinstance(y, (bool, np.bool_)) else int(y)) for y in d[nm].tolist()] for nm in names]

    def build():
        A = g.get_track(BedGraph(chrom, st, en, vals))
        B = g.get_intervals(Interval(chrom, st, en)).get_pileup()
        return A, B
    o = outcome(build)
    n += 1
    if o[0] == "err":
        bad.append({"what": "building a genomic array from a bedGraph / intervals raised", "tags": dict(tags, step="build"),
                    "vector": v, "expected": v["A"], "observed": o[1]})
        return {"n": n, "nt": nt, "bad": bad}
    A, B = o[1]
    for nm, arr, want in (("A", A, v["A"]), ("B", B, v["B"])):
        o = outcome(dense, arr)
        n += 1
        if o != ("ok", want):
            bad.append({"what": "genomic array does not expand to the dense array its records describe", "tags": dict(tags, step="expand-" + nm),
                        "vector": v, "expected": want, "observed": o})
            return {"n": n, "nt": nt, "bad": bad}
    if tree[0] == "A" and bg:
        # a genomic array is a value: writing into the arrays it was built from afterwards does not change it
        def scribbled():
            st2, en2, v2 = st.copy(), en.copy(), vals.copy()
            A2 = g.get_track(BedGraph(list(chrom), st2, en2, v2))
            B2 = g.get_intervals(Interval(list(chrom), st2, en2)).get_pileup()
            v2[:] = 77
            st2[:] = 0
            en2[:] = 1
            return dense(A2), dense(B2)
        o = outcome(scribbled)
        n += 1
        if o != ("ok", (v["A"], v["B"])):
            bad.append({"what": "a genomic array changed when the arrays it was built from were written to afterwards", "tags": dict(tags, step="inputs-written-afterwards"),
                        "vector": v, "expected": [v["A"], v["B"]], "observed": str(o)[:400]})
    o = outcome(lambda: _apply(tree, A, B))
    n += 1
    if o[0] == "err":
        bad.append({"what": "evaluating the expression on genomic arrays raised", "tags": dict(tags, step="eval"),
                    "vector": v, "expected": v["res"], "observed": o[1]})
        return {"n": n, "nt": nt, "bad": bad}
    R = o[1]
    o = outcome(dense, R)
    n += 1
    if o != ("ok", v["res"]):
        bad.append({"what": "operation on genomic arrays differs from the NumPy operation on the dense arrays", "tags": dict(tags, step="eval"),
                    "vector": v, "expected": v["res"], "observed": o})
        return {"n": n, "nt": nt, "bad": bad}
    # reductions
    for nm, f in (("sum-method", lambda: int(R.sum())), ("np.sum", lambda: int(np.sum(R)))):
        o = outcome(f)
        n += 1
        if o != ("ok", v["total"]):
            bad.append({"what": "sum of a genomic array differs from the sum of the dense array", "tags": dict(tags, step=nm),
                        "vector": v, "expected": v["total"], "observed": o})
    if not v["bool"]:
        for form, f in (("keywords", lambda: np.histogram(R, bins=8, range=(-2, 6))), ("positional", lambda: np.histogram(R, 8, (-2, 6)))):
            o = outcome(lambda: [int(x) for x in f()[0].tolist()])
            n += 1
            if o != ("ok", v["hist"]):
                bad.append({"what": "histogram of a genomic array differs from the histogram of the dense array", "tags": dict(tags, step="histogram", arguments=form),
                            "vector": v, "expected": v["hist"], "observed": o})
    # back-conversion
    def runs():
        d = R.get_data()
        ch = d.chromosome.tolist()
        if v["bool"]:
            return [{"c": names.index(c) + 1, "s": int(s), "e": int(e), "v": True} for c, s, e in zip(ch, d.start.tolist(), d.stop.tolist())]
        return [{"c": names.index(c) + 1, "s": int(s), "e": int(e), "v": int(x)} for c, s, e, x in zip(ch, d.start.tolist(), d.stop.tolist(), d.value.tolist())]
    o = outcome(runs)
    n += 1
    back = None
    if o[0] == "err":
        bad.append({"what": "converting a genomic array back to intervals/bedGraph raised", "tags": dict(tags, step="get_data"),
                    "vector": v, "expected": v["runs"], "observed": o})
    else:
        back = {"G": G, "runs": o[1], "res": v["res"], "bool": v["bool"], "vector": v}   # decided by TLC (Trace_C09) in run()
    if tree[0] == "A" and bg:
        # the same intervals handed over in another order and with an empty interval among them: the same pile-up, the mask = pile-up > 0
        def unsorted():
            import bionumpy as bnp
            order = list(range(len(bg)))[::-1]
            ch2 = [chrom[k] for k in order] + [chrom[0]]
            st2 = np.concatenate([st[order], [st[0]]])
            en2 = np.concatenate([en[order], [st[0]]])
            gi = g.get_intervals(Interval(ch2, st2, en2))
            return dense(gi.get_pileup()), dense(gi.get_mask()), int(gi.get_mask().sum())
        o = outcome(unsorted)
        n += 1
        wantm = [[x > 0 for x in row] for row in v["B"]]
        if o != ("ok", (v["B"], wantm, sum(sum(r) for r in wantm))):
            bad.append({"what": "pile-up / mask of the same intervals in another order, with an empty interval among them, differ from the dense arrays",
                        "tags": dict(tags, step="unsorted-with-empty"), "vector": v, "expected": [v["B"], wantm], "observed": str(o)[:400]})
        # a boolean array over a STREAM of bedGraph chunks converted back: the records of its True runs
        def streamed_bool():
            import bionumpy as bnp
            from bionumpy.streams import NpDataclassStream
            chunks = [BedGraph(chrom[k:k + 1], st[k:k + 1], en[k:k + 1], vals[k:k + 1]) for k in range(len(bg))]
            T = g.get_track(NpDataclassStream(iter(chunks), dataclass=BedGraph))
            d = bnp.compute((T > 1).get_data())
            cov = [[False] * G[c] for c in range(len(G))]
            has_value = hasattr(d, "value")
            for c, a, b in zip(d.chromosome.tolist(), d.start.tolist(), d.stop.tolist()):
                for p in range(int(a), int(b)):
                    cov[names.index(c)][p] = True
            return cov, has_value
        if with_ignored is False:
            o = outcome(streamed_bool)
            n += 1
            wantb = [[x > 1 for x in row] for row in v["A"]]
            if o != ("ok", (wantb, False)):
                bad.append({"what": "a boolean array over a stream, converted back, is not the intervals of its True runs",
                            "tags": dict(tags, step="streamed-bool-get_data"), "vector": v, "expected": wantb, "observed": str(o)[:400]})
    if tree[0] == "A" and bg:
        # integer values beyond 2^53: the sum of the array is the exact integer sum of the dense array (it does not go through a double)
        K = 2 ** 53 + 1
        want_big = sum((int(r["v"]) + K) * (r["e"] - r["s"]) for r in bg)

        def big_sum():
            T = g.get_track(BedGraph(chrom, st, en, vals.astype(np.int64) + K))
            return int(T.sum()), int(np.sum(T)), type(T.sum()).__name__ != "float"
        o = outcome(big_sum)
        n += 1
        if o != ("ok", (want_big, want_big, True)):
            bad.append({"what": "the sum of an integer-valued genomic array with values beyond 2^53 is not the exact integer sum of the dense array", "tags": dict(tags, step="sum-beyond-2^53"),
                        "vector": v, "expected": want_big, "observed": str(o)[:200]})
        # ... and converted back to bedGraph its values are those integers exactly
        def big_back():
            T = g.get_track(BedGraph(chrom, st, en, vals.astype(np.int64) + K))
            return sorted(set(x for x in T.get_data().value.tolist() if x != 0))
        o = outcome(big_back)
        n += 1
        want_vals = sorted(set(int(r["v"]) + K for r in bg))
        if o[0] != "ok" or len(o[1]) != len(want_vals) or any(not (a_ == b_) for a_, b_ in zip(o[1], want_vals)):
            bad.append({"what": "an integer-valued genomic array with values beyond 2^53 converted back to bedGraph does not hold its values exactly", "tags": dict(tags, step="get_data-beyond-2^53"),
                        "vector": v, "expected": want_vals, "observed": str(o)[:200]})
        # a pile-up scaled by plain Python integers past 2^31 equals the dense int64 arithmetic
        def scaled():
            P = g.get_intervals(Interval(chrom, st, en)).get_pileup()
            return dense((P * 65536) * 65536), dense(P * 1000000000)
        o = outcome(scaled)
        n += 1
        want_sc = ([[x * 65536 * 65536 for x in row] for row in v["B"]], [[x * 1000000000 for x in row] for row in v["B"]])
        if o != ("ok", want_sc):
            bad.append({"what": "a pile-up multiplied by plain integers past 2^31 differs from the dense 64-bit arithmetic", "tags": dict(tags, step="pileup-scaled-past-2^31"),
                        "vector": v, "expected": str(want_sc)[:200], "observed": str(o)[:200]})
    # float-valued and boolean tracks are lossless too (identity tree only)
    if tree[0] == "A" and bg:
        for kind, vv, want in (("float", vals * 0.5, [[x * 0.5 for x in row] for row in v["A"]]),
                               ("float-inexact", np.where(vals == 1, 12.34, 0.56), None),
                               ("float-inexact2", np.where(vals == 1, 0.1, 2.5), None)):
            def fl():
                T = g.get_track(BedGraph(chrom, st, en, vv))
                d = T.to_dict()
                return [[float(y) for y in d[nm].tolist()] for nm in names]
            if want is None:
                lookup = {(r["c"], p): float(x) for r, x in zip(bg, vv.tolist()) for p in range(r["s"], r["e"])}
                want = [[lookup.get((c + 1, p), 0.0) for p in range(G[c])] for c in range(len(G))]
            o = outcome(fl)
            n += 1
            if o != ("ok", want):
                bad.append({"what": "float-valued genomic array does not expand exactly", "tags": dict(tags, step="expand-" + kind),
                            "vector": v, "expected": want, "observed": o})
    return {"n": n, "nt": nt, "bad": bad, "back": back}


def validate_back(ctx, items):
    import os
    path = os.path.join(ctx.work, "c09_back.json")
    for i, t in enumerate(items):
        t["tid"] = i
    with open(path, "w") as f:
        json.dump([{k: t[k] for k in ("tid", "G", "runs", "res", "bool")} for t in items], f)
    res = ctx.tlc("Trace_C09", workers=1, env={"TRACE_FILE": path}, init="Init", next_="Next", postcondition="Post")
    rej, acc = [], None
    for line in res.printed:
        parts = [p.strip().strip('"') for p in line.strip("<>").split(",")]
        if parts[0] == "REJECT":
            rej.append(int(parts[1]))
        elif parts[0] == "ACCEPTED":
            acc = int(parts[1])
    if acc is None or acc + len(rej) != len(items):
        raise core.MachineryFailure("Trace_C09 bookkeeping mismatch")
    out = []
    for tid in rej:
        t = items[tid]
        out.append({"what": "records converted back from a genomic array overlap, are out of genome order or do not expand to the same dense array",
                    "tags": {"step": "get_data", "op": t["vector"]["tree"][0], "bool": t["bool"]}, "vector": t["vector"],
                    "expected": t["res"], "observed": t["runs"]})
    return out, acc


def run(ctx):
    quick = ctx.tier == "quick"
    invs = ["WF", "Lossless", "RunsOrdered", "ResLossless", "Emit"]
    plans = [("G1", 3, False), ("G2", 2, True), ("G3", 2, False)] if quick else [("G1", 3, True), ("G2", 3, True), ("G3", 3, True), ("G4", 2, True)]
    vectors = []
    for gname, maxruns, d2 in plans:
        res = ctx.tlc("MC_C09", tag="MC_C09_" + gname, spec="Spec",
                      constants={"G": "<- " + gname, "MaxRuns": maxruns, "Values": [1, 2], "Depth2": d2}, invariants=invs, coverage=True)
        ctx.require_actions(res, "MC_C09", ["AddRun", "Choose"])
        vectors += res.vectors
    ctx.sample({k: vectors[50][k] for k in ("G", "bg", "tree", "res", "runs")})
    results = core.pmap(check_vector, vectors, chunk=50)
    ctx.absorb(results)
    items = [r["back"] for r in results if r.get("back")]
    if len(items) < len(vectors) // 2:
        raise core.MachineryFailure("only %d of %d vectors delivered records for the back-conversion check" % (len(items), len(vectors)))
    badb, nacc = validate_back(ctx, items)
    for b in badb:
        ctx.disagree(b)
    ctx.count(traces=nacc)
    ctx.exhaustive = True
    return ctx.finish(RULE, assumptions=[
        "bedGraphs are sorted and non-overlapping (precondition of the property); values 1 and 2 (0 is what a gap reads as)",
        "scalar-on-the-left comparisons are written with the operator (Python reflects them), scalar-on-the-left arithmetic as k op A",
        "float tracks are checked for exact expansion (halves, and inexact values) with the identity tree only",
    ])


def replay(d):
    print("replay of C09 case:", d.get("what"), d.get("tags"))
    v = d["vector"]
    print("  genome", v["G"], "bedGraph", v["bg"], "tree", v["tree"])
    r = check_vector(v)
    if r.get("back"):
        ctx = core.Ctx("C09", "quick", 0)
        bb, _ = validate_back(ctx, [r["back"]])
        r["bad"] += bb
        import shutil
        shutil.rmtree(ctx.work, ignore_errors=True)
    for b in r["bad"][:3]:
        print("  disagrees:", b["what"], "expected", str(b["expected"])[:200], "observed", str(b["observed"])[:200])
    if not r["bad"]:
        print("  agrees now")
    return 1 if r["bad"] else 0
