"""C19 — tables of entries behave like column-aligned NumPy records.

spec/Records.tla: a table is a function column -> sequence of cells; index / mask / slice / fancy / concatenate /
sort-by / replace / add-fields act on all columns at once, operands are never changed (action property
OperandsUnchanged), all columns keep equal length and the cells of one row stay together (RowsIntact); rows,
dict and pandas conversions are observations that must be mutually inverse.  TLC explores every program to a
depth; every program is replayed on eight table types (library datatypes and a dynamically made one with
str, identifier, int, float, bool, Optional[int], list-of-int and DNA-encoded columns) and the whole pool is
compared after the last step.
"""
import dataclasses
import hashlib
import json
import os

import numpy as np

from .. import core
from ..core import outcome

RULE = ("one case = (program of table operations = TLC state of MC_C19, table type) replayed on a real bnpdataclass; non-trivial = the "
        "program combines two of {selection, concatenation, sort, replace, add-field} before its last step; distinct by (program, type)")
ALL_OPS = ["index", "concat", "replace", "addfield", "addexisting", "sort", "rows", "dict", "pandas", "iter", "len", "row", "narrow", "construct"]
_TYPES = {}


def _types():
    if _TYPES:
        return _TYPES
    import bionumpy as bnp
    from bionumpy.bnpdataclass import bnpdataclass
    from bionumpy import datatypes as dt
    from typing import List, Optional

    @bnpdataclass
    class Mixed:
        key: int
        seq: bnp.DNAEncoding
        flag: bool
        weight: float
        maybe: Optional[int]
        numbers: List[int]
        text: str
        ident: dt.SequenceID

    @bnpdataclass
    class Inner:
        count: int
        name: str

    @bnpdataclass
    class Mid:
        allele: Inner
        depth: int

    @bnpdataclass
    class Nested:           # a nested-table column two levels deep
        pos: int
        label: str
        call: Mid

    @bnpdataclass
    class Siblings:         # two nested-table columns of the same type (equal sub-field names, different contents)
        pos: int
        label: str
        first: Inner
        second: Inner

    # per type: class, sort column, replaced column, source rows (3), fresh value maker for the replaced column
    _TYPES.update({
        "Interval": (dt.Interval, "start", "stop", [("chr1", 2, 10), ("chr22", 3, 1007), ("c3", 1, 200)], lambda k, j: 1000 * k + j),
        "Bed6": (dt.Bed6, "start", "name", [("chr1", 2, 10, "n1", 5, "+"), ("chr22", 3, 1007, "name2", 10, "-"), ("c3", 1, 200, "x", 0, ".")], lambda k, j: "f%d_%d" % (k, j)),
        "BedGraph": (dt.BedGraph, "start", "value", [("chr1", 2, 10, 1.5), ("chr22", 3, 1007, 10.0), ("c3", 1, 200, 0.25)], lambda k, j: k + j / 2.0),
        "SequenceEntry": (dt.SequenceEntry, "name", "sequence", [("k2", "ACGT"), ("k3", "GG"), ("k1", "ACGTACGTA")], lambda k, j: "ACGT"[j % 4] * (k + j)),
        "SeqWithQuality": (dt.SequenceEntryWithQuality, "name", "quality", [("k2", "ACGT", [1, 2, 3, 4]), ("k3", "GG", [0, 40]), ("k1", "A", [7])],
                           lambda k, j: [k, j, k + j][:1 + j % 3]),
        "Bed6File": (dt.Bed6, "start", "name", [("chr1", 2, 10, "n1", 5, "+"), ("chr22", 3, 1007, "name2", 10, "-"), ("c3", 1, 200, "x", 0, ".")], lambda k, j: "f%d_%d" % (k, j)),
        # a text column whose ASCII codes sit in a 64-bit integer array, and one given as a 2-D character matrix (rows of equal length)
        "SeqWide": (dt.SequenceEntry, "name", "sequence", [("k2", "ACGT"), ("k3", "GG"), ("k1", "ACGTACGTA")], lambda k, j: "ACGT"[j % 4] * (k + j)),
        "SeqMatrix": (dt.SequenceEntry, "name", "sequence", [("k2", "ACG"), ("k3", "GGT"), ("k1", "TTA")], lambda k, j: "ACGT"[j % 4] * (k + j)),
        "ChromosomeSize": (dt.ChromosomeSize, "size", "name", [("chr1", 20), ("chr22", 30), ("c3", 10)], lambda k, j: "f%d_%d" % (k, j)),
        "LocationEntry": (dt.LocationEntry, "position", "chromosome", [("chr1", 2), ("chr22", 3), ("c3", 1)], lambda k, j: "f%d_%d" % (k, j)),
        "Nested": (Nested, "pos", "label", [(2, "l1", ((1, "a"), 5)), (3, "label2", ((2, "bb"), 6)), (1, "", ((3, "c"), 7))], lambda k, j: "f%d_%d" % (k, j)),
        "Siblings": (Siblings, "pos", "label", [(2, "l1", (1, "a"), (10, "x")), (3, "label2", (2, "bb"), (20, "yy")), (1, "", (3, "c"), (30, ""))], lambda k, j: "f%d_%d" % (k, j)),
        "Mixed": (Mixed, "key", "seq", [(2, "ACGT", True, 1.5, 5, [1, 2], "hello", "id1"), (3, "GG", False, -2.0, 0, [], "x", "identifier2"),
                                         (1, "T", True, 0.25, 77, [9], "", "i3")], lambda k, j: "ACGT"[(k + j) % 4] * (1 + j % 3)),
    })
    return _TYPES


def _special(tname, cls, rows):
    import bionumpy as bnp
    from bionumpy.encoded_array import EncodedArray, EncodedRaggedArray, BaseEncoding
    names, seqs = [r[0] for r in rows], [r[1] for r in rows]
    if tname == "SeqWide":
        col = EncodedRaggedArray(EncodedArray(np.array([ord(c) for s_ in seqs for c in s_], dtype=np.int64), BaseEncoding), [len(s_) for s_ in seqs])
    else:
        col = bnp.as_encoded_array("".join(seqs)).reshape(len(seqs), len(seqs[0]))
    return cls(names, col)


def _from_file(rows):
    """the BED6 rows written to a file and read back: a lazily parsed table (columns are cut out of the text when asked for)"""
    import bionumpy as bnp
    import tempfile
    d = os.environ.get("VERIF_RUN_WORK") or os.path.join(core.VERIF, ".work", "replay")
    os.makedirs(d, exist_ok=True)
    with tempfile.NamedTemporaryFile("w", suffix=".bed", dir=d, delete=False) as f:
        for r in rows:
            f.write("\t".join(str(x) for x in r) + "\n")
    try:
        return bnp.open(f.name, buffer_type=bnp.io.delimited_buffers.Bed6Buffer).read()
    finally:
        os.remove(f.name)


class _NotApplicable(BaseException):
    pass


def _plain(v):
    if isinstance(v, (list, tuple)):
        return [_plain(x) for x in v]
    if isinstance(v, np.ndarray):
        if v.ndim == 0:
            return _plain(v.item())          # a cell of a single entry
        return [_plain(x) for x in v.tolist()]
    if isinstance(v, (np.integer,)):
        return int(v)
    if isinstance(v, (np.floating, float)):
        return float(v)
    if isinstance(v, (np.bool_, bool)):
        return bool(v)
    if hasattr(v, "to_string"):
        return v.to_string()
    if dataclasses.is_dataclass(v) and not isinstance(v, type):
        return [_plain(getattr(v, f.name)) for f in dataclasses.fields(v)]       # one entry of a nested-table column
    if hasattr(v, "tolist"):
        return _plain(v.tolist())           # a ragged cell of a single entry
    return v


def _project(t):
    names = [f.name for f in dataclasses.fields(t)]
    cols = {}
    for nm in names:
        col = getattr(t, nm)
        if type(col).__name__ == "EncodedArray" and len(col.shape) == 2:
            cols[nm] = [col[i].to_string() for i in range(len(col))]          # a text column held as a character matrix: one row per entry
            continue
        cols[nm] = _plain(col.tolist() if hasattr(col, "tolist") else list(col))
    n = len(t)
    return [tuple(_freeze(cols[nm][i]) for nm in names) for i in range(n)], names


def _freeze(x):
    return tuple(_freeze(y) for y in x) if isinstance(x, list) else x


def _sel(kind, n):
    if kind == "tail":
        return slice(1, None)
    if kind == "step":
        return slice(None, None, 2)
    if kind == "rev":
        return slice(None, None, -1)
    if kind == "mask":
        return np.array([j % 2 == 1 for j in range(n)], dtype=bool)
    if kind == "lmask":
        return [j % 2 == 1 for j in range(n)]
    if kind == "list":
        return [-1, 0, 0] if n else []
    if kind == "empty":
        return slice(0, 0)
    raise ValueError(kind)


def _expected_rows(tname, table, names):
    cls, sortc, repc, rows, fresh = _types()[tname]
    fields = [f.name for f in dataclasses.fields(cls)]
    n = len(table["key"])
    out = []
    for j in range(n):
        row = []
        for nm in names:
            if nm == "extra":
                cell = table["extra"][j]
                row.append(1000 * cell[1] + cell[2])
                continue
            model_col = "key" if nm == sortc else ("a" if nm == repc else "b")
            cell = table[model_col][j]
            if cell[0] == "v":
                row.append(_freeze(_plain(rows[cell[1] - 1][fields.index(nm)])))
            else:
                if model_col == "key":
                    raise AssertionError("key column is never replaced")
                row.append(_freeze(_plain(fresh(cell[1], cell[2]))))
        out.append(tuple(row))
    return out


def check_vector(v):
    import bionumpy as bnp
    from bionumpy import datatypes as dt
    from bionumpy.bnpdataclass import replace
    prog, obs, pool_exp = v["prog"], v["obs"], v["pool"]
    types = _types()
    h = int(hashlib.sha1(json.dumps(prog, sort_keys=True).encode()).hexdigest(), 16)
    tnames = sorted(types)
    chosen = tnames if v.get("_all") else [tnames[h % len(tnames)], tnames[(h + 3) % len(tnames)], "Mixed"]
    bad, n, nt = [], 0, []
    structural = sum(1 for p in prog[1:] if p["op"] in ("index", "concat", "sort", "replace", "addfield", "addexisting"))
    for tname in dict.fromkeys(chosen):
        cls, sortc, repc, rows, fresh = types[tname]
        made = outcome(lambda: _from_file(rows) if tname == "Bed6File" else (_special(tname, cls, rows) if tname in ("SeqWide", "SeqMatrix") else cls.from_entry_tuples(rows)))
        if made[0] == "err":
            bad.append({"what": "building the start table of type %s from its rows raised" % tname, "tags": {"type": tname, "op": "create", "ops": "create", "kind": "raises"},
                        "vector": v, "case": {"prog": prog, "type": tname}, "expected": str(rows)[:200], "observed": made[1]})
            continue
        pool = [made[1]]
        last = ("ok", None)
        failed = None
        for step, op in enumerate(prog[1:]):
            name = op["op"]
            t = pool[op["t"] - 1]

            def do():
                if name == "index":
                    pool.append(t[_sel(op["sel"], len(t))])
                elif name == "concat":
                    pool.append(np.concatenate([t, pool[op["u"] - 1]]))
                elif name in ("replace", "addexisting") and tname == "SeqMatrix":
                    return "__not_applicable__"      # the fresh values have unequal lengths: they cannot be given as a character matrix
                elif name == "replace":
                    vals = [fresh(op["k"], j + 1) for j in range(len(t))]
                    col = getattr(t, repc)
                    pool.append(replace(t, **{repc: _as_column(col, vals)}))
                elif name == "addexisting":
                    vals = [fresh(op["k"], j + 1) for j in range(len(t))]
                    col = getattr(t, repc)
                    ftype = {f.name: f.type for f in dataclasses.fields(t)}[repc]
                    pool.append(t.add_fields({repc: _as_column(col, vals)}, field_type_map={repc: ftype}))
                elif name == "addfield":
                    pool.append(t.add_fields({"extra": np.array([1000 * op["k"] + j + 1 for j in range(len(t))], dtype=int)}, field_type_map={"extra": int}))
                elif name == "sort":
                    kc = getattr(t, sortc)
                    if not (isinstance(kc, np.ndarray) and np.issubdtype(kc.dtype, np.number)):
                        return "__not_applicable__"  # np.argsort is not offered for string columns: sorting is driven on numeric keys
                    pool.append(t.sort_by(sortc))
                elif name == "rows":
                    u = type(t).from_entry_tuples([dataclasses.astuple(e) for e in t.tolist()])
                    return _project(u)[0]
                elif name == "dict":
                    if tname == "SeqMatrix":
                        return "__not_applicable__"      # todict() hands a character matrix out as one joined string (EncodedArray.tolist is documented to give a string)
                    return _project(type(t).from_dict(t.todict()))[0]
                elif name == "pandas":
                    if tname == "SeqMatrix":
                        return "__not_applicable__"      # a character-matrix column is not something pandas conversion is offered for
                    df = t.topandas()
                    res = _project(type(t).from_data_frame(df))[0]
                    # the frame is the caller's: writing into it (in place) leaves the table it came from unchanged (OperandsUnchanged)
                    if len(df):
                        for c in df.columns:
                            if df[c].dtype.kind in "iuf":
                                df.loc[df.index[0], c] = df[c].iloc[0] + 1
                            elif df[c].dtype.kind == "b":
                                df.loc[df.index[0], c] = not df[c].iloc[0]
                    return res
                elif name == "iter":
                    fields = [f.name for f in dataclasses.fields(t)]
                    return [tuple(_freeze(_plain(getattr(e, nm))) for nm in fields) for e in t.toiter()]
                elif name == "len":
                    return len(t)
                elif name == "narrow":
                    from bionumpy.bnpdataclass.bnpdataclass import narrow_type
                    plain = type(t.get_data_object()) if hasattr(t, "get_data_object") else type(t)
                    for f in dataclasses.fields(plain):
                        # every text column in turn narrowed to a DNA alphabet, every other column to a float: the derived types are dropped
                        narrow_type(plain, f.name, bnp.DNAEncoding if f.type in (str, dt.SequenceID) else float)
                    return _project(plain.from_entry_tuples([dataclasses.astuple(e) for e in t.tolist()]))[0]
                elif name == "row":
                    fields = [f.name for f in dataclasses.fields(t)]
                    try:
                        ents = [t[j] for j in range(len(t))] + ([t[-1], t[np.int64(0)]] if len(t) else [])
                    except TypeError as e:
                        if "0-dimensional" in str(e):
                            return "__not_applicable__"     # single rows of view-shaped ragged columns: numpy/npstructures pair of this sandbox
                        raise
                    return [tuple(_freeze(_plain(getattr(e, nm))) for nm in fields) for e in ents]
                elif name == "construct":
                    return _construct(tname, t, op["form"])
                return None
            last = outcome(do)
            if last == ("ok", "__not_applicable__"):
                failed = -1
                break
            n += 1
            if last[0] == "err":
                failed = step
                break
        tags = {"type": tname, "op": prog[-1]["op"], "ops": "-".join(p["op"] for p in prog[1:])}
        case = {"prog": prog, "type": tname}
        if structural >= 2:
            nt.append("%s|%s" % (tname, json.dumps(prog, sort_keys=True)))
        if failed is not None:
            if failed == len(prog) - 2:
                bad.append({"what": "table operation %s raised" % prog[-1]["op"], "tags": dict(tags, kind="raises"), "vector": v, "case": case,
                            "expected": "a value", "observed": last[1]})
            continue
        # the value of an observation
        if prog[-1]["op"] == "construct":
            tgt = pool_exp[prog[-1]["t"] - 1]
            names = [f.name for f in dataclasses.fields(pool[prog[-1]["t"] - 1])]
            want = _expected_rows(tname, tgt, names)
            got = last[1]
            if got == "__not_applicable__":
                pass
            elif obs["must_raise"] and got != "__raised__":
                bad.append({"what": "construction accepted text in a numeric column", "tags": dict(tags, kind="construct", form=prog[-1]["form"]),
                            "vector": v, "case": case, "expected": "an error", "observed": str(got)[:300]})
            elif got == "__raised__":
                if not obs["may_raise"]:
                    bad.append({"what": "construction from the table's own rows/columns raised", "tags": dict(tags, kind="construct", form=prog[-1]["form"]),
                                "vector": v, "case": case, "expected": str(want)[:300], "observed": "raised"})
            else:
                if prog[-1]["form"] == "as-id":
                    repi = names.index(types[tname][2])
                    want = [r[repi] for r in want]
                if got != want:
                    bad.append({"what": "construction did not convert the columns to the declared types (different values)",
                                "tags": dict(tags, kind="construct", form=prog[-1]["form"]), "vector": v, "case": case,
                                "expected": str(want)[:300], "observed": str(got)[:300]})
        if prog[-1]["op"] in ("rows", "dict", "pandas", "iter", "len", "row", "narrow"):
            tgt = pool_exp[prog[-1]["t"] - 1]
            names = [f.name for f in dataclasses.fields(pool[prog[-1]["t"] - 1])]
            want = _expected_rows(tname, tgt, names)
            if prog[-1]["op"] == "len":
                want = len(want)
            if prog[-1]["op"] == "row" and want:
                want = want + [want[-1], want[0]]
            if last[1] != want:
                bad.append({"what": "%s conversion is not the inverse / does not give the table's rows" % prog[-1]["op"], "tags": dict(tags, kind="conversion"),
                            "vector": v, "case": case, "expected": str(want)[:300], "observed": str(last[1])[:300]})
        # the whole pool (results AND operands)
        for k, (tab, exp) in enumerate(zip(pool, pool_exp)):
            o = outcome(_project, tab)
            n += 1
            if o[0] == "err":
                bad.append({"what": "table %d of the pool cannot be read after %s" % (k + 1, prog[-1]["op"]), "tags": dict(tags, kind="pool-raises"),
                            "vector": v, "case": case, "expected": "rows", "observed": o[1]})
                break
            got, names = o[1]
            lens = {len(getattr(tab, nm)) if type(getattr(tab, nm)).__name__ == "EncodedArray" and len(getattr(tab, nm).shape) == 2 else
                    len(_plain(getattr(tab, nm).tolist() if hasattr(getattr(tab, nm), "tolist") else list(getattr(tab, nm)))) for nm in names}
            want = _expected_rows(tname, exp, names)
            if got != want or len(lens) != 1:
                which = "result" if k == len(pool) - 1 and prog[-1]["op"] in ("index", "concat", "replace", "addfield", "addexisting", "sort") else "operand"
                bad.append({"what": "table %d of the pool (%s) does not hold the model's rows after %s" % (k + 1, which, prog[-1]["op"]),
                            "tags": dict(tags, kind="pool", which=which), "vector": v, "case": case, "expected": str(want)[:300], "observed": str(got)[:300]})
                break
    return {"n": n, "nt": nt, "bad": bad}


def _construct(tname, t, form):
    """rebuild table t from its own data presented in representation `form` (see Records.tla!Construct_)"""
    import bionumpy as bnp
    from bionumpy.bnpdataclass import bnpdataclass
    from bionumpy import datatypes as dt
    from bionumpy.encodings.alphabet_encoding import ACTGEncoding
    cls, sortc, repc, rows, fresh = _types()[tname]
    fields = [f.name for f in dataclasses.fields(t)]
    try:
        if form == "strings":
            return _project(type(t).from_entry_tuples([dataclasses.astuple(e) for e in t.tolist()]))[0]
        if form == "columns":
            # the constructor of the plain table type (a lazily read table is an instance of a wrapper whose constructor is internal)
            plain = type(t.get_data_object()) if hasattr(t, "get_data_object") else type(t)
            return _project(plain(*[getattr(t, nm) for nm in fields]))[0]
        col = getattr(t, repc)
        if not (hasattr(col, "encoding") and hasattr(col, "lengths")) or tname != "Mixed":
            return "__not_applicable__"
        if form == "as-id":
            if not _IDT:
                @bnpdataclass
                class IdTable:
                    ident: dt.SequenceID
                    n: int
                _IDT.append(IdTable)
            new = _IDT[0](ident=col, n=np.arange(len(t)))
            return [x for x in new.ident.tolist()]
        if form == "other":
            other = bnp.as_encoded_array(col.tolist(), ACTGEncoding) if len(t) else col
            kw = {nm: getattr(t, nm) for nm in fields}
            kw[repc] = other
            try:
                res1 = _project(type(t)(**kw))[0]
            except BaseException as e:      # noqa
                if isinstance(e, (KeyboardInterrupt, SystemExit, MemoryError)):
                    raise
                res1 = "__raised__"
            if len(t) >= 2:
                # the column handed over as a list of single rows taken in turn from two differently encoded columns: refused, or the same rows
                a_ = bnp.as_encoded_array(col.tolist(), bnp.DNAEncoding)
                mixed = [a_[i] if i % 2 == 0 else other[i] for i in range(len(t))]
                try:
                    res2 = _project(type(t)(**dict(kw, **{repc: mixed})))[0]
                except BaseException as e:      # noqa
                    if isinstance(e, (KeyboardInterrupt, SystemExit, MemoryError)):
                        raise
                    res2 = None
                if res2 is not None and res2 != _project(t)[0]:
                    return res2
            return res1
        if form == "bad":
            if len(t) == 0:
                return "__not_applicable__"
            # text in a numeric column, as a list of str, as a NumPy array of byte strings and as a list of bytes: every form is refused
            for bad_vals in (["x"] * len(t), np.array([b"x"] * len(t)), [b"x"] * len(t)):
                kw = {nm: getattr(t, nm) for nm in fields}
                kw[sortc] = bad_vals
                try:
                    new = type(t)(**kw)
                    _project(new)
                except BaseException as e:      # noqa
                    if isinstance(e, (KeyboardInterrupt, SystemExit, MemoryError)):
                        raise
                    continue
                return ["accepted", repr(bad_vals)[:40], str(getattr(new, sortc))[:60]]
            return "__raised__"
    except BaseException as e:      # noqa
        if isinstance(e, (KeyboardInterrupt, SystemExit, MemoryError)):
            raise
        return "__raised__"
    return "__not_applicable__"


_IDT = []


def _as_column(col, vals):
    """new values in the representation of the column they replace"""
    import bionumpy as bnp
    from bionumpy.string_array import StringArray, as_string_array
    from npstructures import RaggedArray
    if isinstance(col, StringArray):
        return as_string_array(list(vals)) if vals else col[:0]
    if hasattr(col, "encoding"):
        return bnp.as_encoded_array(list(vals), col.encoding) if vals else col[:0]
    if isinstance(col, RaggedArray):
        return RaggedArray([list(x) for x in vals]) if vals else col[:0]
    return np.array(vals, dtype=col.dtype if len(vals) else col.dtype)


def check_field_types(order):
    """In a process of its own: the same table type extended with a column of the same name declared with two different types, one after
    the other (Records.tla: a table's columns are those of ITS OWN type; types made earlier play no part)."""
    import bionumpy as bnp
    from bionumpy.datatypes import Interval
    VALS = {"int": (int, np.array([7, 8]), [7, 8]), "str": (str, ["x", "yz"], ["x", "yz"]), "float": (float, np.array([0.5, 1.5]), [0.5, 1.5])}
    bad, n = [], 0
    for nm in order:
        typ, vals, want = VALS[nm]

        def ext():
            t = Interval(["a", "b"], [1, 2], [3, 4])
            u = t.add_fields({"extra": vals}, field_type_map={"extra": typ})
            col = u.extra
            return [x if isinstance(x, str) else (float(x) if nm == "float" else int(x)) for x in col.tolist()], [int(x) for x in u.start.tolist()]
        o = outcome(ext)
        n += 1
        if o != ("ok", (want, [1, 2])):
            bad.append({"what": "a column added with a declared type does not hold the values given for it when the same table type was extended before with the same name and another type",
                        "tags": {"ops": "addfield-types", "type": "Interval", "which": "result", "order": "-".join(order)}, "vector": {"order": list(order)},
                        "expected": want, "observed": o})
    return {"n": n, "nt": ["types|" + "-".join(order)], "bad": bad}


def run(ctx):
    quick = ctx.tier == "quick"
    consts = {"NRows": 3, "Cols": ["key", "a", "b"], "SortCol": "key", "RepCol": "a", "MaxPool": 3, "MaxDepth": 4 if quick else 5, "Ops": ALL_OPS}
    res = ctx.tlc("MC_C19", spec="Spec", constants=consts, invariants=["AllColumnsEqualLen", "RowsIntact", "Emit"], properties=["OperandsUnchanged"], coverage=True)
    ctx.require_actions(res, "MC_C19", ["Index_", "Concat_", "Replace_", "AddField_", "Sort_", "Rows_", "Dict_", "Pandas_", "Iter_", "Row_", "Narrow_", "Construct_"])
    vectors = res.vectors
    ctx.sample(vectors[60])
    ctx.absorb(core.pmap(check_vector, vectors, chunk=25))
    import itertools as _it
    ctx.absorb(core.pmap_isolated(check_field_types, [list(p) for p in _it.permutations(["int", "str", "float"], 2)]))
    ctx.exhaustive = True
    return ctx.finish(RULE, assumptions=[
        "replaced columns are given in the representation of the column they replace",
        "sort keys of distinct rows are distinct (the order among equal keys is not prescribed)",
        "a text column held as a character matrix (type SeqMatrix) is not driven through the dict and pandas conversions",
        "each program runs on three of the eight table types (two by hash + the mixed dynamic type); nested-table columns are not driven",
    ])


def replay(d):
    print("replay of C19 case:", d.get("what"), d.get("tags"))
    if d["tags"].get("ops") == "addfield-types":
        r = check_field_types(d["vector"]["order"])      # (in this process: run the replay in a fresh interpreter, as ./check does)
    else:
        r = check_vector(dict(d["vector"], _all=True))
    same = [b for b in r["bad"] if b["tags"]["type"] == d["tags"]["type"]]
    for b in same[:3]:
        print("  disagrees:", b["what"], "expected", str(b["expected"])[:250], "observed", str(b["observed"])[:250])
    if not same:
        print("  agrees now")
    return 1 if same else 0
