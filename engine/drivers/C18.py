"""C18 — numbers survive conversion between text and arrays.

spec/Numbers.tla: integers as (sign, canonical digit string) — value and canonical text at once, so 64-bit
quantities never pass through TLC's 32-bit integers; parsing with optional sign and leading zeros; lists
joined by ','; float text structure.  MC_C18 grows a batch one element at a time in three modes (format the
boundary family 10^k+-2 / int64 extremes; parse every short digit string; float texts) and checks that the
result of a row never depends on the batch (action property RowsIndependent).  Every batch is replayed.
The float accuracy clause is computed by the projection with exact rationals (TLA+ has no reals).
"""
import json
import os
import math
import random
from fractions import Fraction

import numpy as np

from .. import core
from ..core import outcome

RULE = ("one case = one batch (ordered, <=MaxBatch elements) of MC_C18 in mode format / parse / float, replayed through ints_to_strings, "
        "int_lists_to_strings, str_to_int, split, str_to_float, float_to_strings; non-trivial = batch mixing widths or signs, or a "
        "number within 2 of a power of ten >= 10^15 or an int64 extreme; distinct by batch")
CH = {-1: "-", -2: "+", -3: ".", -4: "e", -5: ","}
ULPS = 8


def _txt(seq):
    return "".join(CH[c] if c < 0 else str(c) for c in seq)


def _int(n):
    return n[0] * int("".join(str(d) for d in n[1]))


def _ulps(got, exact):
    """distance between the double `got` and the exact rational `exact`, in ulps of the nearest double to exact"""
    try:
        near = float(exact)
    except OverflowError:
        return float("inf")
    u = math.ulp(near) if near != 0 else 5e-324
    return abs(Fraction(got) - exact) / Fraction(u)


_BUF = []


def _file_columns(texts):
    """texts as column 1 (and reversed as column 2) of a tab separated file read through a buffer class made for the entry type"""
    import io
    import bionumpy as bnp
    from bionumpy.bnpdataclass import bnpdataclass
    from bionumpy.io.delimited_buffers import get_bufferclass_for_datatype
    from bionumpy.io.parser import NumpyFileReader
    from bionumpy.io.npdataclassreader import NpDataclassReader
    if not _BUF:
        @bnpdataclass
        class Cols:
            a: int
            b: int
            c: str
        _BUF.append(get_bufferclass_for_datatype(Cols, delimiter="\t", has_header=True))
    data = "a\tb\tc\n".encode() + "".join("%s\t%s\tx%d\n" % (t, u, i) for i, (t, u) in enumerate(zip(texts, texts[::-1]))).encode()
    data = bytes(data)
    out = []
    for lazy in (True, False):
        t = NpDataclassReader(NumpyFileReader(io.BytesIO(data), _BUF[0]), lazy=lazy).read()
        out.append([[int(x) for x in np.asarray(t.a).tolist()], [int(x) for x in np.asarray(t.b).tolist()]])
    if out[0] != out[1]:
        return {"lazy": out[0], "eager": out[1]}
    return out[0]


_LISTREC = []


def _listrec():
    if not _LISTREC:
        from bionumpy.bnpdataclass import bnpdataclass
        from typing import List

        @bnpdataclass
        class ListRec:
            name: str
            values: List[int]
        _LISTREC.append(ListRec)
    return _LISTREC[0]


def check_vector(v):
    import bionumpy as bnp
    from bionumpy.io.strops import ints_to_strings, int_lists_to_strings, str_to_int, str_to_float, float_to_strings, split
    from npstructures import RaggedArray
    mode, batch = v["mode"], v["batch"]
    bad, n, nt = [], 0, []
    key = json.dumps([mode, batch])
    if mode == "format":
        vals = [_int(x) for x in batch]
        want = [_txt(r) for r in v["result"]]
        if len({len(w) for w in want}) > 1 or any(len(x[1]) >= 16 for x in batch):
            nt.append(key)
        o = outcome(lambda: ints_to_strings(np.array(vals, dtype=np.int64)).tolist())
        n += 1
        if o != ("ok", want):
            shape = "int64-min" if any(x == -2 ** 63 for x in vals) else ("wide" if any(len(x[1]) >= 15 for x in batch) else "other")
            bad.append({"what": "ints_to_strings does not give the canonical decimal text", "tags": {"op": "ints_to_strings", "shape": shape},
                        "vector": v, "expected": want, "observed": o})
        if len(batch) == 1 and vals[0] >= 0:
            # the same value next to unsigned 64-bit values of twenty digits (beyond int64; formatter only: reading them back is out of range)
            big = [2 ** 64 - 1, 10 ** 19, 10 ** 19 + vals[0] % 1000]
            o = outcome(lambda: ints_to_strings(np.array([vals[0]] + big, dtype=np.uint64)).tolist())
            n += 1
            if o != ("ok", [want[0]] + [str(b) for b in big]):
                bad.append({"what": "ints_to_strings of unsigned 64-bit values does not give their decimal text", "tags": {"op": "ints_to_strings", "shape": "uint64-twenty-digits"},
                            "vector": v, "expected": [want[0]] + [str(b) for b in big], "observed": o})
        o = outcome(lambda: int_lists_to_strings(RaggedArray([vals, vals[:1]])).tolist())
        n += 1
        wj = [_txt(v["joined"]), want[0]]
        if o != ("ok", wj):
            shape = "int64-min" if any(x == -2 ** 63 for x in vals) else ("wide" if any(len(x[1]) >= 15 for x in batch) else "other")
            bad.append({"what": "int_lists_to_strings does not join the canonical texts", "tags": {"op": "int_lists_to_strings", "shape": shape},
                        "vector": v, "expected": wj, "observed": o})
        # the same rows presented as not-yet-flattened row selections of another ragged array (reversed, permuted, masked)
        for form, mk in (("reversed", lambda: RaggedArray([vals[:1], vals])[::-1]),
                         ("permuted", lambda: RaggedArray([vals[:1], [7, 77], vals])[[2, 0]]),
                         ("masked", lambda: RaggedArray([[123456], vals, [5], vals[:1]])[np.array([False, True, False, True])])):
            o = outcome(lambda: int_lists_to_strings(mk()).tolist())
            n += 1
            if o != ("ok", wj):
                bad.append({"what": "int_lists_to_strings of a row selection does not join the canonical texts", "tags": {"op": "int_lists_to_strings", "shape": "view-" + form},
                            "vector": v, "expected": wj, "observed": o})
        # an integer-list column of a FILE, handed out twice by the same buffer (the table and a second table made from it by replacing
        # another column): the same lists both times, and the table still writes its lines
        if len(vals) == 2:
            def list_column_twice():
                from bionumpy.io.delimited_buffers import get_bufferclass_for_datatype
                B = get_bufferclass_for_datatype(_listrec(), delimiter="\t")
                text = "a\t%s\nb\t%s\n" % (",".join(want), want[0])
                path = os.path.join(os.environ.get("VERIF_RUN_WORK") or "/verif/.work/replay", "c18_%d.tsv" % os.getpid())
                os.makedirs(os.path.dirname(path), exist_ok=True)
                with open(path, "w") as f:
                    f.write(text)
                t = bnp.open(path, buffer_type=B).read()
                first = [[int(x) for x in r] for r in t.values.tolist()]
                r2 = bnp.replace(t, name=t.name)
                second = [[int(x) for x in r] for r in r2.values.tolist()]
                out = path + ".out"
                with bnp.open(out, "w", buffer_type=B) as w:
                    w.write(r2)
                return first, second, open(out).read()
            o = outcome(list_column_twice)
            n += 1
            wl_ = [vals, vals[:1]]
            if o != ("ok", (wl_, wl_, "a\t%s\nb\t%s\n" % (",".join(want), want[0]))):
                bad.append({"what": "an integer-list column of a file handed out twice by the same buffer differs / the table no longer writes its lines", "tags": {"op": "file-int-list-twice"},
                            "vector": v, "expected": wl_, "observed": str(o)[:300]})
        # a written matrix of these integers: rows by columns as indexed, however the matrix lies in memory
        if len(vals) == 2:
            from bionumpy.io.matrix_dump import matrix_to_csv
            wm = "x,y\n" + (",".join(want) + "\n") * 2
            base = np.array([vals, vals], dtype=np.int64)
            wide = np.zeros((4, 4), dtype=np.int64)
            wide[::2, ::2] = base
            for form, m in (("row-major", base), ("column-major", np.asfortranarray(base)), ("transposed-view", np.ascontiguousarray(base.T).T), ("strided", wide[::2, ::2])):
                o = outcome(lambda: bnp.as_encoded_array(matrix_to_csv(m, header=["x", "y"])).to_string())
                n += 1
                if o != ("ok", wm):
                    bad.append({"what": "matrix_to_csv does not write the matrix row by row", "tags": {"op": "matrix_to_csv", "layout": form},
                                "vector": v, "expected": wm, "observed": o})
        # and back: parsing the canonical text gives the value
        o = outcome(lambda: [int(x) for x in str_to_int(bnp.as_encoded_array(want)).tolist()])
        n += 1
        if o != ("ok", vals):
            bad.append({"what": "str_to_int of canonical text does not give the value", "tags": {"op": "str_to_int", "form": "canonical"},
                        "vector": v, "expected": vals, "observed": o})
    elif mode == "optional":
        from bionumpy.io.strops import str_to_int_with_missing, str_to_float_with_missing
        texts = [_txt(t) for t in batch]
        want = [None if not r[1] else _int(r) for r in v["result"]]
        if any(w is None for w in want) and any(w is not None for w in want):
            nt.append(key)
        o = outcome(lambda: [int(x) for x in str_to_int_with_missing(bnp.as_encoded_array(texts), missing_value=-777).tolist()])
        n += 1
        if o != ("ok", [-777 if w is None else w for w in want]):
            bad.append({"what": "str_to_int_with_missing does not give the values with the missing value for '.' and empty cells", "tags": {"op": "str_to_int_with_missing"},
                        "vector": v, "expected": [-777 if w is None else w for w in want], "observed": o})
        # the missing value given in other ways (a NumPy scalar of a narrower type, the default): the parsed values are the same integers
        for mname, mv, shown in (("np.int32(-1)", np.int32(-1), -1), ("np.uint8(0)", np.uint8(0), 0), ("np.int64(-7)", np.int64(-7), -7), ("default", None, 0)):
            o = outcome(lambda: [int(x) for x in (str_to_int_with_missing(bnp.as_encoded_array(texts)) if mv is None else
                                                  str_to_int_with_missing(bnp.as_encoded_array(texts), missing_value=mv)).tolist()])
            n += 1
            if o != ("ok", [shown if w is None else w for w in want]):
                bad.append({"what": "str_to_int_with_missing gives other values when the missing value is given as %s" % mname, "tags": {"op": "str_to_int_with_missing", "missing_value": mname},
                            "vector": v, "expected": [shown if w is None else w for w in want], "observed": o})
        plus = any(t.startswith("+") for t in texts)        # an explicit '+' is integer spelling; float texts carry '-' only (Numbers.tla!FloatText)
        o = ("ok", [None if w is None else float(w) for w in want]) if plus else \
            outcome(lambda: [None if x != x else float(x) for x in str_to_float_with_missing(bnp.as_encoded_array(texts)).tolist()])
        n += 1
        if o != ("ok", [None if w is None else float(w) for w in want]):
            bad.append({"what": "str_to_float_with_missing does not give the values with NaN for '.' and empty cells", "tags": {"op": "str_to_float_with_missing"},
                        "vector": v, "expected": [None if w is None else float(w) for w in want], "observed": o})
    elif mode == "parse":
        texts = [_txt(t) for t in batch]
        want = [_int(r) for r in v["result"]]
        if len({len(t) for t in texts}) > 1 or any(t[0] in "+-" for t in texts):
            nt.append(key)
        enc = bnp.as_encoded_array(texts)
        o = outcome(lambda: [int(x) for x in str_to_int(enc).tolist()])
        n += 1
        if o != ("ok", want):
            bad.append({"what": "str_to_int does not give the value of the decimal text", "tags": {"op": "str_to_int", "form": "spelled"},
                        "vector": v, "expected": want, "observed": o})
        # the same argument parsed a second time gives the same values, and the argument still holds its text
        o2 = outcome(lambda: [int(x) for x in str_to_int(enc).tolist()])
        n += 1
        if o[0] == "ok" and (o2 != o or enc.tolist() != texts):
            bad.append({"what": "str_to_int changed its argument: parsing the same encoded text again differs", "tags": {"op": "str_to_int", "form": "twice"},
                        "vector": v, "expected": want, "observed": [o2, enc.tolist()]})
        # the same texts as the integer columns of a delimited file (first column at the very start of the buffer)
        o = outcome(_file_columns, texts)
        n += 1
        if o != ("ok", [want, want[::-1]]):
            bad.append({"what": "integer columns of a delimited file do not parse to the values of their text", "tags": {"op": "file-int-column"},
                        "vector": v, "expected": [want, want[::-1]], "observed": o, "case": {"texts": texts}})
        # split a comma separated list of the canonical forms and parse element by element
        joined = ",".join(str(w) for w in want)
        o = outcome(lambda: [int(x) for x in str_to_int(split(bnp.as_encoded_array(joined), ",")).tolist()])
        n += 1
        if o != ("ok", want):
            bad.append({"what": "split + str_to_int does not recover the list elements", "tags": {"op": "split"},
                        "vector": v, "expected": want, "observed": o})
    else:
        texts = [_txt(t) for t in v["result"]]
        exact = []
        for f in batch:
            digits = int("".join(str(d) for d in f["int"] + f["frac"]))
            e = (int("".join(str(d) for d in f["exp"])) if f["exp"] else 0) * (-1 if f["eneg"] else 1) - len(f["frac"])
            exact.append((-1 if f["neg"] else 1) * Fraction(digits) * Fraction(10) ** e)
        nt.append(key)
        o = outcome(lambda: [float(x) for x in str_to_float(bnp.as_encoded_array(texts)).tolist()])
        n += 1
        if o[0] == "err":
            bad.append({"what": "str_to_float raised on well-formed float text", "tags": {"op": "str_to_float", "kind": "raise"},
                        "vector": v, "expected": [float(x) for x in exact], "observed": o[1], "case": {"texts": texts}})
        else:
            for t, g, ex in zip(texts, o[1], exact):
                u = _ulps(g, ex)
                if not (u <= ULPS) or (g != 0 and ex != 0 and (g < 0) != (ex < 0)):
                    bad.append({"what": "str_to_float is further than a few ulp from the decimal value", "tags": {"op": "str_to_float", "kind": "inaccurate"},
                                "vector": v, "expected": float(ex), "observed": g, "case": {"text": t, "ulps": float(min(u, 10 ** 6))}})
                    break
            # the same encoded text parsed a second time gives the same doubles, and the argument still holds its text
            held = bnp.as_encoded_array(texts)
            again = outcome(lambda: [[float(x) for x in str_to_float(held).tolist()] for _ in range(2)] + [held.tolist()])
            n += 1
            if again != ("ok", [o[1], o[1], texts]):
                bad.append({"what": "str_to_float changed its argument: parsing the same encoded text again differs", "tags": {"op": "str_to_float", "kind": "twice"},
                            "vector": v, "expected": [o[1], texts], "observed": again, "case": {"texts": texts}})
            # single-row calls must give the same doubles as the batch (row independence on the real code)
            singles = outcome(lambda: [float(str_to_float(bnp.as_encoded_array([t]))[0]) for t in texts])
            n += 1
            if singles[0] == "ok" and singles[1] != o[1]:
                bad.append({"what": "str_to_float of a row depends on the other rows of the batch", "tags": {"op": "str_to_float", "kind": "row-dependence"},
                            "vector": v, "expected": singles[1], "observed": o[1], "case": {"texts": texts}})
            # format then parse returns the double unchanged
            xs = np.array([float(e) for e in exact])
            # the formatter alone: the text of a double denotes that double (and no other), alone or in the batch
            ft = outcome(lambda: [float(t) for t in float_to_strings(xs).tolist()] + [float(float_to_strings(xs[k:k + 1]).tolist()[0]) for k in range(len(xs))])
            n += 1
            if ft != ("ok", xs.tolist() * 2):
                bad.append({"what": "the text float_to_strings writes for a double does not denote that double", "tags": {"op": "float-format"},
                            "vector": v, "expected": xs.tolist() * 2, "observed": ft})
            rt = outcome(lambda: [float(x) for x in str_to_float(float_to_strings(xs)).tolist()])
            n += 1
            if rt[0] == "err":
                bad.append({"what": "float_to_strings/str_to_float round trip raised", "tags": {"op": "float-roundtrip", "kind": "raise"},
                            "vector": v, "expected": xs.tolist(), "observed": rt[1]})
            elif rt[1] != xs.tolist():
                worst = max(_ulps(g, Fraction(x)) for g, x in zip(rt[1], xs.tolist()))
                bad.append({"what": "formatting then parsing a double does not return it unchanged",
                            "tags": {"op": "float-roundtrip", "kind": "not-identical", "within_few_ulps": bool(worst <= ULPS)},
                            "vector": v, "expected": xs.tolist(), "observed": rt[1]})
    if mode != "float" and len(batch) > 1:
        pass
    return {"n": n, "nt": nt, "bad": bad}


def run(ctx):
    quick = ctx.tier == "quick"
    invs = ["FormatParseInverse", "ParseCanonical", "Emit"]
    vectors = []
    plans = [("format", {"MaxBatch": 2, "Ks": [0, 1, 2, 9, 14, 15, 16, 17, 18] if quick else list(range(0, 19)), "MaxDigits": 3}),
             ("parse", {"MaxBatch": 2, "Ks": [0], "MaxDigits": 3 if quick else 4}),
             ("optional", {"MaxBatch": 3, "Ks": [0], "MaxDigits": 2}),
             ("longfloat", {"MaxBatch": 2, "Ks": [0], "MaxDigits": 1}),
             ("float", {"MaxBatch": 1 if quick else 2, "Ks": [0], "MaxDigits": 1})]
    if not quick:
        plans.append(("format", {"MaxBatch": 3, "Ks": [0, 2, 15, 18], "MaxDigits": 1}))
    for i, (mode, c) in enumerate(plans):
        if mode == "float" and not quick:
            c = dict(c, MaxBatch=1)
        res = ctx.tlc("MC_C18", tag="MC_C18_%s_%d" % (mode, i), spec="Spec", constants=dict(c, Mode=mode), invariants=invs,
                      properties=["RowsIndependent"], coverage=True)
        ctx.require_actions(res, "MC_C18", ["Add"])
        vectors += res.vectors
    # batches of float texts for the independence clause (pairs sampled from the TLC family; the family itself is exhaustive above)
    fl = [v for v in vectors if v["mode"] == "float"]
    rng = random.Random(ctx.seed + 18)
    for _ in range(300 if quick else 3000):
        a, b, c = rng.choice(fl), rng.choice(fl), rng.choice(fl)
        vectors.append({"mode": "float", "batch": a["batch"] + b["batch"] + c["batch"], "result": a["result"] + b["result"] + c["result"], "joined": []})
    ctx.sample(vectors[10])
    ctx.sample(fl[len(fl) // 2])
    ctx.absorb(core.pmap(check_vector, vectors, chunk=100))
    ctx.exhaustive = True
    return ctx.finish(RULE, assumptions=[
        "'a few units in the last place' is taken as <= %d ulp of the double nearest to the exact decimal value (computed with Fraction)" % ULPS,
        "float texts: 1-3 integer digits, 0-3 fraction digits, exponents 0, 3, 10, 300 with either sign, lower-case 'e'",
    ])


def replay(d):
    print("replay of C18 case:", d.get("what"), d.get("tags"), d.get("case"))
    r = check_vector(d["vector"])
    same = [b for b in r["bad"] if b["tags"]["op"] == d["tags"]["op"]]
    for b in same[:3]:
        print("  disagrees:", b["what"], "expected", str(b["expected"])[:200], "observed", str(b["observed"])[:200])
    if not same:
        print("  agrees now")
    return 1 if same else 0
