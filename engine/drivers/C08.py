"""C08 — interval-set operations equal their per-base definitions.

Binding A: every state explored by TLC on spec/MC_C08.tla (interval collections on a contig of
size S, with the values Intervals.tla assigns to every operation) is replayed into
bionumpy.arithmetics / Geometry and compared for equality.
Binding B: larger random collections are run through the real code, the observed results are
recorded and TLC evaluates the same definitions on them (spec/Trace_C08.tla).
"""
import random

import numpy as np

from .. import core
from ..core import outcome

RULE = ("states of MC_C08 = all sequences of <=NA intervals on a contig of size S (any order, nested, duplicated, "
        "touching) x all sorted disjoint b of <=NB intervals; each state is one replay into bionumpy of every listed "
        "operation; non-trivial = at least two intervals that share an endpoint, nest or overlap (single) or a "
        "non-empty intersection (pair); distinct by (kind, a, b)")


def _iv(rows, strands=None):
    from bionumpy.datatypes import Interval, Bed6
    starts = np.array([r["s"] for r in rows], dtype=int)
    stops = np.array([r["e"] for r in rows], dtype=int)
    chrom = ["chr1"] * len(rows)
    if strands is None:
        return Interval(chrom, starts, stops)
    return Bed6(chrom, starts, stops, ["x"] * len(rows), np.zeros(len(rows), dtype=int), list(strands))


def _iv_strenc(rows):
    from bionumpy.datatypes import Interval
    from bionumpy.encodings.string_encodings import StringEncoding
    enc = StringEncoding(["chr0", "chr1"])
    return Interval(enc.encode(["chr1"] * len(rows)), np.array([r["s"] for r in rows], dtype=int),
                    np.array([r["e"] for r in rows], dtype=int))


def _rows(iv):
    return [{"s": int(s), "e": int(e)} for s, e in zip(np.asarray(iv.start).tolist(), np.asarray(iv.stop).tolist())]


def _nontrivial_single(a):
    for i in range(len(a)):
        for j in range(i + 1, len(a)):
            x, y = a[i], a[j]
            if x["s"] < y["e"] and y["s"] < x["e"]:
                return True
            if x["e"] == y["s"] or y["e"] == x["s"]:
                return True
    return False


def check_vector(v):
    """Replay one TLC state into bionumpy. Returns {"n": calls, "nt": keys, "bad": [...]}."""
    from bionumpy.arithmetics import (get_pileup, get_boolean_mask, merge_intervals, sort_intervals,
                                      count_overlap, intersect, unique_intersect, jaccard, forbes)
    from bionumpy.arithmetics.intervals import extend_to_size, clip
    from bionumpy.genomic_data.geometry import Geometry
    bad = []
    n = 0
    S = v["size"]
    a = v["a"]
    key = "%s|%s|%s" % (v["kind"], a, v.get("b"))

    def cmp(op, exp, got, **tags):
        nonlocal n
        n += 1
        if got != ("ok", exp):
            t = {"op": op}
            t.update(tags)
            bad.append({"what": "%s differs from its per-base definition" % op, "tags": t, "vector": v,
                        "case": {"kind": v["kind"], "size": S, "a": a, "b": v.get("b"), "args": tags},
                        "expected": exp, "observed": got})

    if v["kind"] == "single":
        A = _iv(a)
        cmp("get_pileup", v["pileup"], outcome(lambda: get_pileup(A, S).to_array().tolist()))
        cmp("get_boolean_mask", v["mask"], outcome(lambda: [bool(x) for x in get_boolean_mask(A, S).to_array().tolist()]))
        # an empty interval inserted anywhere covers nothing (MC_C08!EmptyCoversNothing): mask and pile-up are those of a
        for k in range(len(a) + 1):
            for p in sorted({0, S // 2, S}):
                a2 = a[:k] + [{"s": p, "e": p}] + a[k:]
                A2 = _iv(a2)
                cmp("get_boolean_mask[with empty interval]", v["mask"], outcome(lambda: [bool(x) for x in get_boolean_mask(A2, S).to_array().tolist()]), at=k, pos=p)
                cmp("get_pileup[with empty interval]", v["pileup"], outcome(lambda: get_pileup(A2, S).to_array().tolist()), at=k, pos=p)
        # the pile-up by the older sweep of arithmetics/bedgraph.py, and both pile-ups of the collection listed 130 and 40 000 times (PileupOfRepeat)
        from bionumpy.arithmetics.bedgraph import get_pileup as bedgraph_pileup
        if a:
            cmp("bedgraph.get_pileup", v["pileup"], outcome(lambda: np.asarray(bedgraph_pileup(A, S)).tolist()))
            if v.get("_all") or hash(key) % 5 == 0:
                for m in (130, 40000):
                    Am = _iv(a * m)
                    want_m = [x * m for x in v["pileup"]]
                    cmp("get_pileup[collection listed m times]", want_m, outcome(lambda: get_pileup(Am, S).to_array().tolist()), m=m)
                    cmp("bedgraph.get_pileup[collection listed m times]", want_m, outcome(lambda: np.asarray(bedgraph_pileup(Am, S)).tolist()), m=m)
                    cmp("Geometry.get_pileup[collection listed m times]", want_m, outcome(lambda: Geometry({"chr1": S}).get_pileup(Am).to_dict()["chr1"].tolist()), m=m)
        # boolean arrays made by comparing the pile-up (adjacent runs of the pile-up may compare to the same truth value)
        if a:
            for nm_, f_, w_ in ((">0", lambda p_: p_ > 0, [x > 0 for x in v["pileup"]]), (">=2", lambda p_: p_ >= 2, [x >= 2 for x in v["pileup"]]),
                                ("!=1", lambda p_: p_ != 1, [x != 1 for x in v["pileup"]]), ("<2", lambda p_: p_ < 2, [x < 2 for x in v["pileup"]])):
                cmp("(get_pileup %s).to_array" % nm_, w_, outcome(lambda: [bool(x) for x in np.asarray(f_(get_pileup(A, S)).to_array()).tolist()]))
                cmp("(Geometry.get_pileup %s).to_dict" % nm_, w_, outcome(lambda: [bool(x) for x in f_(Geometry({"chr1": S}).get_pileup(A)).to_dict()["chr1"].tolist()]))
        cmp("sort_intervals", v["sorted"], outcome(lambda: _rows(sort_intervals(A))))
        cmp("sort_intervals[StringEncoding]", v["sorted"], outcome(lambda: _rows(sort_intervals(_iv_strenc(a)))))
        g = Geometry({"chr1": S})
        cmp("Geometry.get_pileup", v["pileup"], outcome(lambda: g.get_pileup(A).to_dict()["chr1"].tolist()))
        cmp("Geometry.get_mask", v["mask"], outcome(lambda: [bool(x) for x in g.get_mask(A).to_dict()["chr1"].tolist()]))
        cmp("Geometry.sort", v["sorted"], outcome(lambda: _rows(g.sort(A))))
        if a:
            # records with further columns: the sorted table holds the SAME records (every row keeps its name, score and strand)
            def sort_full():
                from bionumpy.datatypes import Bed6
                t6 = Bed6(["chr1"] * len(a), np.array([r["s"] for r in a], dtype=int), np.array([r["e"] for r in a], dtype=int), ["n%d" % i for i in range(len(a))],
                          np.arange(len(a)), ["+-"[i % 2] for i in range(len(a))])
                out = g.sort(t6)
                recs = sorted(zip(out.start.tolist(), out.stop.tolist(), out.name.tolist(), out.score.tolist(), out.strand.tolist()))
                return _rows(out), [list(r) for r in recs]
            want6 = sorted([r["s"], r["e"], "n%d" % i, i, "+-"[i % 2]] for i, r in enumerate(a))
            cmp("Geometry.sort[records with further columns]", [v["sorted"], want6], outcome(lambda: list(sort_full())))
        srt = _iv(v["sorted"])
        for k, exp in enumerate(v["merge"]):
            d = k
            cmp("merge_intervals", exp, outcome(lambda: _rows(merge_intervals(srt, d))), distance=d)
            if d == 0 or d == 1:
                cmp("Geometry.merge_intervals", exp, outcome(lambda: _rows(g.merge_intervals(srt, d))), distance=d)
        if a:
            for k in range(4):
                strands = v["strands"][k]
                B6 = _iv(a, strands)
                for li, exp in enumerate(v["extend"][k]):
                    L = li + 1
                    cmp("extend_to_size", exp, outcome(lambda: _rows(extend_to_size(B6, L, S))), length=L, strand_pattern=k + 1)
                    if k == 2:
                        cmp("Geometry.extend_to_size", exp, outcome(lambda: _rows(g.extend_to_size(B6, L))), length=L, strand_pattern=k + 1)
            # the same rows on three contigs of sizes S, S+1, S+2 in ONE call: every fragment is clipped at the end of its own contig
            from bionumpy.datatypes import Bed6
            names3 = ["c1", "c2", "c3"]
            st3 = v["strands"][2]
            T3 = Bed6([nm for nm in names3 for _ in a], np.array([r["s"] for _ in names3 for r in a], dtype=int), np.array([r["e"] for _ in names3 for r in a], dtype=int),
                      ["x"] * (3 * len(a)), np.zeros(3 * len(a), dtype=int), list(st3) * 3)
            per_row_sizes = np.array([S + j for j in range(3) for _ in a], dtype=int)
            for li in range(S):
                exp3 = [r for j in range(3) for r in v["extend3"][j][li]]
                cmp("extend_to_size[three contigs]", exp3, outcome(lambda: _rows(extend_to_size(T3, li + 1, per_row_sizes))), length=li + 1, strand_pattern=3)
                cmp("Geometry.extend_to_size[three contigs]", exp3, outcome(lambda: _rows(Geometry({nm: S + j for j, nm in enumerate(names3)}).extend_to_size(T3, li + 1))), length=li + 1, strand_pattern=3)
            C = _iv(v["clipin"])
            cmp("clip", v["clip"], outcome(lambda: _rows(clip(C, S))))
            cmp("Geometry.clip", v["clip"], outcome(lambda: _rows(g.clip(C))))
        nt = [key] if _nontrivial_single(a) else []
    else:
        A, B = _iv(a), _iv(v["b"])
        cmp("unique_intersect", v["unique"], outcome(lambda: _rows(unique_intersect(A, B, S))))
        # the similarity measures are defined per base (masks), so the first set may hold nested, duplicated or overlapping intervals
        sizes = {"chr1": S}
        jn, jd = v["jaccard"]
        if jd != 0 and a:
            cmp("jaccard", jn / jd, outcome(lambda: float(jaccard(sizes, A, B))), a_disjoint=v["apre"])
            cmp("Geometry.jaccard", jn / jd, outcome(lambda: float(Geometry(sizes).jaccard(A, B))), a_disjoint=v["apre"])
        fn, fd = v["forbes"]
        if fd != 0 and a:
            cmp("forbes", fn / fd, outcome(lambda: float(forbes(sizes, A, B))), a_disjoint=v["apre"])
        # three contigs: a and b on the first, a alone on the second, nothing on the third (the measures are sums over all contigs)
        g3 = v["genome3"]
        sizes3 = {"chr1": S, "chr2": S + 1, "chr3": S + 2}
        if a and v["b"] and (v.get("_all") or hash(key) % 3 == 0):
            from bionumpy.datatypes import Interval as _Iv
            A3 = _Iv(["chr1"] * len(a) + ["chr2"] * len(a), np.array([x["s"] for x in a] * 2, dtype=int), np.array([x["e"] for x in a] * 2, dtype=int))
            if g3["jaccard"][1] != 0:
                cmp("jaccard[three contigs]", g3["jaccard"][0] / g3["jaccard"][1], outcome(lambda: float(jaccard(sizes3, A3, B))), a_disjoint=v["apre"])
                cmp("Geometry.jaccard[three contigs]", g3["jaccard"][0] / g3["jaccard"][1], outcome(lambda: float(Geometry(sizes3).jaccard(A3, B))), a_disjoint=v["apre"])
            if g3["forbes"][1] != 0:
                cmp("forbes[three contigs]", g3["forbes"][0] / g3["forbes"][1], outcome(lambda: float(forbes(sizes3, A3, B))), a_disjoint=v["apre"])
            # sorting / merging over the genome with an empty interval at the first base of the second and third contig: it stays on its contig
            E3 = _Iv(["chr3", "chr2"] + ["chr1"] * len(a), np.array([0, 0] + [x["s"] for x in a], dtype=int), np.array([0, 0] + [x["e"] for x in a], dtype=int))
            want_s = [["chr1", x["s"], x["e"]] for x in sorted(a, key=lambda x: (x["s"], x["e"]))] + [["chr2", 0, 0], ["chr3", 0, 0]]
            cmp("Geometry.sort[three contigs, empty intervals at contig starts]", want_s,
                outcome(lambda: (lambda t_: [[c_, int(s_), int(e_)] for c_, s_, e_ in zip([c.to_string() if hasattr(c, "to_string") else str(c) for c in t_.chromosome], t_.start.tolist(), t_.stop.tolist())])(Geometry(sizes3).sort(E3))))
            # the same sets handed over as per-contig lookups (name -> table) whose keys come in another order than the contigs
            def look(t, order):
                names = t.chromosome.tolist()
                return {nm: t[np.array([c == nm for c in names], dtype=bool)] if len(t) else t for nm in order}
            for oa, ob in ((("chr3", "chr1", "chr2"), ("chr1", "chr2", "chr3")), (("chr2", "chr1", "chr3"), ("chr3", "chr2", "chr1")), (("chr1", "chr2", "chr3"), None)):
                LA, LB = look(A3, oa), (look(B, ob) if ob else B)
                if g3["jaccard"][1] != 0:
                    cmp("jaccard[three contigs, lookups]", g3["jaccard"][0] / g3["jaccard"][1], outcome(lambda: float(jaccard(sizes3, LA, LB))), a_disjoint=v["apre"], keys=[oa, ob])
                if g3["forbes"][1] != 0:
                    cmp("forbes[three contigs, lookups]", g3["forbes"][0] / g3["forbes"][1], outcome(lambda: float(forbes(sizes3, LA, LB))), a_disjoint=v["apre"], keys=[oa, ob])
        if v["apre"]:
            cmp("count_overlap", v["overlap"], outcome(lambda: int(count_overlap(A, B))))
            if a:
                cmp("intersect", v["intersect"], outcome(lambda: get_pileup(intersect(A, B), S).to_array().tolist()))
            sizes = {"chr1": S}
            # all pairs of three sets (the diagonal is not a pair and is not compared)
            JA = v["jaccardAll"]
            if a and v["third"] and all(JA[i][j][1] != 0 for i in range(3) for j in range(3)):
                want = [[JA[i][j][0] / JA[i][j][1] if i != j else None for j in range(3)] for i in range(3)]

                def all_vs_all():
                    m = Geometry(sizes).jaccard_all_vs_all([A, B, _iv(v["third"])])
                    return [[float(m[i, j]) if i != j else None for j in range(3)] for i in range(3)]
                cmp("Geometry.jaccard_all_vs_all", want, outcome(all_vs_all))
        nt = [key] if (v["apre"] and v["overlap"] > 0) else []
    return {"n": n, "nt": nt, "bad": bad}


# ------------------------------------------------------------------------------------------------
# binding B: recorded executions on larger inputs, validated by TLC against the same definitions
# ------------------------------------------------------------------------------------------------

def record_trace(args):
    """Run the real code on a random larger case and record inputs and observed outputs."""
    from bionumpy.arithmetics import (get_pileup, get_boolean_mask, merge_intervals, sort_intervals,
                                      count_overlap, unique_intersect)
    tid, seed = args
    rng = random.Random(seed)
    S = rng.randint(8, 40)
    n = rng.randint(0, 12)

    def rand_ivs(n):
        out = []
        for _ in range(n):
            s = rng.randint(0, S - 1)
            e = rng.randint(s + 1, min(S, s + rng.choice([1, 2, 3, 8, S])))
            out.append({"s": s, "e": e})
        return out

    def disjoint(n):
        pts = sorted(rng.sample(range(0, S + 1), min(2 * n, S + 1) // 2 * 2))
        return [{"s": pts[i], "e": pts[i + 1]} for i in range(0, len(pts), 2)]

    a = rand_ivs(n)
    d = rng.randint(0, 4)
    A = _iv(a)
    ev = {"tid": tid, "size": S, "a": a, "d": d}
    ev["pileup"] = outcome(lambda: get_pileup(A, S).to_array().tolist())
    ev["mask"] = outcome(lambda: [bool(x) for x in get_boolean_mask(A, S).to_array().tolist()])
    ev["sorted"] = outcome(lambda: _rows(sort_intervals(A)))
    srt = _iv(sorted(a, key=lambda r: (r["s"], r["e"])))
    ev["merge"] = outcome(lambda: _rows(merge_intervals(srt, d)))
    pa, pb = disjoint(rng.randint(0, 5)), disjoint(rng.randint(0, 5))
    ev["pa"], ev["pb"] = pa, pb
    PA, PB = _iv(pa), _iv(pb)
    ev["overlap"] = outcome(lambda: int(count_overlap(PA, PB)))
    ev["unique"] = outcome(lambda: _rows(unique_intersect(A, PB, S)))
    errs = [k for k in ("pileup", "mask", "sorted", "merge", "overlap", "unique") if ev[k][0] != "ok"]
    rec = {k: (ev[k][1] if isinstance(ev[k], tuple) else ev[k]) for k in ev}
    rec["errors"] = errs
    return rec


def validate_traces(ctx, traces):
    """TLC decides whether each recorded execution is allowed by Intervals.tla."""
    import json
    import os
    bad = []
    ok_traces = []
    for t in traces:
        if t["errors"]:
            for op in t["errors"]:
                bad.append({"what": "%s raised on a valid input" % op, "tags": {"op": op, "binding": "B"},
                            "case": {"size": t["size"], "a": t["a"], "d": t["d"], "pa": t["pa"], "pb": t["pb"]},
                            "expected": "a value", "observed": t[op]})
        else:
            ok_traces.append(t)
    path = os.path.join(ctx.work, "c08_traces.json")
    with open(path, "w") as f:
        json.dump(ok_traces, f)
    res = ctx.tlc("Trace_C08", workers=1, env={"TRACE_FILE": path}, init="Init", next_="Next",
                  invariants=[], postcondition="Post")
    rejected = {}
    for line in res.printed:
        # <<"REJECT", tid, "clause">>
        parts = line.strip("<>").split(",")
        if parts[0].strip().strip('"') == "REJECT":
            rejected.setdefault(int(parts[1]), []).append(parts[2].strip().strip('"'))
    accepted = None
    for line in res.printed:
        if line.startswith('<<"ACCEPTED"'):
            accepted = int(line.strip("<>").split(",")[1])
    if accepted is None or accepted + len(rejected) != len(ok_traces):
        raise core.MachineryFailure("trace validation bookkeeping mismatch: accepted=%s rejected=%s of %d; %s"
                                    % (accepted, len(rejected), len(ok_traces), res.out_path))
    by_tid = {t["tid"]: t for t in ok_traces}
    for tid, clauses in rejected.items():
        t = by_tid[tid]
        for c in clauses:
            bad.append({"what": "recorded %s is not the value the specification defines" % c,
                        "tags": {"op": c, "binding": "B"},
                        "case": {"size": t["size"], "a": t["a"], "d": t["d"], "pa": t["pa"], "pb": t["pb"]},
                        "trace": t, "expected": "Intervals.tla!%s" % c, "observed": t.get(c)})
    return bad, len(ok_traces)


def run(ctx):
    quick = ctx.tier == "quick"
    consts = dict(S=4, NA=3, NB=2, LO=1, HI=2) if quick else dict(S=6, NA=3, NB=1, LO=1, HI=2)
    invs = ["SumIsLength", "MaskIsMergeMask", "MergeIdempotent", "MergeDisjoint", "SortIsPermutation",
            "OverlapSymmetric", "ExtendInside", "EmptyCoversNothing", "PileupOfRepeat", "Emit"]
    res = ctx.tlc("MC_C08", spec="Spec", constants=consts, invariants=invs, properties=["PileupMonotone"],
                  coverage=True)
    ctx.require_actions(res, "MC_C08", ["AddA", "AddB"])
    vectors = res.vectors
    if not quick:
        res2 = ctx.tlc("MC_C08", tag="MC_C08_pairs", spec="Spec", constants=dict(S=5, NA=2, NB=3, LO=1, HI=2),
                       invariants=invs, properties=["PileupMonotone"])
        vectors = vectors + [v for v in res2.vectors if v["kind"] == "pair"]
    for v in vectors[:2] + vectors[-2:]:
        ctx.sample({k: v[k] for k in v if k in ("kind", "size", "a", "b", "pileup", "overlap", "jaccard")})
    ctx.absorb(core.pmap(check_vector, vectors, chunk=40))
    # binding B
    ntr = 300 if quick else 3000
    traces = core.pmap(record_trace, [(i, ctx.seed * 1000003 + i) for i in range(ntr)], chunk=50)
    bad, nval = validate_traces(ctx, traces)
    for b in bad:
        ctx.disagree(b)
    ctx.count(evaluations=6 * len(traces), traces=nval,
              nontrivial_keys=["B|%d" % t["tid"] for t in traces if _nontrivial_single(t["a"])])
    ctx.sample({"binding": "B", "trace": {k: traces[0][k] for k in ("size", "a", "d", "pileup", "merge")}})
    ctx.exhaustive = True
    return ctx.finish(RULE, assumptions=[
        "merge_intervals is given intervals sorted by start (documented precondition); count_overlap, intersect, "
        "count_overlap and intersect are given sets that are each sorted and internally disjoint (documented precondition); jaccard and forbes any first set",
        "intervals are non-empty (start < stop) and, except for clip inputs, inside the contig",
        "Jaccard/Forbes are only compared where the defining denominator is non-zero",
    ])


def replay(d):
    print("replay of C08 case:", d.get("what"), d.get("tags"))
    if "vector" in d:
        r = check_vector(d["vector"])
        same = [b for b in r["bad"] if b["tags"] == d.get("tags")]
        for b in same:
            print("  disagrees:", b["tags"], "expected", b["expected"], "observed", b["observed"])
        if not same:
            print("  agrees now")
        return 1 if same else 0
    ctx = core.Ctx("C08", "quick", 0)
    bad, _ = validate_traces(ctx, [d["trace"]])
    for b in bad:
        print("  rejected:", b["what"], b["observed"])
    import shutil
    shutil.rmtree(ctx.work, ignore_errors=True)
    return 1 if bad else 0
