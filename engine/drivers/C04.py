"""C04 — unmodified records and fields are written back byte-for-byte.

Same specification as C05 (spec/Table.tla): BytesL0 is the meaning (an untouched record is its raw
line; with replaced columns every other field keeps its original text), BytesL1 the mechanism
(shared buffer, row positions, contiguity flag, compaction) and TLC checks PassThrough/ContigSound on
every program.  Binding A replays every program that ends in a write on lazily read tables of
NON-canonical sources (leading zeros, '+5', '1e3', '+name' lines, optional SAM tags, VCF sample
columns, CRLF) and compares the written bytes with the specification's.
"""
import hashlib
import json

from .. import core, tablekit as tk, tablerun as tr
from .C05 import SELS
from ..core import outcome

FORMATS = ["bed6", "bed12", "bed3", "narrowpeak", "vcf", "sam", "bedgraph", "fastq", "fasta2", "vcfgt"]
RULE = ("one case = one program of table operations ending in a write (TLC state of MC_C05) x format x variant (non-canonical "
        "LF / CRLF) x field pair on a lazily read table; non-trivial = the program selects, concatenates or replaces before "
        "writing; distinct by (program, format, variant, pair)")
_K_CACHE = {}


def field_texts(fmt, data):
    """written bytes -> per record the texts of the fields of the entry type (line ends and columns that are
    not fields of the entry type are not part of it)"""
    s = tk.SOURCES[fmt]
    lines = [l[:-1] if l.endswith("\r") else l for l in data.decode("latin-1").split("\n")]
    if lines and lines[-1] == "":
        lines = lines[:-1]
    nf = len(s["fields"])
    out = []
    if s["kind"] == "delim":
        for l in lines:
            cols = l.split("\t")
            if s["fields"][-1][1] == "l":
                cols = cols[:nf - 1] + ["\t".join(cols[nf - 1:])]
            out.append(cols[:nf])
    elif s["kind"] == "fastq":
        for i in range(0, len(lines) - 3, 4):
            out.append([lines[i][1:], lines[i + 1], lines[i + 3], "marker:" + lines[i][:1] + lines[i + 2][:1]])
    else:
        for i in range(0, len(lines) - 1, 2):
            out.append([lines[i][1:], lines[i + 1], "marker:" + lines[i][:1]])
    return out


def check_vector(v):
    prog = tr.annotate_replace_counters(v["prog"])
    obs = v["obs"]
    if obs.get("kind") != "bytes":
        return {"n": 0, "nt": [], "bad": [], "traces": 0}
    h = int(hashlib.sha1(json.dumps(prog, sort_keys=True).encode()).hexdigest(), 16)
    nf = v.get("nformats", 3)
    fmts = list(dict.fromkeys(FORMATS[(h + 2 * i) % len(FORMATS)] for i in range(nf)))
    has_replace = any(p["op"] in ("replace", "assign") for p in prog)
    has_concat = any(p["op"] == "concat" for p in prog)
    bad, n, nt = [], 0, []
    for fmt in fmts:
        s = tk.SOURCES[fmt]
        if s.get("passthrough_only") and has_replace:
            continue
        pair = s["pairs"][h % len(s["pairs"])]
        for variant in ("noncanon", "crlf"):
            src = tr.Source(fmt, variant)
            K = None
            if prog[0]["op"] == "read_chunks":
                key = (fmt, variant, prog[0]["split"])
                if key not in _K_CACHE:
                    _K_CACHE[key] = tr.find_chunk_size(src, prog[0]["split"], False)
                K = _K_CACHE[key]
                if K is None:
                    continue
            for twin in ((False, True) if any(p["op"] == "concat" and p["u"] == 1 for p in prog) and prog[0]["op"] == "read" else (False,)):
                _pool, outs = tr.run_program(src, pair, prog, True, K, twin=twin)
                n += 1
                nsteps = len(prog) - 1
                tags = {"format": fmt, "variant": variant, "modified": has_replace, "chunked": prog[0]["op"] == "read_chunks", "second_reader": twin}
                case = {"format": fmt, "variant": variant, "pair": pair, "prog": prog}
                if len(outs) < nsteps or any(o[0] == "err" for o in outs[:nsteps - 1]):
                    continue        # an earlier step failed: judged by C05 on that prefix
                if any(p["op"] in ("index", "concat", "replace") for p in prog[1:-1]):
                    nt.append("%s|%s|%s|%s" % (fmt, variant, pair, json.dumps(prog, sort_keys=True)))
                o = outs[-1]
                exp = tr.expected_last(src, pair, prog, obs, lazy=True)
                if o[0] == "err":
                    bad.append({"what": "writing a table read from file raised", "tags": dict(tags, kind="write-raises"),
                                "vector": v, "case": case, "expected": repr(exp)[:300], "observed": o[1]})
                elif (o[1] != exp) if not (has_replace or has_concat) else (field_texts(fmt, o[1]) != field_texts(fmt, exp)):
                    kind = "unmodified-bytes-differ" if not has_replace else "unreplaced-field-text-changed"
                    bad.append({"what": "written bytes are not the original bytes of the selected records" if not has_replace else
                                "after replacing a column, other fields no longer carry their original text",
                                "tags": dict(tags, kind=kind), "vector": v, "case": case,
                                "expected": repr(exp)[:400], "observed": repr(o[1])[:400]})
    return {"n": n, "nt": nt, "bad": bad, "traces": 1}


def check_big(job):
    """Tables of many records (the writer and the buffers work in pieces above some sizes): the records of a small non-canonical source
    repeated; what a table writes is the row bytes of its rows in order (Table.tla!BytesL0 is defined row by row), so the expectation is
    the source's record bytes repeated."""
    import bionumpy as bnp
    fmt, n = job
    data, raws, hdr = tk.source_bytes(fmt, "noncanon")
    reps = -(-n // len(raws))
    body = (b"".join(raws) * reps)
    recs = (raws * reps)[:n]
    body = b"".join(recs)
    bad, calls = [], 0
    t = outcome(lambda: tk.open_table(fmt, data[:hdr] + body, True).read())
    if t[0] == "err" or len(t[1]) != n:
        return {"n": 1, "nt": [], "bad": [{"what": "a %s file of %d records cannot be read lazily" % (fmt, n), "tags": {"format": fmt, "kind": "big-read", "n": n}, "vector": {"fmt": fmt, "n": n},
                                           "expected": n, "observed": str(t)[:200]}]}
    for name, sel, want in (("whole", lambda x: x, body), ("reversed", lambda x: x[::-1], b"".join(recs[::-1])), ("every other", lambda x: x[::2], b"".join(recs[::2]))):
        o = outcome(lambda: tk.write_bytes(fmt, sel(t[1])))
        calls += 1
        got = o[1] if o[0] == "ok" else None
        if o[0] != "ok" or got != want:
            bad.append({"what": "a table of %d unmodified records (%s) is not written as its record bytes in order" % (n, name),
                        "tags": {"format": fmt, "kind": "big-write", "n": n, "selection": name, "multiple_of_65536": n % 65536 == 0},
                        "vector": {"fmt": fmt, "n": n}, "expected": "%d bytes" % len(want), "observed": ("%d bytes" % len(got)) if got is not None else str(o)[:200]})
    return {"n": calls, "nt": ["big|%s|%d" % (fmt, n)], "bad": bad}


def run(ctx):
    quick = ctx.tier == "quick"
    invs = ["Equivalent", "Aligned", "PassThrough", "ContigSound", "Emit"]
    consts = {"NRec": tk.NREC, "Fields": ["f1", "f2"], "MaxPool": 3, "AsBuilt": False, "Sels": SELS, "Ops": ["len", "tolist", "write", "get", "replace", "assign", "index", "concat"]}
    vectors = []
    for chunked in (False, True):
        depth = (4 if not chunked else 3) if quick else (5 if not chunked else 4)
        sels = SELS if (not chunked or not quick) else ["tail", "mask", "lmask", "list", "rev"]
        res = ctx.tlc("MC_C05", tag="MC_C04_%s" % ("chunked" if chunked else "whole"), spec="Spec",
                      constants=dict(consts, MaxDepth=depth, Chunked=chunked, Sels=sels), invariants=invs, properties=["Frame"],
                      coverage=True)
        ctx.require_actions(res, "MC_C05", ["Index_", "Replace_", "Concat_", "Write_"])
        vectors += [v for v in res.vectors if v["obs"].get("kind") == "bytes"]
    # deeper programs over a reduced alphabet: two writes with a selection / replacement in between (a write of a
    # selection must not disturb what its parent, or a table derived from it, writes later)
    res = ctx.tlc("MC_C05", tag="MC_C04_deep", spec="Spec",
                  constants=dict(consts, MaxDepth=5 if quick else 6, Chunked=False, Sels=["tail", "step"],
                                 Ops=["write", "get", "replace", "assign", "index"]), invariants=invs, properties=["Frame"])
    deep = [v for v in res.vectors if v["obs"].get("kind") == "bytes" and len(v["prog"]) >= 5
            and sum(1 for p in v["prog"] if p["op"] == "write") >= 2]
    vectors += deep
    # long histories on few tables (TLC simulation mode, seeded): a selection that is written modified, then unmodified, then modified
    # again, and the like - depths the exhaustive runs cannot reach
    sim = ctx.tlc("MC_C05", tag="MC_C04_sim", spec="Spec", workers=1, simulate="num=%d" % (300 if quick else 3000), depth=9, seed=ctx.seed + 17,
                  constants=dict(consts, MaxDepth=9, MaxPool=5, Chunked=False, Sels=["tail", "list", "lmask"], Ops=["write", "replace", "index"]),
                  invariants=invs, properties=["Frame"])
    seen = set()
    for v in sim.vectors:
        k = json.dumps(v["prog"], sort_keys=True)
        if v["obs"].get("kind") == "bytes" and len(v["prog"]) >= 7 and sum(1 for p in v["prog"] if p["op"] == "write") >= 3 and k not in seen:
            seen.add(k)
            vectors.append(v)
    ctx.notes.append("simulation mode: %d distinct long programs (>= 6 operations, >= 3 writes) replayed" % len(seen))
    if not quick:
        for v in vectors:
            v["nformats"] = 5
    ctx.sample(vectors[3])
    ctx.sample(vectors[len(vectors) // 2])
    ctx.absorb(core.pmap(check_vector, vectors, chunk=15))
    # many records: around the piece sizes of the writer (multiples of 65536 and their neighbours)
    sizes = [65535, 65536, 65537, 131072, 131073, 196608] if quick else [65535, 65536, 65537, 131071, 131072, 131073, 196608, 262144, 300000]
    ctx.absorb(core.pmap(check_big, [(f, n_) for f in (("bed6",) if quick else ("bed6", "vcf", "fastq")) for n_ in sizes], chunk=1))
    ctx.exhaustive = True
    return ctx.finish(RULE, assumptions=[
        "programs made of selections only are compared byte for byte; once a program concatenates or replaces a column the "
        "property speaks of the text of every unreplaced field of the entry type, so records are compared field by field "
        "(line terminators, FASTQ '+name' lines and columns beyond the entry type are then not prescribed)",
        "VCF files with sample columns are only driven through unmodified writes (trailing columns are not fields of VCFEntry)",
        "BAM pass-through is covered by C16",
    ])


def replay(d):
    print("replay of C04 case:", d.get("what"), d.get("tags"))
    print("  program:", d["case"]["prog"], "format", d["case"]["format"], d["case"]["variant"], "pair", d["case"]["pair"])
    r = check_vector(dict(d["vector"], nformats=len(FORMATS)))
    same = [b for b in r["bad"] if b["case"]["format"] == d["case"]["format"] and b["case"]["variant"] == d["case"]["variant"]]
    for b in same:
        print("  disagrees:", b["what"], "\n    expected", b["expected"], "\n    observed", b["observed"])
    if not same:
        print("  agrees now")
    return 1 if same else 0
