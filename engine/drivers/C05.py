"""C05 — lazy and eager reading are observationally equivalent.

spec/Table.tla: the lazy table (getter over a shared buffer, cache, overlay) against the eager ADT;
TLC explores every program of table operations up to a depth (len, get field, 8 kinds of NumPy-style
selection, concatenate, replace, tolist, write; whole and chunked read), checks Equivalent / Aligned /
PassThrough / ContigSound / Frame on the specification and prints every program with the observable
the ADT assigns to its last operation.  Binding A replays every program on lazily AND eagerly read
real tables of canonical files of each lazily-read format and compares: lazy == eager == specification
(values and written bytes), or both fail.
"""
import hashlib
import json

from .. import core, tablekit as tk, tablerun as tr

FORMATS = ["bed6", "bed12", "bed3", "narrowpeak", "vcf", "sam", "bedgraph", "fastq", "fasta2"]
SELS = ["all", "tail", "step", "mask", "lmask", "list", "empty", "rev", "head"]
RULE = ("one case = one program of table operations (TLC state of MC_C05) x format x field pair, replayed lazily and eagerly; "
        "non-trivial = the program contains a selection, concatenation or replacement before its last observation; distinct by "
        "(program, format, pair)")
_K_CACHE = {}


def _formats_for(prog, n):
    h = int(hashlib.sha1(json.dumps(prog, sort_keys=True).encode()).hexdigest(), 16)
    return [FORMATS[(h + i * 3) % len(FORMATS)] for i in range(n)], h


def check_vector(v, nformats=2, variant0="canon"):
    prog = tr.annotate_replace_counters(v["prog"])
    obs = v["obs"]
    if len(prog) < 2:
        return {"n": 0, "nt": [], "bad": []}
    fmts, h = _formats_for(prog, v.get("nformats", nformats))
    bad, n, nt = [], 0, []
    env_skipped = []
    for fmt in dict.fromkeys(fmts):
        pairs = tk.SOURCES[fmt]["pairs"]
        pair = pairs[h % len(pairs)]
        # every other program without a write reads the file whose fields are spelt non-canonically (leading zeros, '+', the '.' placeholder):
        # what lazy and eager tables show must agree there too (the written bytes of untouched non-canonical fields are C04's subject)
        variant = variant0
        if variant0 == "canon" and (h >> 5) % 2 == 0 and not any(p["op"] == "write" for p in prog):
            variant = "noncanon"
        src = tr.Source(fmt, variant)
        K = None
        if prog[0]["op"] == "read_chunks":
            key = (fmt, variant, prog[0]["split"])
            if key not in _K_CACHE:
                _K_CACHE[key] = tr.find_chunk_size(src, prog[0]["split"], False)
            K = _K_CACHE[key]
            if K is None:
                continue
        res = {}
        for lazy in (True, False):
            _pool, outs = tr.run_program(src, pair, prog, lazy, K)
            res[lazy] = outs
            n += 1
        L, Ee = res[True], res[False]
        nsteps = len(prog) - 1
        rd_l, rd_e = [bool(x) and x[0][0] == "err" and x[0][1].startswith("read:") for x in (L, Ee)]
        if rd_l != rd_e:
            bad.append({"what": "reading the file (whole or in chunks) fails or cuts differently in one mode only",
                        "tags": {"format": fmt, "op": prog[0]["op"], "chunked": prog[0]["op"] == "read_chunks", "variant": variant, "kind": "read-in-%s-only" % ("eager" if rd_l else "lazy")},
                        "vector": v, "case": {"format": fmt, "pair": pair, "prog": prog, "variant": variant}, "expected": "the same chunks in both modes", "observed": {"lazy": _short(L[0]), "eager": _short(Ee[0])}})
            continue
        tags = {"format": fmt, "op": prog[-1]["op"], "chunked": prog[0]["op"] == "read_chunks", "variant": variant}
        case = {"format": fmt, "pair": pair, "prog": prog, "variant": variant}
        # an earlier step failed in some mode: that prefix is judged by its own vector
        if any(o[0] == "err" for o in L[:nsteps - 1]) or any(o[0] == "err" for o in Ee[:nsteps - 1]) \
                or len(L) < nsteps or len(Ee) < nsteps:
            continue
        lo, eo = L[-1], Ee[-1]
        if any(p["op"] in ("index", "concat", "replace") for p in prog[1:-1]) or prog[-1]["op"] in ("index", "concat", "replace"):
            nt.append("%s|%s|%s" % (fmt, pair, json.dumps(prog, sort_keys=True)))
        if lo[0] == "err" and eo[0] == "err":
            continue                                     # "or fails in both"
        if prog[-1]["op"] == "row" and any(o[0] == "err" and ENV_BROKEN in o[1] for o in (lo, eo)):
            # single-row access on view-shaped ragged columns is broken by the installed numpy/npstructures pair (DESIGN 5)
            env_skipped.append(1)
            continue
        if lo[0] != eo[0]:
            bad.append({"what": "operation %s in one mode only" % ("fails" if True else ""),
                        "tags": dict(tags, kind="fails-in-%s-only" % ("lazy" if lo[0] == "err" else "eager")),
                        "vector": v, "case": case, "expected": "same outcome in both modes", "observed": {"lazy": _short(lo), "eager": _short(eo)}})
            continue
        if lo[1] != eo[1]:
            bad.append({"what": "lazy and eager tables give different %s" % obs["kind"], "tags": dict(tags, kind="lazy!=eager"),
                        "vector": v, "case": case, "expected": _short(eo), "observed": _short(lo)})
            continue
        exp = tr.expected_last(src, pair, prog, obs, lazy=False)
        if exp is not None and lo[1] != exp:
            bad.append({"what": "both modes agree but differ from the table ADT of the specification (%s)" % obs["kind"],
                        "tags": dict(tags, kind="both!=spec"), "vector": v, "case": case, "expected": _short(("ok", exp)), "observed": _short(lo)})
    return {"n": n, "nt": nt, "bad": bad, "env_skipped": len(env_skipped)}


ENV_BROKEN = "only 0-dimensional arrays can be converted to Python scalars"


def _short(o):
    s = repr(o[1])
    return [o[0], s if len(s) < 400 else s[:400] + "..."]


def run(ctx):
    quick = ctx.tier == "quick"
    invs = ["Equivalent", "Aligned", "PassThrough", "ContigSound", "Emit"]
    consts = {"NRec": tk.NREC, "Fields": ["f1", "f2"], "MaxPool": 3, "AsBuilt": False, "Sels": SELS, "Ops": ["len", "tolist", "write", "get", "replace", "assign", "index", "concat", "row"]}
    vectors = []
    for chunked in (False, True):
        depth = (4 if not chunked else 3) if quick else (5 if not chunked else 4)
        sels = SELS if (not chunked or not quick) else ["tail", "mask", "lmask", "list", "rev"]
        res = ctx.tlc("MC_C05", tag="MC_C05_%s" % ("chunked" if chunked else "whole"), spec="Spec",
                      constants=dict(consts, MaxDepth=depth, Chunked=chunked, Sels=sels), invariants=invs, properties=["Frame"],
                      coverage=True)
        ctx.require_actions(res, "MC_C05", ["Len_", "Get_", "Index_", "Replace_", "Concat_", "ToRows_", "Write_", "Row_"])
        vectors += res.vectors
    # a deeper run over the operations that change or look at columns: the same field assigned or replaced more than once with
    # conversions to rows in between
    res = ctx.tlc("MC_C05", tag="MC_C05_deep", spec="Spec",
                  constants=dict(consts, MaxDepth=5 if quick else 6, Chunked=False, MaxPool=2, Sels=["tail"], Ops=["tolist", "get", "assign", "replace"]),
                  invariants=invs, properties=["Frame"])
    vectors += res.vectors
    r = core.run_tlc("MC_C05", ctx.work, tag="MC_C05_asbuilt", spec="Spec", expect_ok=False,
                     constants=dict(consts, MaxDepth=4, Chunked=False, AsBuilt=True), invariants=["Equivalent"])
    if not any("Equivalent is violated" in e for e in r.errors):
        raise core.MachineryFailure("as-built lazy concatenate (keys of the first operand only) no longer refuted by TLC")
    ctx.notes.append("AsBuilt=TRUE instance (np.concatenate takes cache/overlay keys from the first operand): TLC refutes Equivalent")
    if not quick:
        # three formats per program for the shorter programs, two for the longest ones (the bulk of the states): the thorough tier stays near half an hour
        for v in vectors:
            v["nformats"] = 3 if len(v["prog"]) <= 4 else 2
    ctx.sample(vectors[5])
    ctx.sample(vectors[len(vectors) // 2])
    results = core.pmap(check_vector, vectors, chunk=25)
    ctx.absorb(results)
    nrow = sum(1 for v in vectors if v["prog"][-1]["op"] == "row")
    ctx.notes.append("single-row observations t[j]: %d programs; %d (program, format) cases skipped because the installed numpy/npstructures pair cannot index one row "
                     "of a view-shaped ragged column (raises TypeError 'only 0-dimensional arrays ...' in at least one mode)" % (nrow, sum(r.get("env_skipped", 0) for r in results if r)))
    ctx.exhaustive = True
    return ctx.finish(RULE, assumptions=[
        "source files are canonically spelled (so that pass-through and re-serialised bytes coincide; non-canonical text is C04's subject)",
        "replaced columns are NumPy / encoded arrays of the column's type",
        "a step that fails in both modes is accepted ('or fails in both'); a failed earlier step ends the program",
        "BAM is handled by C16; GTF is never read lazily",
        "t[j] (one row, Python and NumPy integers) is compared only where the installed numpy/npstructures pair can do it (environment exclusion, DESIGN 5)",
    ])


def replay(d):
    print("replay of C05 case:", d.get("what"), d.get("tags"))
    print("  program:", d["case"]["prog"], "format", d["case"]["format"], "pair", d["case"]["pair"])
    r = check_vector(dict(d["vector"], nformats=len(FORMATS)))
    same = [b for b in r["bad"] if b["case"]["format"] == d["case"]["format"]]
    for b in same:
        print("  disagrees:", b["what"], "expected", b["expected"], "observed", b["observed"])
    if not same:
        print("  agrees now")
    return 1 if same else 0
