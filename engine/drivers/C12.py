"""C12 — per-chromosome streaming never silently drops or misattributes entries.

spec/Synchronise.tla models the per-contig generator (iter_chromosomes, with its one-group look-ahead
and the *consumer's number of pulls* as part of the model) and SynchedStream.  TLC enumerates every
genome of <=4 contigs x every sequence of distinct contig groups (all subsets in all orders, an
unknown name, an ignored name) x both consumers, checks NoSilentDrop / NoSpuriousError / PrefixRight,
and prints every terminal behaviour.  Binding A replays each behaviour through the real pipelines of
the matching consumer kind, under several chunkings of the entries, and compares with L0
(completed => every group in its own slot; incompatible => error).
"""
import json

import numpy as np

from .. import core
from ..core import outcome

RULE = ("one case = (genome, sequence of contig groups, consumer kind, pipeline, chunking) replayed into bionumpy; "
        "non-trivial = the groups are incompatible with the genome (wrong order / unknown name) or include an ignored "
        "name or leave a contig without data; distinct by the full tuple")
SPAN = 10


# texts with the same hash (sum of code x 129^i modulo 2^31 - 1, util/ascii_hash.py) as the contig name they are listed under
COLLIDE = {"a": "aFCZFM", "chr1": "cI6IIl"}


def _entries(genome, groups):
    """Each group gets 1-2 entries whose coordinates identify the ORIGIN group (start // SPAN)."""
    rows = []
    for k, name in enumerate(groups):
        origin = genome.index(name) if name in genome else len(genome) + (0 if "_" in name else 1)
        for e in range(1 + (k % 3)):          # 1, 2 or 3 entries: with one entry per chunk a contig then spans three chunks
            s = SPAN * origin + 2 * e + 1
            rows.append((name, s, s + 1))
    return rows


def _chunkings(n):
    cuts = [[]]
    if n > 1:
        cuts.append(list(range(1, n)))          # every entry its own chunk
        cuts.append([n // 2])
        if n > 2:
            cuts.append([1, n - 1])
    return cuts


def _stream(rows, cuts, cls):
    from bionumpy.streams import NpDataclassStream
    from bionumpy.datatypes import Interval, BedGraph, Bed6
    ch = [r[0] for r in rows]
    st = np.array([r[1] for r in rows], dtype=int)
    en = np.array([r[2] for r in rows], dtype=int)
    if cls == "interval":
        t = Interval(ch, st, en)
        dc = Interval
    elif cls == "bed6":
        t = Bed6(ch, st, en, ["."] * len(rows), [0] * len(rows), ["+-"[k % 2] for k in range(len(rows))])
        dc = Bed6
    else:
        t = BedGraph(ch, st, en, np.ones(len(rows)))
        dc = BedGraph
    b = [0] + cuts + [len(rows)]
    chunks = [t[x:y] for x, y in zip(b[:-1], b[1:])]
    return NpDataclassStream(iter(chunks), dataclass=dc)


def _slots_from_rows(genome, groups, rows_by_slot):
    """rows_by_slot: list (per genome contig) of lists of starts delivered in that slot."""
    want = {}
    for (name, s, _e) in _entries(genome, groups):
        want.setdefault(name, []).append(s)
    out = []
    for i, name in enumerate(genome):
        got = sorted(rows_by_slot[i])
        if not got:
            out.append("empty")
        elif got == sorted(want.get(name, [])):
            out.append(name)
        else:
            out.append("corrupt:%s" % got)
    return out


# pipelines: name -> (mechanism, consumer kind, runner(genome_obj, genome names, stream factory) -> rows_by_slot)
def _p_mask_get_data(g, names, mk):
    import bionumpy as bnp
    t = bnp.compute(g.get_intervals(mk("interval")).get_mask().get_data())
    by = [[] for _ in names]
    for c, s in zip(t.chromosome.tolist(), t.start.tolist()):
        by[names.index(c)].append(int(s))
    return by


def _p_track_get_data(g, names, mk):
    import bionumpy as bnp
    t = bnp.compute(g.get_track(mk("bedgraph")).get_data())
    by = [[] for _ in names]
    for c, s, v in zip(t.chromosome.tolist(), t.start.tolist(), t.value.tolist()):
        if v != 0:
            by[names.index(c)].append(int(s))
    return by


def _p_pileup_get_data(g, names, mk):
    import bionumpy as bnp
    t = bnp.compute(g.get_intervals(mk("interval")).get_pileup().get_data())
    by = [[] for _ in names]
    for c, s, v in zip(t.chromosome.tolist(), t.start.tolist(), t.value.tolist()):
        if v != 0:
            by[names.index(c)].append(int(s))
    return by


def _p_fields(g, names, mk):
    import bionumpy as bnp
    gi = g.get_intervals(mk("interval"))
    ch, st = bnp.compute((gi.chromosome, gi.start))
    by = [[] for _ in names]
    for c, s in zip(ch.tolist(), np.asarray(st).tolist()):
        by[names.index(c)].append(int(s))
    return by


def _p_fields_stranded(g, names, mk):
    """stranded intervals over a stream: every entry still reaches its contig, with its own strand"""
    import bionumpy as bnp
    gi = g.get_intervals(mk("bed6"), stranded=True)
    ch, st, sd = bnp.compute((gi.chromosome, gi.start, gi.strand))
    by = [[] for _ in names]
    k = 0
    for c, s, d in zip(ch.tolist(), np.asarray(st).tolist(), sd.to_string()):
        by[names.index(c)].append(int(s) if d in "+-" else -1)
    return by


def _p_pileup_sum(g, names, mk):
    """reduction: only the total is observable; report it as a pseudo-slot check"""
    import bionumpy as bnp
    total = bnp.compute(g.get_intervals(mk("interval")).get_pileup().sum())
    return ("total", int(total))


PIPELINES = {
    "mask.get_data": ("iter_chromosomes", "exact", _p_mask_get_data),
    "track.get_data": ("iter_chromosomes", "exact", _p_track_get_data),
    "pileup.get_data": ("iter_chromosomes", "exact", _p_pileup_get_data),
    "fields": ("iter_chromosomes", "exhaust", _p_fields),
    "fields.stranded": ("iter_chromosomes", "exhaust", _p_fields_stranded),
    "pileup.sum": ("iter_chromosomes", "exhaust", _p_pileup_sum),
}


_HIT = []


def _hit_class():
    """user-defined entry type whose contig column is a ragged encoded string column (as BAM entries have)"""
    if not _HIT:
        from bionumpy.bnpdataclass import bnpdataclass

        @bnpdataclass
        class Hit:
            chromosome: str
            position: int
        _HIT.append(Hit)
    return _HIT[0]


def _ragged_stream(rows, cuts):
    from bionumpy.streams import NpDataclassStream
    Hit = _hit_class()
    b = [0] + cuts + [len(rows)]
    # chunks are built fresh (slicing a ragged-column table and grouping it is broken in this numpy/npstructures pair)
    chunks = [Hit([r[0] for r in rows[x:y]], [r[1] for r in rows[x:y]]) for x, y in zip(b[:-1], b[1:])]
    return NpDataclassStream(iter(chunks), dataclass=Hit)


def _multistream_ragged(names, sizes, rows, cuts):
    from bionumpy.streams.multistream import MultiStream
    ms = MultiStream(dict(zip(names, sizes)), hits=_ragged_stream(rows, cuts))
    return [[int(s) for s in t.position.tolist()] for t in ms.hits]


_LINK = []


def _multistream_mate(names, sizes, rows, cuts):
    """a table with two contig columns, streamed and grouped on the SECOND one (set_grouping_attribute): each contig gets the
    rows whose mate contig it is; the first contig column (constant) plays no part."""
    from bionumpy.streams.multistream import MultiStream
    from bionumpy.streams import NpDataclassStream
    if not _LINK:
        from bionumpy.bnpdataclass import bnpdataclass
        from bionumpy.datatypes import SequenceID

        @bnpdataclass
        class Link:
            chromosome: SequenceID
            position: int
            mate_chromosome: SequenceID
            mate_position: int
        _LINK.append(Link)
    Link = _LINK[0]
    b = [0] + cuts + [len(rows)]
    chunks = [Link([names[0]] * (y - x), list(range(x, y)), [r[0] for r in rows[x:y]], [r[1] for r in rows[x:y]])
              for x, y in zip(b[:-1], b[1:])]
    ms = MultiStream(dict(zip(names, sizes)), links=NpDataclassStream(iter(chunks), dataclass=Link))
    ms.links.set_grouping_attribute("mate_chromosome")
    return [[int(s) for s in t.mate_position.tolist()] for t in ms.links]


def _multistream_keyfunc(names, sizes, mk):
    """the data spells the contig names differently (a prefix); a key function maps them to the names of the contig list"""
    from bionumpy.streams.multistream import MultiStream
    from bionumpy.streams import NpDataclassStream
    from bionumpy.datatypes import Interval
    inner = mk("interval")
    chunks = [Interval(["x_" + str(c) for c in t.chromosome.tolist()], t.start, t.stop) for t in inner]
    ms = MultiStream(dict(zip(names, sizes)), iv=NpDataclassStream(iter(chunks), dataclass=Interval))
    ms.iv.set_key_function(lambda name: str(name)[2:])
    return [[int(s) for s in t.start.tolist()] for t in ms.iv]


def _iter_chromosomes_ragged(g, rows, cuts):
    ctx = g.get_genome_context()
    return [[int(s) for s in t.position.tolist()] for t in ctx.iter_chromosomes(_ragged_stream(rows, cuts), _hit_class())]


def _encoded_stream(g, rows, cuts):
    """Interval chunks whose chromosome column is already encoded with the genome's own string encoding (what
    Genome.get_intervals(...).get_data() hands out and GenomicIntervals.as_stream() groups)."""
    import bionumpy as bnp
    from bionumpy.streams import NpDataclassStream
    from bionumpy.datatypes import Interval
    enc = g.get_genome_context().encoding
    b = [0] + cuts + [len(rows)]
    chunks = [Interval(bnp.as_encoded_array([r[0] for r in rows[x:y]], enc), np.array([r[1] for r in rows[x:y]], dtype=int),
                       np.array([r[2] for r in rows[x:y]], dtype=int)) for x, y in zip(b[:-1], b[1:])]
    return NpDataclassStream(iter(chunks), dataclass=Interval)


def _iter_chromosomes_encoded(g, rows, cuts):
    from bionumpy.datatypes import Interval
    ctx = g.get_genome_context()
    return [[int(s) for s in t.start.tolist()] for t in ctx.iter_chromosomes(_encoded_stream(g, rows, cuts), Interval)]


def _multistream_encoded(g, names, sizes, rows, cuts):
    from bionumpy.streams.multistream import MultiStream
    ms = MultiStream(dict(zip(names, sizes)), iv=_encoded_stream(g, rows, cuts))
    return [[int(s) for s in t.start.tolist()] for t in ms.iv]


def _multistream(names, sizes, mk):
    from bionumpy.streams.multistream import MultiStream
    ms = MultiStream(dict(zip(names, sizes)), iv=mk("interval"))
    by = []
    for t in ms.iv:
        by.append([int(s) for s in t.start.tolist()])
    return by


def _jaccard(names, sizes, mk):
    """similarity measures go through MultiStream: a completed call must have used every entry."""
    from bionumpy.arithmetics.similarity_measures import get_contingency_table
    from bionumpy.streams.multistream import MultiStream
    ms = MultiStream(dict(zip(names, sizes)), a=mk("interval"), b=mk("interval"))
    ((a, b), (c, d)) = get_contingency_table(ms.a, ms.b, ms.lengths)
    return ("total", int(a))


def check_vector(v):
    import bionumpy as bnp
    from bionumpy.genomic_data.genome_context import ignore_underscores
    genome = v["genome"]
    groups = v["groups"]
    ignored = v.get("ignored", "")
    rows = _entries(genome, groups)
    size = SPAN * (len(genome) + 3)
    bad, n, nt = [], 0, []
    compatible = v["compatible"]
    want_slots = v["slots"]
    n_valid = sum(1 for r in rows if r[0] in genome)
    key = json.dumps([genome, groups, v["consumer"], v["mech"], bool(v.get("derived"))])
    ignored2 = v.get("ignored2", "")
    if (not compatible) or "empty" in want_slots or ignored in groups or (ignored2 and ignored2 in groups):
        nt.append(key)

    def judge(pipe, cuts, o):
        tags = {"pipeline": pipe, "mech": v["mech"], "consumer": v["consumer"], "compatible": compatible, "derived": bool(v.get("derived")),
                "underscore_included": bool(v.get("underscore_included"))}
        case = {"genome": genome, "groups": groups, "cuts": cuts, "pipeline": pipe}
        if o[0] == "err":
            if compatible:
                bad.append({"what": "error raised although the data is compatible with the genome", "tags": dict(tags, kind="spurious-error"),
                            "vector": v, "case": case, "expected": want_slots, "observed": o[1]})
            return
        res = o[1]
        if not compatible:
            bad.append({"what": "evaluation completed although the contig order/names are incompatible: entries dropped or misplaced",
                        "tags": dict(tags, kind="silent-completion"), "vector": v, "case": case,
                        "expected": "an error", "observed": res if isinstance(res, tuple) else _slots_from_rows(genome, groups, res)})
            return
        if isinstance(res, tuple):
            if res[1] != n_valid:
                bad.append({"what": "reduction over the per-contig stream does not account for every entry",
                            "tags": dict(tags, kind="wrong-total"), "vector": v, "case": case, "expected": n_valid, "observed": res[1]})
            return
        got = _slots_from_rows(genome, groups, res) if len(res) == len(genome) else "wrong number of slots: %d" % len(res)
        if got != want_slots:
            bad.append({"what": "contig slots do not hold exactly their own entries", "tags": dict(tags, kind="wrong-slots"),
                        "vector": v, "case": case, "expected": want_slots, "observed": got})

    if v["mech"] == "iter_chromosomes":
        sizes = {name: size for name in genome}
        if ignored:
            sizes[ignored] = size
            if ignored2:
                sizes[ignored2] = size
            g = bnp.Genome.from_dict(sizes, filter_function=ignore_underscores)
        else:
            g = bnp.Genome.from_dict(sizes)
        gder = None
        if v.get("derived"):
            # Derive: a second genome with more ignored names is made from this one; this one keeps its own (DeriveFrame), and the derived
            # one ignores the parent's names as well as the new one (DerivedKeepsIgnored)
            g.with_ignored_added([genome[-1], "x"])
            g.get_genome_context().with_ignored_added([genome[-1], "x"])
            gder = g.with_ignored_added(np.array(["x"]))          # the names given as a NumPy array
        for pipe, (_m, cons, fn) in PIPELINES.items():
            if cons != v["consumer"]:
                continue
            for cuts in _chunkings(len(rows)):
                if not rows:
                    continue
                n += 1
                judge(pipe, cuts, outcome(fn, g, genome, lambda cls: _stream(rows, cuts, cls)))
        if "x" in groups and genome[0] in COLLIDE and rows:
            # the unknown name spelt as a text whose hash equals that of the first contig's name (the contig column is looked up by a hash of
            # the name): it is still a name the genome does not have, and must be refused like any other
            rows2 = [(COLLIDE[genome[0]] if r[0] == "x" else r[0], r[1], r[2]) for r in rows]
            for pipe, (_m, cons, fn) in PIPELINES.items():
                if cons != v["consumer"]:
                    continue
                cuts = _chunkings(len(rows2))[-1]
                n += 1
                judge(pipe + "[unknown name with a contig's hash]", cuts, outcome(fn, g, genome, lambda cls: _stream(rows2, cuts, cls)))
            if v["consumer"] == "exhaust":
                # ... also when the contig column is presented to the genome's own encoding first (as an in-memory table is)
                n += 1
                judge("iter_chromosomes[genome-encoded, unknown name with a contig's hash]", cuts, outcome(_iter_chromosomes_encoded, g, rows2, cuts))
        if gder is not None and rows and compatible and "x" not in groups:
            # data without the newly ignored name through the derived genome: what the parent gives (its own ignored name is still dropped)
            for pipe, (_m, cons, fn) in PIPELINES.items():
                if cons != v["consumer"] or pipe not in ("mask.get_data", "fields"):
                    continue
                cuts = _chunkings(len(rows))[-1]
                n += 1
                judge(pipe + "[derived genome]", cuts, outcome(fn, gder, genome, lambda cls: _stream(rows, cuts, cls)))
        if v["consumer"] == "exact" and rows and compatible and not ignored and len(genome) >= 2 and not v.get("derived"):
            # a streamed track tied to this genome indexed by intervals tied to a SEPARATELY built genome: the same contigs in the same
            # order give each interval the values of its own contig; in the opposite order the pair is refused (ReversedIsIncompatible)
            for order, must_raise in ((list(genome), False), (list(genome)[::-1], True)):
                def cross():
                    from bionumpy.datatypes import Interval
                    g2 = bnp.Genome.from_dict({nm: size for nm in order})
                    track = g.get_track(_stream(rows, _chunkings(len(rows))[-1], "bedgraph"))
                    ivs = g2.get_intervals(Interval([r[0] for r in rows], np.array([r[1] for r in rows]), np.array([r[2] for r in rows])))
                    return [[float(x) for x in np.asarray(r_.to_array() if hasattr(r_, "to_array") else r_).tolist()] for r_ in bnp.compute(track[ivs])]
                o = outcome(cross)
                n += 1
                if must_raise and o[0] == "ok":
                    bad.append({"what": "a streamed track was indexed by intervals of a genome that lists the contigs in another order, without an error",
                                "tags": {"pipeline": "track[intervals of another genome]", "mech": v["mech"], "consumer": v["consumer"], "compatible": True, "derived": False,
                                         "underscore_included": bool(v.get("underscore_included")), "kind": "silent-completion"},
                                "vector": v, "case": {"genome": genome, "other": order}, "expected": "an error", "observed": o[1]})
                elif not must_raise and o != ("ok", [[1.0] for _ in rows]):
                    bad.append({"what": "a streamed track indexed by intervals of an equal, separately built genome does not give each interval its own values",
                                "tags": {"pipeline": "track[intervals of another genome]", "mech": v["mech"], "consumer": v["consumer"], "compatible": True, "derived": False,
                                         "underscore_included": bool(v.get("underscore_included")), "kind": "wrong-slots"},
                                "vector": v, "case": {"genome": genome, "other": order}, "expected": [[1.0] for _ in rows], "observed": o})
        if v["consumer"] == "exhaust" and rows:
            for cuts in _chunkings(len(rows)):
                n += 1
                judge("iter_chromosomes[ragged]", cuts, outcome(_iter_chromosomes_ragged, g, rows, cuts))
                if all(r[0] in sizes for r in rows):      # an unknown name cannot be encoded at all
                    n += 1
                    judge("iter_chromosomes[genome-encoded]", cuts, outcome(_iter_chromosomes_encoded, g, rows, cuts))
    else:
        for cuts in _chunkings(len(rows)):
            if not rows:
                continue
            n += 2
            judge("MultiStream", cuts, outcome(_multistream, genome, [size] * len(genome), lambda cls: _stream(rows, cuts, cls)))
            judge("contingency_table", cuts, outcome(_jaccard, genome, [size] * len(genome), lambda cls: _stream(rows, cuts, cls)))
            n += 1
            judge("MultiStream[ragged]", cuts, outcome(_multistream_ragged, genome, [size] * len(genome), rows, cuts))
            n += 1
            judge("MultiStream[key function]", cuts, outcome(_multistream_keyfunc, genome, [size] * len(genome), lambda cls: _stream(rows, cuts, cls)))
            n += 1
            judge("MultiStream[grouped on a second contig column]", cuts, outcome(_multistream_mate, genome, [size] * len(genome), rows, cuts))
            if all(r[0] in genome for r in rows):
                n += 1
                judge("MultiStream[genome-encoded]", cuts, outcome(_multistream_encoded, bnp.Genome.from_dict({name: size for name in genome}), genome, [size] * len(genome), rows, cuts))
    return {"n": n, "nt": nt, "bad": bad}


GENOMES = {"G1": ["a"], "G2": ["a", "b"], "G3": ["a", "b", "c"], "G4": ["a", "b", "c", "d"],
           "G3u": ["a", "b_u", "c"], "G3p": ["chr1", "chr11", "chr2"], "G3r": ["a", "b", "aa"]}


def run(ctx):
    quick = ctx.tier == "quick"
    invs = ["NoSilentDrop", "NoSpuriousError", "PrefixRight", "TypeOK", "ReversedIsIncompatible", "DerivedKeepsIgnored", "Emit"]
    vectors = []
    plan = [("G1", "i_g", ""), ("G2", "i_g", ""), ("G3", "i_g", ""), ("G3u", "", ""), ("G3p", "", ""), ("G3r", "", ""),
            ("G2", "i_g", "j_g")] + ([] if quick else [("G4", "i_g", ""), ("G3", "i_g", "j_g")])        # two ignored names: they can follow each other in the data
    for gname, ign, ign2 in plan:
        for mech in ("iter_chromosomes", "synched_stream"):
            if mech == "synched_stream" and gname in ("G3u",):
                continue
            if ign2 and mech == "synched_stream":
                continue
            res = ctx.tlc("MC_C12", tag="MC_C12_%s_%s%s" % (gname, mech, "_two_ignored" if ign2 else ""), spec="Spec",
                          constants={"Genome": "<- " + gname, "Unknown": "x", "Ignored": ign, "Ignored2": ign2, "AsBuilt": False, "Mechanism": mech},
                          invariants=invs, properties=["DeriveFrame"], coverage=True)
            ctx.require_actions(res, "MC_C12", ["Prime", "Step", "Finish", "Derive"] if mech == "iter_chromosomes" else ["SStep"])
            for v in res.vectors:
                v["ignored"] = ign if mech == "iter_chromosomes" else ""
                v["ignored2"] = ign2 if mech == "iter_chromosomes" else ""
                v["underscore_included"] = gname == "G3u"
            vectors += res.vectors
    # regression witness: the as-built generator (check after the yield) must be refuted by TLC
    r = core.run_tlc("MC_C12", ctx.work, tag="MC_C12_asbuilt", spec="Spec", expect_ok=False,
                     constants={"Genome": "<- G3", "Unknown": "x", "Ignored": "i_g", "Ignored2": "", "AsBuilt": True, "Mechanism": "iter_chromosomes"},
                     invariants=["NoSilentDrop"])
    if not any("NoSilentDrop is violated" in e for e in r.errors):
        raise core.MachineryFailure("as-built look-ahead (check after the yield) no longer refuted by TLC")
    ctx.notes.append("AsBuilt=TRUE instance (order check after the yield): TLC refutes NoSilentDrop, as expected")
    ctx.sample(vectors[1])
    ctx.sample(vectors[len(vectors) // 2])
    ctx.absorb(core.pmap(check_vector, vectors, chunk=10))
    ctx.exhaustive = True
    return ctx.finish(RULE, assumptions=[
        "entries of one contig are contiguous in the data (precondition stated in the property)",
        "pipelines driven: get_intervals(stream).get_mask()/get_pileup() + get_data(), get_track(stream).get_data(), field nodes, "
        "pile-up sum (iter_chromosomes); MultiStream and the contingency table behind jaccard/forbes (SynchedStream)",
        "an ignored name is a contig listed in the genome with '_' in its name under the default from_file filter",
    ])


def replay(d):
    print("replay of C12 case:", d.get("what"), d.get("tags"), d.get("case"))
    r = check_vector(d["vector"])
    same = [b for b in r["bad"] if b["tags"].get("pipeline") == d["tags"].get("pipeline")]
    for b in same[:3]:
        print("  disagrees:", b["what"], "expected", b["expected"], "observed", b["observed"])
    if not same:
        print("  agrees now")
    return 1 if same else 0
