"""C13 — sliding-window sequence functions are row-local and match their definitions.

spec/Windows.tla defines k-mers (as their base-|A| digits), minimisers, string matching, integer motif
scores and k-mer counts per row; MC_C13 grows a ragged collection letter by letter so that every list
of <=NRows rows of <=MaxLen letters is a state, checks row locality / window counts, and prints each
state with all values for every window 1..W.  Binding A replays every state on five alphabets (the
bit-packed 4-letter path and the generic path).  Binding B records calls on larger random inputs
(k up to 31) and lets TLC evaluate the same definitions (Trace_C13).
"""
import json
import os
import random

import numpy as np

from .. import core
from ..core import outcome

RULE = ("A: one case = (ragged list state of MC_C13, alphabet, letter mapping, function, window) ; B: one recorded call on random rows; "
        "non-trivial = some row is shorter than, equal to or one longer than the window, or the list has an empty row; distinct by full case")

ALPHABETS = [("ACGT", (0, 3)), ("ACGT", (2, 1)), ("ACTG", (1, 2)), ("ACG", (0, 2)), ("ACGTN", (4, 1)),
             ("ACDEFGHIKLMNPQRSTVWY*", (5, 20)),
             ("=ACMGRSVTWYHKDBN", (4, 9))]        # sixteen letters (the BAM base codes): a power of two above four


def _enc(alpha):
    import bionumpy as bnp
    from bionumpy.encodings.alphabet_encoding import AlphabetEncoding
    if alpha == "ACGT":
        return bnp.DNAEncoding
    return AlphabetEncoding(alpha)


def _digits(code, k, A):
    code = int(code)
    if code < 0:
        code += 1 << 64
    out = []
    for _ in range(k):
        out.append(code % A)
        code //= A
    return out


def _seqs(rows, alpha, mp):
    import bionumpy as bnp
    texts = ["".join(alpha[mp[c]] for c in r) for r in rows]
    return bnp.as_encoded_array(texts, _enc(alpha)), texts


def check_vector(v):
    import bionumpy as bnp
    from bionumpy.sequence import get_kmers, get_minimizers, count_kmers
    from bionumpy.sequence.position_weight_matrix import PWM, get_motif_scores
    rows = v["rows"]
    W = len(v["kmers"])
    bad, n, nt = [], 0, []
    total = sum(len(r) for r in rows)
    h = hash(json.dumps(rows)) % len(ALPHABETS)
    for ai, view in [(h, False), ((h + 1) % len(ALPHABETS), False), (0, False), (h, True), (0, True)]:
        alpha, mp = ALPHABETS[ai]
        A = len(alpha)
        seqs, texts = _seqs(rows, alpha, mp)
        if view:
            # the same collection presented as a lazily re-ordered view of another ragged array (rows reversed twice)
            if len(rows) < 2:
                continue
            o = outcome(lambda: _seqs(rows[::-1], alpha, mp)[0][::-1])
            if o[0] == "err":
                continue
            seqs = o[1]
        mapw = lambda win: [mp[c] for c in win]
        for k in range(1, W + 1):
            if total < k:
                continue            # precondition of the property: total number of letters >= the window
            tags = {"alphabet": alpha, "window": k, "view": view}
            key = "%s|%d|%s" % (alpha, k, rows)
            if any(len(r) in (k - 1, k, k + 1) or len(r) == 0 for r in rows):
                nt.append(key)
            expk = [[mapw(w) for w in row] for row in v["kmers"][k - 1]]
            o = outcome(lambda: [[_digits(c, k, A) for c in row] for row in get_kmers(seqs, k).raw().tolist()])
            n += 1
            if o != ("ok", expk):
                bad.append({"what": "get_kmers differs from the windows of each row", "tags": dict(tags, op="get_kmers"),
                            "vector": v, "case": {"texts": texts, "k": k}, "expected": expk, "observed": o})
            else:
                exptxt = [",".join("".join(alpha[d] for d in w) for w in row) for row in expk]
                o = outcome(lambda: get_kmers(seqs, k).tolist())
                n += 1
                if o != ("ok", exptxt):
                    bad.append({"what": "k-mer codes do not render back to the window's text", "tags": dict(tags, op="kmer.to_string"),
                                "vector": v, "case": {"texts": texts, "k": k}, "expected": exptxt, "observed": o})
            # counts
            expc = {}
            for km, c in v["counts"][k - 1]:
                expc[tuple(mapw(km))] = c

            def counts():
                ec = count_kmers(seqs, k)
                out = {}
                for code, c in enumerate(np.asarray(ec.counts).ravel().tolist()):
                    if c:
                        out[tuple(_digits(code, k, A))] = int(c)
                return out
            if A ** k <= 5000:
                o = outcome(counts)
                n += 1
                if o != ("ok", expc):
                    bad.append({"what": "count_kmers differs from the number of windows per k-mer", "tags": dict(tags, op="count_kmers"),
                                "vector": v, "case": {"texts": texts, "k": k}, "expected": str(expc), "observed": str(o)[:300]})
            if A ** k <= 5000 and expc:
                # the read-out paths of the counts (by label, as a dictionary, per row) and the way back from k-mer text to its code
                from bionumpy.encodings.kmer_encodings import KmerEncoding
                lab = lambda km: "".join(alpha[d] for d in km)

                def readout():
                    ec = count_kmers(seqs, k)
                    d_ = {str(kk): int(vv) for kk, vv in ec.as_dict().items() if int(vv)}
                    by_label = {lab(km): int(ec[lab(km)]) for km in expc}
                    labs = [lab(km) for km in expc]
                    from bionumpy.sequence.count_encoded import EncodedCounts
                    twice = ec + ec
                    stacked = EncodedCounts.vstack([ec, twice])
                    more = {"some": int(ec.get_count_for_label(labs[:2])), "all": int(ec.get_count_for_label(labs)),
                            "twice": {l_: int(twice[l_]) for l_ in labs}, "stacked": {l_: [int(x) for x in np.asarray(stacked[l_]).tolist()] for l_ in labs},
                            "untouched": {l_: int(ec[l_]) for l_ in labs}}
                    return d_, by_label, more
                o = outcome(readout)
                n += 1
                wl = {lab(km): c for km, c in expc.items()}
                wlabs = list(wl)
                wmore = {"some": sum(wl[l_] for l_ in wlabs[:2]), "all": sum(wl.values()), "twice": {l_: 2 * c for l_, c in wl.items()},
                         "stacked": {l_: [c, 2 * c] for l_, c in wl.items()}, "untouched": wl}
                if o != ("ok", (wl, wl, wmore)):
                    bad.append({"what": "k-mer counts read out by label / as a dictionary differ from the counts", "tags": dict(tags, op="count_kmers-readout"),
                                "vector": v, "case": {"texts": texts, "k": k}, "expected": str(wl), "observed": str(o)[:300]})
                if not view and len(rows) >= 2 and all(len(r) >= k for r in rows):
                    def per_row():
                        ec = count_kmers(seqs, k, axis=-1)
                        d_ = {str(kk): [int(x) for x in np.asarray(vv).tolist()] for kk, vv in ec.as_dict().items() if np.any(vv)}
                        m_ = [[int(x) for x in row] for row in np.asarray(ec.counts).tolist()]
                        pr = np.asarray(ec.proportions.data)
                        for j in range(len(rows)):
                            tot = sum(m_[j])
                            for q, c_ in enumerate(m_[j]):
                                if abs(float(pr[j][q]) - (c_ / tot if tot else 0.0)) > 1e-12:
                                    return "proportions of row %d are not its counts over its own total" % j, [float(x) for x in pr[j]], m_[j]
                        return d_, {(j, lab(km)): m_[j][ec.alphabet.index(lab(km))] for j in range(len(rows)) for km in expc}
                    rc = [{tuple(mapw(km)): c for km, c in row} for row in v["rowcounts"][k - 1]]
                    wd = {lab(km): [rc[j].get(km, 0) for j in range(len(rows))] for km in expc}
                    wm = {(j, lab(km)): rc[j].get(km, 0) for j in range(len(rows)) for km in expc}
                    o = outcome(per_row)
                    n += 1
                    if o != ("ok", (wd, wm)):
                        bad.append({"what": "per-row k-mer counts (axis=-1) read as a matrix / as a dictionary differ from the counts of each row", "tags": dict(tags, op="count_kmers-per-row"),
                                    "vector": v, "case": {"texts": texts, "k": k}, "expected": str(wd), "observed": str(o)[:300]})
                # the most common k-mers: labels with their own counts, counts in non-increasing order (ties in any order)
                def common():
                    mc = count_kmers(seqs, k).most_common(2)
                    return [[str(l_), int(c_)] for l_, c_ in zip(mc.alphabet, np.asarray(mc.counts).tolist())]
                o = outcome(common)
                n += 1
                top = sorted(wl.values(), reverse=True)[:2]
                if o[0] != "ok" or [c_ for _l, c_ in o[1]][:len(top)] != top or any(wl.get(l_, 0) != c_ for l_, c_ in o[1]):
                    bad.append({"what": "most_common k-mers are not labels with their own counts in non-increasing order", "tags": dict(tags, op="count_kmers-most_common"),
                                "vector": v, "case": {"texts": texts, "k": k}, "expected": str(top), "observed": str(o)[:300]})
                o = outcome(lambda: [_digits(c, k, A) for c in np.atleast_1d(bnp.as_encoded_array([lab(km) for km in expc], KmerEncoding(_enc(alpha), k)).raw()).tolist()])
                n += 1
                if o != ("ok", [list(km) for km in expc]):
                    bad.append({"what": "k-mer texts encoded as a list do not get the code of their letters", "tags": dict(tags, op="kmer-text-to-code"),
                                "vector": v, "case": {"kmers": [lab(km) for km in expc], "k": k}, "expected": [list(km) for km in expc], "observed": str(o)[:300]})
            # the same collection repeated until it holds more than a million windows (MC_C13!CountsOfRepeat: m times the counts)
            nwin = sum(expc.values())
            if v.get("_big") and ai == 0 and not view and k == 2 and nwin >= 3:
                from bionumpy.encoded_array import EncodedArray, EncodedRaggedArray
                m = 1000000 // nwin + 2
                while (m * nwin) % 1000000 == 0:
                    m += 1

                def bigcounts():
                    flat = np.tile(np.asarray(seqs.ravel().raw()), m)
                    big = EncodedRaggedArray(EncodedArray(flat, seqs.encoding), np.tile(np.asarray(seqs.lengths), m))
                    ec = count_kmers(big, k)
                    return {tuple(_digits(code, k, A)): int(c) for code, c in enumerate(np.asarray(ec.counts).ravel().tolist()) if c}
                o = outcome(bigcounts)
                n += 1
                if o != ("ok", {km: m * c for km, c in expc.items()}):
                    bad.append({"what": "count_kmers of the collection repeated %d times is not %d times its counts" % (m, m), "tags": dict(tags, op="count_kmers-repeated"),
                                "vector": v, "case": {"texts": texts, "k": k, "repeats": m}, "expected": str({km: m * c for km, c in expc.items()}), "observed": str(o)[:300]})
            # matching
            pat = "".join(alpha[mp[c]] for c in v["pats"][k - 1])
            o = outcome(lambda: [[bool(x) for x in row] for row in bnp.match_string(seqs, bnp.as_encoded_array(pat, _enc(alpha))).tolist()])
            n += 1
            if o != ("ok", v["match"][k - 1]):
                bad.append({"what": "match_string differs from window equality", "tags": dict(tags, op="match_string"),
                            "vector": v, "case": {"texts": texts, "pattern": pat}, "expected": v["match"][k - 1], "observed": o})
            # motif scores with an integer matrix
            mat = np.zeros((A, k))
            for l in (0, 1):
                mat[mp[l], :] = v["mats"][k - 1][l]
            o = outcome(lambda: [[float(x) for x in row] for row in get_motif_scores(seqs, PWM(mat, alpha)).tolist()])
            n += 1
            exps = [[float(x) for x in row] for row in v["scores"][k - 1]]
            if o != ("ok", exps):
                bad.append({"what": "get_motif_scores differs from the per-window sum of matrix entries", "tags": dict(tags, op="get_motif_scores"),
                            "vector": v, "case": {"texts": texts, "matrix": mat.tolist()}, "expected": exps, "observed": o})
            # the score of one window at a time (PWM.calculate_score) is the entry of get_motif_scores for that window
            def single_scores():
                pw = PWM(mat, alpha)
                return [[float(pw.calculate_score(bnp.as_encoded_array(t_[i:i + k], _enc(alpha)))) for i in range(len(t_) - k + 1)] for t_ in texts]
            if not view:
                o = outcome(single_scores)
                n += 1
                if o != ("ok", exps):
                    bad.append({"what": "PWM.calculate_score of a window differs from the sum of matrix entries", "tags": dict(tags, op="PWM.calculate_score"),
                                "vector": v, "case": {"texts": texts, "matrix": mat.tolist()}, "expected": exps, "observed": str(o)[:300]})
            if k >= 3:
                mat0 = np.zeros((A, k))
                for l in (0, 1):
                    mat0[mp[l], :] = v["mats0"][k - 1][l]
                o = outcome(lambda: [[float(x) for x in row] for row in get_motif_scores(seqs, PWM(mat0, alpha)).tolist()])
                n += 1
                exps0 = [[float(x) for x in row] for row in v["scores0"][k - 1]]
                if o != ("ok", exps0):
                    bad.append({"what": "motif scores with a neutral position differ from the sum of the matrix entries under the window", "tags": dict(tags, op="get_motif_scores[neutral column]"),
                                "vector": v, "case": {"texts": texts, "matrix": mat0.tolist()}, "expected": exps0, "observed": o})
            # the motif given as probabilities with an explicit background whose keys come in another order than the matrix rows
            probs = {alpha[a]: [2.0 ** -5] * k for a in range(A)}
            bg = {alpha[a]: 2.0 ** -2 for a in reversed(range(A))}
            for l in (0, 1):
                probs[alpha[mp[l]]] = [2.0 ** -e for e in v["pexp"][k - 1][l]]
                bg[alpha[mp[l]]] = 2.0 ** -v["bexp"][l]
            o = outcome(lambda: [[float(x) for x in row] for row in get_motif_scores(seqs, PWM.from_dict(probs, background=bg)).tolist()])
            n += 1
            expl = [[float(x) * float(np.log(2)) for x in row] for row in v["scoresLO"][k - 1]]
            if o[0] != "ok" or [len(r) for r in o[1]] != [len(r) for r in expl] or any(abs(g - e) > 1e-9 for gr, er in zip(o[1], expl) for g, e in zip(gr, er)):
                bad.append({"what": "scores of a motif built from probabilities and a background differ from the log odds of each letter against its own background",
                            "tags": dict(tags, op="get_motif_scores[from_dict background]"),
                            "vector": v, "case": {"texts": texts, "probabilities": probs, "background": bg}, "expected": expl, "observed": o})
            # the motif given as counts (PWM.from_counts), the letters listed in reversed alphabet order and in a rotated order; the sequences
            # are given as plain text (sequences already encoded in an alphabet of another order are refused by design)
            if A >= 3:
                for oname, order in (("reversed", list(reversed(range(A)))), ("rotated", list(range(1, A)) + [0])):
                    cnt = {}
                    for a in order:
                        cnt[alpha[a]] = [0] * k
                    others = [a for a in range(A) if a not in (mp[0], mp[1])]
                    for p_ in range(k):
                        c1 = [2 ** v["pexp"][k - 1][l][p_] for l in (0, 1)]
                        rest = 16 - sum(c1) - (len(others) - 1)
                        for l in (0, 1):
                            cnt[alpha[mp[l]]][p_] = c1[l] - 1
                        for j_, a in enumerate(others):
                            cnt[alpha[a]][p_] = (rest if j_ == 0 else 1) - 1
                    o = outcome(lambda: [[float(x) for x in row] for row in get_motif_scores(bnp.as_encoded_array(texts), PWM.from_counts(cnt)).tolist()])
                    n += 1
                    expf = [[float(x) * float(np.log(2)) for x in row] for row in v["scoresFC"][k - 1]]
                    if o[0] != "ok" or [len(r) for r in o[1]] != [len(r) for r in expf] or any(abs(g - e) > 1e-9 for gr, er in zip(o[1], expf) for g, e in zip(gr, er)):
                        bad.append({"what": "scores of a motif built from counts differ from the log of each letter's own (count + 1) over the column total",
                                    "tags": dict(tags, op="get_motif_scores[from_counts %s]" % oname),
                                    "vector": v, "case": {"texts": texts, "counts": cnt}, "expected": expf, "observed": o})
            # minimisers
            for w in range(k, W + 1):
                if total < w or mp[0] > mp[1]:
                    continue        # the numeric minimum is only order-isomorphic to the model's for monotone letter maps
                expm = [[mapw(x) for x in row] for row in v["minim"][k - 1][w - 1]]
                o = outcome(lambda: [[_digits(c, k, A) for c in row] for row in get_minimizers(seqs, k, w).raw().tolist()])
                n += 1
                if o != ("ok", expm):
                    bad.append({"what": "get_minimizers differs from the least k-mer of each window", "tags": dict(tags, op="get_minimizers", mwindow=w),
                                "vector": v, "case": {"texts": texts, "k": k, "w": w}, "expected": expm, "observed": o})
    return {"n": n, "nt": nt, "bad": bad}


def record_trace(job):
    import bionumpy as bnp
    from bionumpy.sequence import get_kmers, get_minimizers
    tid, seed = job
    rng = random.Random(seed)
    alpha, _ = ALPHABETS[rng.randrange(len(ALPHABETS))]
    A = len(alpha)
    kmax = 31 if A <= 4 else (27 if A == 5 else 14)
    k = rng.choice([1, 2, rng.randint(3, kmax), kmax])
    nrows = rng.randint(1, 5)
    rows = [[rng.randrange(A) for _ in range(rng.choice([0, k - 1, k, k + 1, rng.randint(0, 80)]))] for _ in range(nrows)]
    if sum(len(r) for r in rows) < k:
        rows.append([rng.randrange(A) for _ in range(k + 2)])
    seqs = bnp.as_encoded_array(["".join(alpha[c] for c in r) for r in rows], _enc(alpha))
    mk = rng.randint(1, min(k, 12))
    mw = rng.randint(mk, mk + 6)
    if sum(len(r) for r in rows) < mw:
        mw = mk
    plen = rng.randint(1, 4)
    if not any(len(r) >= plen for r in rows):
        plen = 1
    base = rng.choice([r for r in rows if len(r) >= plen])
    st = rng.randint(0, len(base) - plen)
    pat = base[st:st + plen]
    tr = {"tid": tid, "rows": rows, "k": k, "mk": mk, "mw": mw, "pat": pat, "A": A}
    o1 = outcome(lambda: [[_digits(c, k, A) for c in row] for row in get_kmers(seqs, k).raw().tolist()])
    o2 = outcome(lambda: [[_digits(c, mk, A) for c in row] for row in get_minimizers(seqs, mk, mw).raw().tolist()])
    o3 = outcome(lambda: [[bool(x) for x in row] for row in bnp.match_string(seqs, bnp.as_encoded_array("".join(alpha[c] for c in pat), _enc(alpha))).tolist()])
    tr["kmers"], tr["minim"], tr["match"] = o1[1], o2[1], o3[1]
    tr["errors"] = [nm for nm, o in (("kmers", o1), ("minimizers", o2), ("match", o3)) if o[0] == "err"]
    tr["alphabet"] = alpha
    return tr


def validate_traces(ctx, traces):
    bad = []
    good = []
    for t in traces:
        if t["errors"]:
            for op in t["errors"]:
                bad.append({"what": "%s raised on a valid input" % op, "tags": {"op": op, "binding": "B", "window": t["k"]},
                            "trace": t, "expected": "a value", "observed": str(t.get(op if op != "minimizers" else "minim"))[:200]})
        else:
            good.append(t)
    path = os.path.join(ctx.work, "c13_traces.json")
    with open(path, "w") as f:
        json.dump(good, f)
    res = ctx.tlc("Trace_C13", workers=1, env={"TRACE_FILE": path}, init="Init", next_="Next", postcondition="Post")
    rejected, accepted = {}, None
    for line in res.printed:
        parts = [p.strip().strip('"') for p in line.strip("<>").split(",")]
        if parts[0] == "REJECT":
            rejected.setdefault(int(parts[1]), []).append(parts[2])
        elif parts[0] == "ACCEPTED":
            accepted = int(parts[1])
    if accepted is None or accepted + len(rejected) != len(good):
        raise core.MachineryFailure("trace bookkeeping mismatch %s %s %s" % (accepted, len(rejected), len(good)))
    by = {t["tid"]: t for t in good}
    for tid, cl in rejected.items():
        for c in cl:
            t = by[tid]
            bad.append({"what": "recorded %s is not what Windows.tla defines" % c, "tags": {"op": c, "binding": "B", "alphabet": t["alphabet"],
                        "window": t["k"] if c == "kmers" else (t["mk"] if c == "minimizers" else len(t["pat"]))},
                        "trace": t, "expected": "Windows.tla!" + c, "observed": str(t["kmers" if c == "kmers" else ("minim" if c == "minimizers" else "match")])[:300]})
    return bad, len(good)


LET = "ACT"


def check_regex(v):
    """One state of spec/Regex.tla: the pattern rolled over the ragged sequences."""
    import bionumpy as bnp
    from bionumpy.sequence.string_matcher import RegexMatcher
    from bionumpy.encodings.alphabet_encoding import AlphabetEncoding
    rows, pat = v["rows"], v["pat"]
    texts = ["".join(LET[c - 1] for c in r) for r in rows]

    def render(e):
        if e["kind"] == "lit":
            return LET[e["c"] - 1]
        if e["kind"] == "any":
            return "."
        if e["kind"] == "cls":
            return "[" + "".join(LET[c - 1] for c in sorted(e["set"])) + "]"
        return ".{%d,%d}" % (e["lo"], e["hi"])
    ptxt = "".join(render(e) for e in pat)
    if not any(texts):
        return {"n": 0, "nt": [], "bad": []}
    bad = []
    want = [[bool(x) for x in r] for r in v["result"]]
    for ename, enc in (("ACT", AlphabetEncoding("ACT")), ("ACGT", bnp.DNAEncoding)):
        o = outcome(lambda: [[bool(x) for x in r] for r in RegexMatcher(ptxt, encoding=enc).rolling_window(bnp.as_encoded_array(texts, enc), mode="same").tolist()])
        if o != ("ok", want):
            where = None
            if o[0] == "ok" and [len(r) for r in o[1]] == [len(r) for r in want]:
                for r, (w, g) in enumerate(zip(want, o[1])):
                    for i, (a, b) in enumerate(zip(w, g)):
                        if a != b and where is None:
                            minlen = sum(1 if e["kind"] != "gap" else e["lo"] for e in pat)
                            where = {"row": r, "pos": i, "want": a, "got": b, "window_runs_past_the_row": i + minlen > len(w), "last_row": r == len(want) - 1}
            bad.append({"what": "RegexMatcher differs from matching the pattern inside each row", "tags": {"op": "regex", "alphabet": ename, "window": 0, "view": False,
                        "past_row_end": bool(where and where["window_runs_past_the_row"])},
                        "vector": v, "case": {"texts": texts, "pattern": ptxt}, "expected": want, "observed": where or o})
    return {"n": 2, "nt": [json.dumps(["regex", rows, ptxt])] if len(rows) > 1 else [], "bad": bad}


def check_label_order(job):
    """k-mer counts of the same rows over two alphabets of equal size, in one order, in a process where nothing was counted before: the
    counts must be reported under the k-mer texts of the alphabet in use (Windows.tla!Counts names k-mers by their letters)."""
    import bionumpy as bnp
    from bionumpy.sequence import count_kmers
    order, v, k = job
    rows = v["rows"]
    bad, n = [], 0
    for alpha in order:
        mp = (2, 3)          # the third and fourth letters: G T, T G and G U in the three alphabets
        texts = ["".join(alpha[mp[c]] for c in r) for r in rows]
        want = {}
        for km, c in v["counts"][k - 1]:
            want["".join(alpha[mp[x]] for x in km)] = c

        def counts():
            ec = count_kmers(bnp.as_encoded_array(texts, _enc(alpha)), k)
            return {str(lab): int(c) for lab, c in zip(ec.alphabet, np.asarray(ec.counts).ravel().tolist()) if c}
        o = outcome(counts)
        n += 1
        if o != ("ok", want):
            bad.append({"what": "k-mer counts are not reported under the k-mers of the alphabet in use", "tags": {"op": "count_kmers-labels", "alphabet": alpha, "order": "-".join(order), "window": k, "view": False},
                        "vector": v, "case": {"texts": texts, "k": k}, "expected": want, "observed": o})
    return {"n": n, "nt": ["labels|" + "-".join(order)], "bad": bad}


def run(ctx):
    quick = ctx.tier == "quick"
    consts = {"NRows": 2, "MaxLen": 4, "W": 4, "Letters": [0, 1]} if quick else {"NRows": 3, "MaxLen": 4, "W": 5, "Letters": [0, 1]}
    res = ctx.tlc("MC_C13", spec="Spec", constants=consts,
                  invariants=["RowLocal", "WindowCount", "CountsSum", "CountsOfRepeat", "MinimizerIsAKmer", "Emit"], properties=["Local"], coverage=True)
    ctx.require_actions(res, "MC_C13", ["NewRow", "AddLetter"])
    vectors = res.vectors
    for i, v in enumerate(vectors):
        v["_big"] = (i % (97 if quick else 23) == 5)        # a few states stand for inputs of more than a million windows
    ctx.sample({k: vectors[40][k] for k in ("rows", "kmers", "match")})
    ctx.absorb(core.pmap(check_vector, vectors, chunk=20))
    # alphabets of equal size counted one after the other, every order in a process of its own
    import itertools as _it
    lv = next(v for v in vectors if len(v["rows"]) == 2 and all(len(r) >= 3 for r in v["rows"]) and len({tuple(r) for r in v["rows"]}) == 2)
    ctx.absorb(core.pmap_isolated(check_label_order, [(list(p), lv, 2) for p in _it.permutations(["ACGT", "ACTG", "ACGU"], 2)]))
    # motif patterns (spec/Regex.tla): letters, '.', classes and gaps rolled over ragged sequences - a match ends inside the row it starts in
    rres = ctx.tlc("MC_Regex", tag="MC_Regex", spec="Spec", workers=8,
                   constants={"Letters": [1, 2, 3], "NRows": 2, "MaxLen": 3 if quick else 4, "Patterns": "<- PatSmall" if quick else "<- PatSet"},
                   invariants=["RowLocal", "NothingPastTheEnd", "Emit"], properties=["Local"], coverage=True)
    ctx.require_actions(rres, "MC_Regex", ["NewRow", "AddLetter"])
    ctx.absorb(core.pmap(check_regex, rres.vectors, chunk=100))
    ntr = 400 if quick else 4000
    traces = core.pmap(record_trace, [(i, ctx.seed * 7919 + i) for i in range(ntr)], chunk=50)
    bad, nval = validate_traces(ctx, traces)
    for b in bad:
        ctx.disagree(b)
    ctx.count(evaluations=3 * len(traces), traces=nval, nontrivial_keys=["B|%d" % t["tid"] for t in traces])
    ctx.sample({"binding": "B", "trace": {k: traces[0][k] for k in ("rows", "k", "alphabet")}})
    ctx.exhaustive = True
    return ctx.finish(RULE, assumptions=[
        "total number of letters >= the window (precondition stated in the property's quantifier)",
        "motif matrices are small integers so that float scores are exact",
        "k-mer codes are compared as base-|A| little-endian digit strings (the property's definition), which also side-steps 32-bit TLC integers",
    ])


def replay(d):
    print("replay of C13 case:", d.get("what"), d.get("tags"), d.get("case"))
    if "vector" in d:
        r = check_vector(d["vector"])
        same = [b for b in r["bad"] if b["tags"] == d["tags"]]
    else:
        ctx = core.Ctx("C13", "quick", 0)
        same, _ = validate_traces(ctx, [d["trace"]])
        import shutil
        shutil.rmtree(ctx.work, ignore_errors=True)
    for b in same[:3]:
        print("  disagrees:", b["what"], "expected", str(b["expected"])[:200], "observed", str(b["observed"])[:200])
    if not same:
        print("  agrees now")
    return 1 if same else 0
