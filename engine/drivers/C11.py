"""C11 — streamed evaluation equals in-memory evaluation for every chunking.

spec/Streams.tla: a stream delivers a key-sorted dataset in consecutive chunks of arbitrary sizes (action
Consume(m)), so the behaviours are exactly the 2^(n-1) cuts; every streamable computation is a fold and TLC
checks FoldRight (accumulator = in-memory result on the prefix), RechunkRight and Final on every behaviour.
Every completed behaviour (dataset, cuts, results) is replayed: mean, bincount, histogram, group-by with
joins, chunk_entries, k-mer counts, and per-chromosome genomic pipelines built with stream data and
evaluated with bnp.compute (pile-up sum/mean/histogram, mask, values under intervals), each compared with
the specification's value and/or with the same call on the concatenated data.
"""
import json

import numpy as np

from .. import core
from ..core import outcome

RULE = ("one case = (key-sorted dataset of n entries, cut set) = one completed behaviour of Streams.tla, replayed through every listed "
        "computation; non-trivial = at least one cut falls inside a group of equal keys or some chunk has a single entry; distinct by (data, cuts)")
KEYNAMES = {1: "chr1", 2: "chr11", 3: "chr2"}
SIZE = 40


def _chunks(seq, cuts):
    b = [0] + list(cuts)
    return [seq[x:y] for x, y in zip(b[:-1], b[1:])]


_HIT = []


def _hit_class():
    if not _HIT:
        from bionumpy.bnpdataclass import bnpdataclass

        @bnpdataclass
        class Hit:
            chromosome: str
            position: int
        _HIT.append(Hit)
    return _HIT[0]


def check_vector(v):
    import bionumpy as bnp
    from bionumpy.streams import BnpStream, NpDataclassStream, groupby
    from bionumpy.streams.reductions import mean, bincount, histogram
    from bionumpy.streams.chunk_entries import chunk_entries
    from bionumpy.datatypes import Interval, SequenceEntry
    from bionumpy.sequence import count_kmers
    data, cuts = v["data"], v["cuts"]
    n = len(data)
    vals = [e["v"] for e in data]
    keys = [KEYNAMES[e["k"]] for e in data]
    bad, calls, nt = [], 0, []
    inside = any(c < n and data[c - 1]["k"] == data[c]["k"] for c in cuts)
    single = any(y - x == 1 for x, y in zip([0] + cuts[:-1], cuts))
    if inside or single:
        nt.append(json.dumps([data, cuts]))
    tags0 = {"cut_inside_group": inside, "single_entry_chunk": single}

    def rep(op, exp, obs, **extra):
        bad.append({"what": "%s on the stream differs from the value on the concatenated data" % op, "tags": dict(tags0, op=op, **extra),
                    "vector": v, "expected": exp, "observed": obs})

    arr_chunks = [np.array(c, dtype=int) for c in _chunks(vals, cuts)]
    o = outcome(lambda: [float(x) for x in np.atleast_1d(mean(BnpStream(iter(arr_chunks)))).tolist()])
    calls += 1
    if o != ("ok", [v["sum"] / v["n"]]):
        rep("mean", [v["sum"] / v["n"]], o)
    o = outcome(lambda: [int(x) for x in bincount(BnpStream(iter(arr_chunks))).tolist()])
    calls += 1
    want = list(v["bins"])
    while want and want[-1] == 0:
        want.pop()
    if o[0] != "ok" or [x for x in o[1]] + [0] * (len(want) - len(o[1])) != want + [0] * (len(o[1]) - len(want)):
        rep("bincount", want, o)
    # quantiles by counting: on the stream and on the concatenated array (and from the bin counts of the specification)
    from bionumpy.streams.reductions import quantile
    qs = np.array([0.25, 0.5, 0.9])
    so = outcome(lambda: [int(x) for x in np.atleast_1d(quantile(BnpStream(iter(arr_chunks)), qs)).tolist()])
    mo = outcome(lambda: [int(x) for x in np.atleast_1d(quantile(np.array(vals, dtype=int), qs)).tolist()])
    calls += 2
    cum = np.cumsum(list(v["bins"]))
    wantq = [int(x) for x in np.searchsorted(cum, qs * cum[-1]).tolist()]
    if so != mo or so != ("ok", wantq):
        rep("quantile", wantq, so if so != ("ok", wantq) else mo)
    nb = len(v["bins"])
    o = outcome(lambda: [int(x) for x in histogram(BnpStream(iter(arr_chunks)), bins=nb, range=(0, nb))[0].tolist()])
    calls += 1
    if o != ("ok", list(v["bins"])):
        rep("histogram", list(v["bins"]), o)

    # tables: entry i is the interval [2i, 2i+1) on its contig; name carries the position
    starts = np.arange(n) * 2
    table = Interval(keys, starts, starts + 1)
    tchunks = [Interval(keys[x:y], starts[x:y], starts[x:y] + 1) for x, y in zip([0] + cuts[:-1], cuts)]

    def groups():
        return [[name, [int(s) // 2 + 1 for s in g.start.tolist()]] for name, g in groupby(NpDataclassStream(iter(tchunks), dataclass=Interval), "chromosome")]
    o = outcome(groups)
    calls += 1
    wantg = [[KEYNAMES[k], list(pos)] for k, pos in v["groups"]]
    if o != ("ok", wantg):
        rep("groupby", wantg, o)
    else:
        o2 = outcome(lambda: [[name, [int(s) // 2 + 1 for s in g.start.tolist()]] for name, g in groupby(table, "chromosome")])
        calls += 1
        if o2 != ("ok", wantg):
            rep("groupby(in-memory)", wantg, o2)

    # a caller-supplied key function names the groups (streamed = in memory, whatever chunk holds a single group)
    def groups_keyed(stream):
        keyf = lambda k: "g:" + (k.to_string() if hasattr(k, "to_string") else str(k))
        src = NpDataclassStream(iter(tchunks), dataclass=Interval) if stream else table
        return [[name, [int(s) // 2 + 1 for s in g.start.tolist()]] for name, g in groupby(src, "chromosome", key=keyf)]
    wantk = [["g:" + KEYNAMES[k], list(pos)] for k, pos in v["groups"]]
    for stream in (True, False):
        o = outcome(groups_keyed, stream)
        calls += 1
        if o != ("ok", wantk):
            rep("groupby[key function%s]" % ("" if stream else ", in-memory"), wantk, o)

    # the same group-by with the key held as a ragged text column (as entries read from BAM / user-defined types have): keys that are
    # prefixes of one another (chr1, chr11) are different groups
    Hit = _hit_class()

    def groups_ragged(stream):
        b = [0] + list(cuts)
        if stream:
            data = NpDataclassStream(iter([Hit(keys[x:y], (np.arange(x, y) + 1)) for x, y in zip(b[:-1], b[1:])]), dataclass=Hit)
        else:
            data = Hit(keys, np.arange(n) + 1)
        return [[name, [int(p) for p in g.position.tolist()]] for name, g in groupby(data, "chromosome")]
    for stream in (True, False):
        o = outcome(groups_ragged, stream)
        calls += 1
        if o != ("ok", wantg):
            rep("groupby[ragged key%s]" % ("" if stream else ", in-memory"), wantg, o)

    # a per-chromosome function applied to the groups of a stream (chromosome_map): merged intervals per contig, streamed against in-memory
    from bionumpy.arithmetics import merge_intervals
    for dist in (0, 1):
        def merged(streamed):
            src = NpDataclassStream(iter(tchunks), dataclass=Interval) if streamed else table
            return [[name, [[int(a), int(b)] for a, b in zip(m.start.tolist(), m.stop.tolist())]] for name, m in merge_intervals(groupby(src, "chromosome"), distance=dist)]
        so, mo = outcome(merged, True), outcome(merged, False)
        calls += 2
        # [2i, 2i+1): with distance 1 neighbours of one group merge into one interval per run of consecutive positions
        want = []
        for k, pos in v["groups"]:
            runs, cur = [], None
            for q in pos:
                s_, e_ = 2 * (q - 1), 2 * (q - 1) + 1
                if cur is not None and dist == 1 and s_ - cur[1] <= 1:
                    cur[1] = e_
                else:
                    cur = [s_, e_]
                    runs.append(cur)
            want.append([KEYNAMES[k], runs])
        if so != ("ok", want) or mo != ("ok", want):
            rep("merge_intervals[groups of a stream]", want, so if so != ("ok", want) else mo, distance=dist)

    def rechunk():
        out = chunk_entries(NpDataclassStream(iter(tchunks), dataclass=Interval), v["nchunk"])
        return [[int(s) // 2 + 1 for s in c.start.tolist()] for c in out]
    o = outcome(rechunk)
    calls += 1
    if o[0] != "ok":
        rep("chunk_entries", v["rechunk"], o)
    else:
        flat = [x for c in o[1] for x in c]
        if flat != list(range(1, n + 1)) or any(len(c) != v["nchunk"] for c in o[1][:-1]):
            rep("chunk_entries", v["rechunk"], o, detail="order or chunk size")

    def relines():
        from bionumpy.io.parser import chunk_lines
        return [[int(s) // 2 + 1 for s in c.start.tolist()] for c in chunk_lines(iter(tchunks), v["nchunk"])]
    o = outcome(relines)
    calls += 1
    got = [c for c in o[1] if c] if o[0] == "ok" else None        # an empty trailing chunk is tolerated ("except possibly the last")
    if o[0] != "ok" or got != [list(c) for c in v["relines"]]:
        rep("chunk_lines", v["relines"], o)

    # k-mer counts: entry i carries a short sequence derived from its value and position
    seqs = ["ACGT"[(e["v"] + i) % 4] * 2 + "ACGT"[(i * 3) % 4] + "ACGT"[e["v"] % 4] for i, e in enumerate(data)]
    schunks = [bnp.as_encoded_array(seqs[x:y], bnp.DNAEncoding) for x, y in zip([0] + cuts[:-1], cuts)]
    o = outcome(lambda: [int(x) for x in count_kmers(BnpStream(iter(schunks)), 2).counts.tolist()])
    whole = outcome(lambda: [int(x) for x in count_kmers(bnp.as_encoded_array(seqs, bnp.DNAEncoding), 2).counts.tolist()])
    calls += 2
    if o != whole or o[0] != "ok":
        rep("count_kmers", whole, o)

    # per-chromosome genomic pipelines: streamed (bnp.compute) against in-memory
    g = bnp.Genome.from_dict({nm: SIZE for nm in KEYNAMES.values()})
    probe_starts = np.array([0, 1, 5], dtype=int)

    def pipelines(streamed):
        def iv():
            if streamed:
                return g.get_intervals(NpDataclassStream(iter([Interval(keys[x:y], starts[x:y], starts[x:y] + 3) for x, y in zip([0] + cuts[:-1], cuts)]), dataclass=Interval))
            return g.get_intervals(Interval(keys, starts, starts + 3))
        res = {}
        p = iv().get_pileup()
        res["pileup.sum"] = int(bnp.compute(p.sum()))
        res["pileup.hist"] = [int(x) for x in bnp.compute(np.histogram(iv().get_pileup(), bins=4, range=(0, 4)))[0].tolist()]
        res["pileup.hist (bins given positionally)"] = [int(x) for x in bnp.compute(np.histogram(iv().get_pileup(), 4, range=(0, 4)))[0].tolist()]
        m = iv().get_mask()
        res["mask.sum"] = int(bnp.compute(m.sum()))
        res["(pileup>1).sum"] = int(bnp.compute((iv().get_pileup() > 1).sum()))
        d = bnp.compute(iv().get_pileup().get_data())
        res["pileup.get_data"] = [[c, int(s), int(e), int(x)] for c, s, e, x in zip(d.chromosome.tolist(), d.start.tolist(), d.stop.tolist(), d.value.tolist())]
        d = bnp.compute(iv().get_mask().get_data())
        res["mask.get_data"] = [[c, int(s), int(e)] for c, s, e in zip(d.chromosome.tolist(), d.start.tolist(), d.stop.tolist())]
        # boolean arrays derived from streamed arrays, converted back to records
        for nm, mk in (("(pileup>0).get_data", lambda: iv().get_pileup() > 0), ("(~mask).get_data", lambda: ~iv().get_mask())):
            d = bnp.compute(mk().get_data())
            res[nm] = [[c, int(s), int(e)] + ([bool(x)] if hasattr(d, "value") else []) for c, s, e, *x in
                       zip(d.chromosome.tolist(), d.start.tolist(), d.stop.tolist(), *([d.value.tolist()] if hasattr(d, "value") else []))]
        # arithmetic with the streamed array as the RIGHT operand of operators that do not commute
        for nm, mk in (("(3 - pileup).get_data", lambda: 3 - iv().get_pileup()), ("(1 - (pileup - 1)).get_data", lambda: 1 - (iv().get_pileup() - 1)),
                       ("(2 ** pileup).get_data", lambda: 2 ** iv().get_pileup())):
            d = bnp.compute(mk().get_data())
            res[nm] = [[c, int(s), int(e), int(x)] for c, s, e, x in zip(d.chromosome.tolist(), d.start.tolist(), d.stop.tolist(), d.value.tolist())]
        res["(3 - pileup).sum"] = int(bnp.compute((3 - iv().get_pileup()).sum()))
        # merged intervals, with the first entry of every contig starting at 0 and the last one reaching the contig's end
        first = np.array([i == 0 or keys[i - 1] != keys[i] for i in range(n)])
        last = np.array([i == n - 1 or keys[i + 1] != keys[i] for i in range(n)])
        ms = np.where(first, 0, starts)
        me = np.where(last, SIZE, starts + 1)

        def miv():
            if streamed:
                return g.get_intervals(NpDataclassStream(iter([Interval(keys[x:y], ms[x:y], me[x:y]) for x, y in zip([0] + cuts[:-1], cuts)]), dataclass=Interval))
            return g.get_intervals(Interval(keys, ms, me))
        # ONE interval object feeding two nodes of the same graph (merged and pile-up), evaluated together; nested intervals included
        ns = np.where(first, 0, np.maximum(starts - 3, 0))
        ne = np.where(first, SIZE, starts + 1)          # the first interval of every contig covers the contig: the others are nested in it

        def niv():
            if streamed:
                return g.get_intervals(NpDataclassStream(iter([Interval(keys[x:y], ns[x:y], ne[x:y]) for x, y in zip([0] + cuts[:-1], cuts)]), dataclass=Interval))
            return g.get_intervals(Interval(keys, ns, ne))
        x = niv()
        if streamed:
            mg, pd_ = bnp.compute((x.merged(0), x.get_pileup().get_data()))
            mg = mg.get_data()
        else:
            mg, pd_ = x.merged(0).get_data(), x.get_pileup().get_data()
        res["merged+pileup of one object"] = [[[c.to_string() if hasattr(c, "to_string") else c, int(s), int(e)] for c, s, e in zip(mg.chromosome, mg.start.tolist(), mg.stop.tolist())],
                                              [[c, int(s), int(e), int(x_)] for c, s, e, x_ in zip(pd_.chromosome.tolist(), pd_.start.tolist(), pd_.stop.tolist(), pd_.value.tolist())]]
        for dist in (0, 1, 2):
            mi = miv().merged(dist)
            d = (mi.compute() if streamed else mi).get_data()
            res["merged(%d)" % dist] = [[c.to_string(), int(s), int(e)] for c, s, e in zip(d.chromosome, d.start.tolist(), d.stop.tolist())]
        # values of the pile-up under in-memory stranded windows ('+', '-' and '.'), and their mean profile
        from bionumpy.datatypes import Bed6
        wn = [nm for nm in KEYNAMES.values() for _ in range(3)]
        ws = np.array([0, 2, 5] * len(KEYNAMES), dtype=int)
        windows = g.get_intervals(Bed6(wn, ws, ws + 4, ["w"] * len(wn), np.zeros(len(wn), dtype=int), ["+", "-", "."] * len(KEYNAMES)), stranded=True)
        rows = bnp.compute(iv().get_pileup()[windows])
        res["pileup[stranded windows]"] = [[int(x) for x in np.asarray(r.to_array() if hasattr(r, "to_array") else r).tolist()] for r in rows]
        prof = bnp.compute(np.mean(iv().get_pileup()[windows], axis=0))
        res["mean profile"] = [float(x) for x in np.asarray(prof).tolist()]
        # windows of unequal lengths (4, 2, 3): the column-wise mean divides every column by the number of rows that reach it
        we = ws + np.array([4, 2, 3] * len(KEYNAMES), dtype=int)
        uneven = g.get_intervals(Bed6(wn, ws, we, ["w"] * len(wn), np.zeros(len(wn), dtype=int), ["+"] * len(wn)), stranded=True)
        prof = bnp.compute(np.mean(iv().get_pileup()[uneven], axis=0))
        res["mean profile (uneven windows)"] = [round(float(x), 9) for x in np.asarray(prof).tolist()]
        # windows around the start locations, given by flank and by window size (even and odd)
        for kw in ({"flank": 1}, {"window_size": 4}, {"window_size": 3}):
            w_ = iv().get_location("start").get_windows(**kw)
            d = (w_.compute() if streamed else w_).get_data()
            res["start windows %s" % kw] = [[c.to_string() if hasattr(c, "to_string") else c, int(s), int(e)] for c, s, e in zip(d.chromosome, d.start.tolist(), d.stop.tolist())]
        return res
    so = outcome(pipelines, True)
    mo = outcome(pipelines, False)
    calls += 2
    if so[0] != "ok" or mo[0] != "ok":
        if so[0] != mo[0]:
            rep("genomic pipeline", str(mo)[:300], str(so)[:300], detail="raises in one mode only")
        else:
            # valid data: the harness must be able to evaluate the pipelines; nothing is compared otherwise
            raise core.MachineryFailure("C11 genomic pipelines raise streamed and in memory: %s" % str(mo)[:300])
    else:
        for k in mo[1]:
            want_k, got_k = mo[1][k], so[1][k]
            if k.startswith("merged("):
                # meaning of merging within a contig (Intervals.tla: Merge): neighbours closer than the distance join, contigs never do
                exp, dist = [], int(k[7:-1])
                for c, a, b in zip(keys, (np.where(np.array([i == 0 or keys[i - 1] != keys[i] for i in range(n)]), 0, starts)).tolist(),
                                   (np.where(np.array([i == n - 1 or keys[i + 1] != keys[i] for i in range(n)]), SIZE, starts + 1)).tolist()):
                    if exp and exp[-1][0] == c and a <= exp[-1][2] + dist:
                        exp[-1][2] = max(exp[-1][2], int(b))
                    else:
                        exp.append([c, int(a), int(b)])
                if want_k != exp:
                    rep("pipeline " + k + " (in memory)", exp, want_k)
            if k == "merged+pileup of one object":
                want_k, got_k = [want_k[0], _expand(want_k[1])], [got_k[0], _expand(got_k[1])]
            if k.endswith("get_data"):
                want_k, got_k = _expand(want_k), _expand(got_k)      # records may be split differently; compare what they describe
            if want_k != got_k:
                rep("pipeline " + k, mo[1][k], so[1][k])
    return {"n": calls, "nt": nt, "bad": bad}


def check_big(v):
    """Counts over more than a million elements (the counting code switches to blocks there): the dataset of one vector repeated m times,
    in memory and as a stream; both must be m times the counts of the small dataset (BinsOfRepeat)."""
    import bionumpy as bnp
    from bionumpy.streams import BnpStream
    from bionumpy.streams.reductions import bincount
    from bionumpy.sequence import count_kmers
    from bionumpy.sequence.count_encoded import count_encoded
    data = v["data"]
    seqs = ["ACGT"[(e["v"] + i) % 4] * 2 + "ACGT"[(i * 3) % 4] + "ACGT"[e["v"] % 4] for i, e in enumerate(data)]
    bad, calls = [], 0
    small = count_kmers(bnp.as_encoded_array(seqs, bnp.DNAEncoding), 2).counts
    small1 = count_encoded(bnp.as_encoded_array("".join(seqs), bnp.DNAEncoding)).counts
    for target in (1_000_000, 1_000_001, 2_300_000, 3_000_000):
        per = 3 * len(seqs)
        m = -(-target // per)
        if target == 1_000_000 and per * m != target:
            # an exact multiple of the block size when the dataset allows it
            m = target // per
        big = bnp.as_encoded_array(seqs * m, bnp.DNAEncoding)
        cutpoints = [0, len(seqs), len(seqs) * (m - 1), len(seqs) * m]
        want = [int(x) * m for x in small.tolist()]
        o = outcome(lambda: [int(x) for x in count_kmers(big, 2).counts.tolist()])
        so = outcome(lambda: [int(x) for x in count_kmers(BnpStream(iter([big[a:b] for a, b in zip(cutpoints[:-1], cutpoints[1:]) if b > a])), 2).counts.tolist()])
        calls += 2
        for name, got in (("in memory", o), ("streamed", so)):
            if got != ("ok", want):
                bad.append({"what": "count_kmers over %d k-mers (%s) is not m times the counts of the repeated dataset" % (per * m, name),
                            "tags": {"op": "count_kmers[big]", "mode": name, "kmers": per * m}, "vector": v, "expected": want, "observed": str(got)[:300]})
        # letters: 4 per sequence
        m1 = -(-target // (4 * len(seqs)))
        flat = bnp.as_encoded_array("".join(seqs) * m1, bnp.DNAEncoding)
        o = outcome(lambda: [int(x) for x in count_encoded(flat).counts.tolist()])
        calls += 1
        want1 = [int(x) * m1 for x in small1.tolist()]
        if o != ("ok", want1):
            bad.append({"what": "count_encoded over %d letters is not m times the counts of the repeated text" % len(flat),
                        "tags": {"op": "count_encoded[big]", "letters": len(flat)}, "vector": v, "expected": want1, "observed": str(o)[:300]})
    vals = np.array([e["v"] for e in data] * (-(-1_200_000 // len(data))), dtype=int)
    mm = len(vals) // len(data)
    o = outcome(lambda: [int(x) for x in bincount(BnpStream(iter([vals[:7], vals[7:1_100_000], vals[1_100_000:]]))).tolist()])
    calls += 1
    want = [b * mm for b in v["bins"]]
    while want and want[-1] == 0:
        want.pop()
    if o != ("ok", want):
        bad.append({"what": "bincount over a stream of %d values is not m times the counts of the repeated dataset" % len(vals),
                    "tags": {"op": "bincount[big]"}, "vector": v, "expected": want, "observed": str(o)[:300]})
    return {"n": calls, "nt": [json.dumps(["big", data])], "bad": bad}


GRAPH_RULE = "graph part: one case = (graph shape, two-column dataset, cut set) = one completed behaviour of Graph.tla"


def check_graph(v):
    """One completed behaviour of spec/Graph.tla on real StreamNode / ComputationNode / ReductionNode objects."""
    from bionumpy import computation_graph as cg
    nodes, roots, data, cuts = v["nodes"], v["roots"], v["data"], v["cuts"]
    cols = [[r[0] for r in data], [r[1] for r in data]]
    bounds = [0]
    for c in cuts:
        bounds.append(bounds[-1] + c)
    bad, calls = [], 0
    nt = [json.dumps(["graph", v["shape"], data, cuts])] if len(cuts) > 1 else []

    def build():
        real = []
        for nd in nodes:
            op, a = nd["op"], [real[k - 1] for k in nd["args"]]
            if op in ("s1", "s2"):
                col = cols[0 if op == "s1" else 1]
                real.append(cg.StreamNode(iter([np.array(col[x:y], dtype=int) for x, y in zip(bounds[:-1], bounds[1:])])))
            elif op == "addc":
                real.append(a[0] + nd["c"])
            elif op == "add":
                real.append(a[0] + a[1])
            elif op == "mul":
                real.append(a[0] * a[1])
            elif op == "gtc":
                real.append(a[0] > nd["c"])
            elif op == "select":
                real.append(a[0][a[1]])
            elif op == "sum":
                real.append(np.sum(a[0]))
            elif op == "sumn":
                real.append(np.mean(a[0]))
            elif op == "tuple":
                real.append(None)      # built by compute()
        return real

    def project(r, val):
        if r["red"] == "none":
            return [int(x) for x in np.asarray(val).tolist()]
        if r["red"] == "sum":
            return [int(val)]
        return float(val)

    def expected(i, r):
        m = v["meaning"][i]
        if r["red"] == "mean":
            return None if m[1] == 0 else m[0] / m[1]      # the mean of nothing is not defined by the property
        return list(m)

    def run(form):
        real = build()
        outs = [real[r["node"] - 1] for r in roots]
        if form == "list":
            res = cg.compute(outs) if len(outs) > 1 else [cg.compute(outs[0])]
        elif form == "dict":
            d = cg.compute({"k%d" % i: o for i, o in enumerate(outs)})
            res = [d["k%d" % i] for i in range(len(outs))]
        else:
            res = cg.compute(tuple(outs))
        res = list(res)
        idx = [getattr(x, "_buffer_index", getattr(getattr(x, "_stream", None), "_buffer_index", None)) for x in real]
        return [project(r, x) for r, x in zip(roots, res)], idx
    drift = []
    for form in ("list", "dict", "tuple"):
        if form != "list" and len(roots) == 1:
            continue
        calls += 1
        want = [expected(i, r) for i, r in enumerate(roots)]
        if any(w is None for w in want):
            continue
        o = outcome(run, form)
        if o[0] == "err" or o[1][0] != want:
            bad.append({"what": "compute() of a streamed graph differs from the function of the whole columns", "tags": {"op": "graph", "shape": v["shape"], "form": form, "nchunks": len(cuts)},
                        "vector": v, "expected": want, "observed": o[1] if o[0] == "err" else o[1][0]})
        elif [i for i in o[1][1] if i is not None] != [i for i, x in zip(v["idxlog"][-1], o[1][1]) if x is not None]:
            drift.append({"graph": v["shape"], "form": form, "cuts": cuts, "model_final_index": v["idxlog"][-1], "observed_final_index": o[1][1]})
    return {"n": calls, "nt": nt, "bad": bad, "drift": drift}


def _expand(recs):
    out = {}
    for r in recs:
        val = r[3] if len(r) > 3 else 1
        for p in range(r[1], r[2]):
            if val:
                out[(r[0], p)] = val
    return sorted(out.items())


def run(ctx):
    quick = ctx.tier == "quick"
    invs = ["FoldRight", "RechunkRight", "LinesRight", "Final", "BinsOfRepeat", "Emit"]
    vectors = []
    plans = [dict(MaxN=5, Keys=[1, 2, 3], Vals=[0, 1, 2], NChunk=2, FixedVals=True),
             dict(MaxN=4, Keys=[1, 2], Vals=[0, 1, 2], NChunk=3, FixedVals=False)] if quick else \
            [dict(MaxN=7, Keys=[1, 2, 3], Vals=[0, 1, 2], NChunk=2, FixedVals=True),
             dict(MaxN=10, Keys=[1, 2], Vals=[0, 1, 2, 3], NChunk=3, FixedVals=True),
             dict(MaxN=5, Keys=[1, 2], Vals=[0, 1, 2], NChunk=3, FixedVals=False)]
    for i, c in enumerate(plans):
        res = ctx.tlc("MC_C11", tag="MC_C11_%d" % i, spec="Spec", constants=c, invariants=invs, coverage=True)
        ctx.require_actions(res, "MC_C11", ["Consume", "Finish"])
        vectors += res.vectors
    ctx.sample(vectors[17])
    ctx.absorb(core.pmap(check_vector, vectors, chunk=20))
    # counts over more than a million elements: a few datasets repeated (additivity TLC-checked as BinsOfRepeat)
    full = [v for v in vectors if len(v["data"]) >= 4]
    ctx.absorb(core.pmap(check_big, [full[(k * 37) % len(full)] for k in range(3 if quick else 12)], chunk=1))
    # the computation graph itself (spec/Graph.tla): every shape x dataset x cut set
    gres = ctx.tlc("MC_Graph", tag="MC_Graph", spec="Spec", constants={"Shapes": "<- AllShapes", "MaxN": 3 if quick else 4, "Vals": [1, 2], "Memo": True},
                   invariants=["NoAssert", "LockStep", "InStep", "AllLevel", "Final", "Emit"], coverage=True)
    ctx.require_actions(gres, "MC_Graph", ["Construct", "PullArg", "Advance", "Eval", "IssuePull", "Collect", "Finish"])
    ctx.sample({k: gres.vectors[5][k] for k in ("shape", "data", "cuts", "result")})
    ctx.absorb(core.pmap(check_graph, gres.vectors, chunk=50))
    w = core.run_tlc("MC_Graph", ctx.work, tag="MC_Graph_nomemo", spec="Spec", expect_ok=False,
                     constants={"Shapes": "<- DiamondOnly", "MaxN": 2, "Vals": [1, 2], "Memo": False}, invariants=["NoAssert"])
    if not any("NoAssert is violated" in e for e in w.errors):
        raise core.MachineryFailure("Graph.tla with Memo=FALSE should violate NoAssert (regression witness)")
    ctx.notes.append("Graph.tla with Memo=FALSE (a shared node re-evaluates when asked twice for one buffer): TLC refutes NoAssert, as expected")
    ctx.exhaustive = True
    return ctx.finish(RULE, assumptions=[
        "entries are sorted by key (precondition of group-by and of the per-chromosome pipelines)",
        "reductions are compared with the specification's value; genomic pipelines and k-mer counts with the same call on the concatenated data; "
        "records returned by get_data() are compared by the per-base values they describe",
    ])


def replay(d):
    print("replay of C11 case:", d.get("what"), d.get("tags"))
    v = d["vector"]
    print("  data", v["data"], "cuts", v["cuts"])
    r = check_graph(v) if d["tags"].get("op") == "graph" else check_vector(v)
    same = [b for b in r["bad"] if b["tags"]["op"] == d["tags"]["op"]]
    for b in same[:3]:
        print("  disagrees:", b["what"], "expected", str(b["expected"])[:200], "observed", str(b["observed"])[:200])
    if not same:
        print("  agrees now")
    return 1 if same else 0
