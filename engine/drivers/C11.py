"""C11 — streamed evaluation equals in-memory evaluation for every chunking.

spec/Streams.tla: a stream delivers a key-sorted dataset in consecutive chunks of arbitrary sizes (action
Consume(m)), so the behaviours are exactly the 2^(n-1) cuts; every streamable computation is a fold and TLC
checks FoldRight (accumulator = in-memory result on the prefix), RechunkRight and Final on every behaviour.
Every completed behaviour (dataset, cuts, results) is replayed: mean, bincount, histogram, group-by with
joins, chunk_entries, k-mer counts, and per-chromosome genomic pipelines built with stream data and
evaluated with bnp.compute (pile-up sum/mean/histogram, mask, values under intervals), each compared with
the specification's value and/or with the same call on the concatenated data.
"""
import json

import numpy as np

from .. import core
from ..core import outcome

RULE = ("one case = (key-sorted dataset of n entries, cut set) = one completed behaviour of Streams.tla, replayed through every listed "
        "computation; non-trivial = at least one cut falls inside a group of equal keys or some chunk has a single entry; distinct by (data, cuts)")
KEYNAMES = {1: "chr1", 2: "chr11", 3: "chr2"}
SIZE = 40


def _chunks(seq, cuts):
    b = [0] + list(cuts)
    return [seq[x:y] for x, y in zip(b[:-1], b[1:])]


def check_vector(v):
    import bionumpy as bnp
    from bionumpy.streams import BnpStream, NpDataclassStream, groupby
    from bionumpy.streams.reductions import mean, bincount, histogram
    from bionumpy.streams.chunk_entries import chunk_entries
    from bionumpy.datatypes import Interval, SequenceEntry
    from bionumpy.sequence import count_kmers
    data, cuts = v["data"], v["cuts"]
    n = len(data)
    vals = [e["v"] for e in data]
    keys = [KEYNAMES[e["k"]] for e in data]
    bad, calls, nt = [], 0, []
    inside = any(c < n and data[c - 1]["k"] == data[c]["k"] for c in cuts)
    single = any(y - x == 1 for x, y in zip([0] + cuts[:-1], cuts))
    if inside or single:
        nt.append(json.dumps([data, cuts]))
    tags0 = {"cut_inside_group": inside, "single_entry_chunk": single}

    def rep(op, exp, obs, **extra):
        bad.append({"what": "%s on the stream differs from the value on the concatenated data" % op, "tags": dict(tags0, op=op, **extra),
                    "vector": v, "expected": exp, "observed": obs})

    arr_chunks = [np.array(c, dtype=int) for c in _chunks(vals, cuts)]
    o = outcome(lambda: [float(x) for x in np.atleast_1d(mean(BnpStream(iter(arr_chunks)))).tolist()])
    calls += 1
    if o != ("ok", [v["sum"] / v["n"]]):
        rep("mean", [v["sum"] / v["n"]], o)
    o = outcome(lambda: [int(x) for x in bincount(BnpStream(iter(arr_chunks))).tolist()])
    calls += 1
    want = list(v["bins"])
    while want and want[-1] == 0:
        want.pop()
    if o[0] != "ok" or [x for x in o[1]] + [0] * (len(want) - len(o[1])) != want + [0] * (len(o[1]) - len(want)):
        rep("bincount", want, o)
    nb = len(v["bins"])
    o = outcome(lambda: [int(x) for x in histogram(BnpStream(iter(arr_chunks)), bins=nb, range=(0, nb))[0].tolist()])
    calls += 1
    if o != ("ok", list(v["bins"])):
        rep("histogram", list(v["bins"]), o)

    # tables: entry i is the interval [2i, 2i+1) on its contig; name carries the position
    starts = np.arange(n) * 2
    table = Interval(keys, starts, starts + 1)
    tchunks = [Interval(keys[x:y], starts[x:y], starts[x:y] + 1) for x, y in zip([0] + cuts[:-1], cuts)]

    def groups():
        return [[name, [int(s) // 2 + 1 for s in g.start.tolist()]] for name, g in groupby(NpDataclassStream(iter(tchunks), dataclass=Interval), "chromosome")]
    o = outcome(groups)
    calls += 1
    wantg = [[KEYNAMES[k], list(pos)] for k, pos in v["groups"]]
    if o != ("ok", wantg):
        rep("groupby", wantg, o)
    else:
        o2 = outcome(lambda: [[name, [int(s) // 2 + 1 for s in g.start.tolist()]] for name, g in groupby(table, "chromosome")])
        calls += 1
        if o2 != ("ok", wantg):
            rep("groupby(in-memory)", wantg, o2)

    def rechunk():
        out = chunk_entries(NpDataclassStream(iter(tchunks), dataclass=Interval), v["nchunk"])
        return [[int(s) // 2 + 1 for s in c.start.tolist()] for c in out]
    o = outcome(rechunk)
    calls += 1
    if o[0] != "ok":
        rep("chunk_entries", v["rechunk"], o)
    else:
        flat = [x for c in o[1] for x in c]
        if flat != list(range(1, n + 1)) or any(len(c) != v["nchunk"] for c in o[1][:-1]):
            rep("chunk_entries", v["rechunk"], o, detail="order or chunk size")

    def relines():
        from bionumpy.io.parser import chunk_lines
        return [[int(s) // 2 + 1 for s in c.start.tolist()] for c in chunk_lines(iter(tchunks), v["nchunk"])]
    o = outcome(relines)
    calls += 1
    got = [c for c in o[1] if c] if o[0] == "ok" else None        # an empty trailing chunk is tolerated ("except possibly the last")
    if o[0] != "ok" or got != [list(c) for c in v["relines"]]:
        rep("chunk_lines", v["relines"], o)

    # k-mer counts: entry i carries a short sequence derived from its value and position
    seqs = ["ACGT"[(e["v"] + i) % 4] * 2 + "ACGT"[(i * 3) % 4] + "ACGT"[e["v"] % 4] for i, e in enumerate(data)]
    schunks = [bnp.as_encoded_array(seqs[x:y], bnp.DNAEncoding) for x, y in zip([0] + cuts[:-1], cuts)]
    o = outcome(lambda: [int(x) for x in count_kmers(BnpStream(iter(schunks)), 2).counts.tolist()])
    whole = outcome(lambda: [int(x) for x in count_kmers(bnp.as_encoded_array(seqs, bnp.DNAEncoding), 2).counts.tolist()])
    calls += 2
    if o != whole or o[0] != "ok":
        rep("count_kmers", whole, o)

    # per-chromosome genomic pipelines: streamed (bnp.compute) against in-memory
    g = bnp.Genome.from_dict({nm: SIZE for nm in KEYNAMES.values()})
    probe_starts = np.array([0, 1, 5], dtype=int)

    def pipelines(streamed):
        def iv():
            if streamed:
                return g.get_intervals(NpDataclassStream(iter([Interval(keys[x:y], starts[x:y], starts[x:y] + 3) for x, y in zip([0] + cuts[:-1], cuts)]), dataclass=Interval))
            return g.get_intervals(Interval(keys, starts, starts + 3))
        res = {}
        p = iv().get_pileup()
        res["pileup.sum"] = int(bnp.compute(p.sum()))
        res["pileup.hist"] = [int(x) for x in bnp.compute(np.histogram(iv().get_pileup(), bins=4, range=(0, 4)))[0].tolist()]
        m = iv().get_mask()
        res["mask.sum"] = int(bnp.compute(m.sum()))
        res["(pileup>1).sum"] = int(bnp.compute((iv().get_pileup() > 1).sum()))
        d = bnp.compute(iv().get_pileup().get_data())
        res["pileup.get_data"] = [[c, int(s), int(e), int(x)] for c, s, e, x in zip(d.chromosome.tolist(), d.start.tolist(), d.stop.tolist(), d.value.tolist())]
        d = bnp.compute(iv().get_mask().get_data())
        res["mask.get_data"] = [[c, int(s), int(e)] for c, s, e in zip(d.chromosome.tolist(), d.start.tolist(), d.stop.tolist())]
        return res
    so = outcome(pipelines, True)
    mo = outcome(pipelines, False)
    calls += 2
    if so[0] != "ok" or mo[0] != "ok":
        if so[0] != mo[0]:
            rep("genomic pipeline", str(mo)[:300], str(so)[:300], detail="raises in one mode only")
    else:
        for k in mo[1]:
            want_k, got_k = mo[1][k], so[1][k]
            if k.endswith("get_data"):
                want_k, got_k = _expand(want_k), _expand(got_k)      # records may be split differently; compare what they describe
            if want_k != got_k:
                rep("pipeline " + k, mo[1][k], so[1][k])
    return {"n": calls, "nt": nt, "bad": bad}


def _expand(recs):
    out = {}
    for r in recs:
        val = r[3] if len(r) > 3 else 1
        for p in range(r[1], r[2]):
            if val:
                out[(r[0], p)] = val
    return sorted(out.items())


def run(ctx):
    quick = ctx.tier == "quick"
    invs = ["FoldRight", "RechunkRight", "LinesRight", "Final", "Emit"]
    vectors = []
    plans = [dict(MaxN=5, Keys=[1, 2, 3], Vals=[0, 1, 2], NChunk=2, FixedVals=True),
             dict(MaxN=4, Keys=[1, 2], Vals=[0, 1, 2], NChunk=3, FixedVals=False)] if quick else \
            [dict(MaxN=7, Keys=[1, 2, 3], Vals=[0, 1, 2], NChunk=2, FixedVals=True),
             dict(MaxN=10, Keys=[1, 2], Vals=[0, 1, 2, 3], NChunk=3, FixedVals=True),
             dict(MaxN=5, Keys=[1, 2], Vals=[0, 1, 2], NChunk=3, FixedVals=False)]
    for i, c in enumerate(plans):
        res = ctx.tlc("MC_C11", tag="MC_C11_%d" % i, spec="Spec", constants=c, invariants=invs, coverage=True)
        ctx.require_actions(res, "MC_C11", ["Consume", "Finish"])
        vectors += res.vectors
    ctx.sample(vectors[17])
    ctx.absorb(core.pmap(check_vector, vectors, chunk=20))
    ctx.exhaustive = True
    return ctx.finish(RULE, assumptions=[
        "entries are sorted by key (precondition of group-by and of the per-chromosome pipelines)",
        "reductions are compared with the specification's value; genomic pipelines and k-mer counts with the same call on the concatenated data; "
        "records returned by get_data() are compared by the per-base values they describe",
    ])


def replay(d):
    print("replay of C11 case:", d.get("what"), d.get("tags"))
    v = d["vector"]
    print("  data", v["data"], "cuts", v["cuts"])
    r = check_vector(v)
    same = [b for b in r["bad"] if b["tags"]["op"] == d["tags"]["op"]]
    for b in same[:3]:
        print("  disagrees:", b["what"], "expected", str(b["expected"])[:200], "observed", str(b["observed"])[:200])
    if not same:
        print("  agrees now")
    return 1 if same else 0
