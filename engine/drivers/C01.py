"""C01 — chunked reading loses, duplicates or reorders no entry, for any chunk size.

Binding A: every completed behaviour of the L1 model (spec/ChunkReader.tla via MC_C01: all entry
sequences x CRLF x final newline x K in 1..|file|+2 x seek/carry) is concretised byte-exactly for
the smallest format of each cut-rule family (BED3, two-line FASTA, FASTQ, wrapped FASTA) and read
by the real NumpyFileReader/NpDataclassReader, lazily and eagerly.  Verdict: the concatenated
chunks must be the file's entries (L0).  The model's predicted chunk sizes / raw reads / line
counter are compared too, but a difference there is only mechanism drift.
Binding B: all other formats (BED6, bedGraph, narrowPeak, VCF, SAM, GTF) and larger files are read
by the real code for every/sampled K, plain BytesIO, carry mode, real files and real gzip files; one
event per read_chunk return is recorded and TLC validates each trace against the L0 guards
(spec/Trace_C01.tla + ChunkL0.tla).
"""
import gzip
import json
import numpy as np
import os
import random

from .. import core, formats
from ..core import outcome

FAMILIES = {
    # family: (E, Shapes definition, exact format)
    "delim":   (1, "ShapesDelim", "bed3"),
    "twoline": (2, "ShapesTwoLine", "fasta2"),
    "fastq":   (4, "ShapesFastq", "fastq"),
    "wrapped": (0, "ShapesWrapped", "fasta"),
}
SHAPES = {
    "delim": [[5], [6], [9]],
    "twoline": [[2, 1], [3, 4]],
    "fastq": [[2, 1, 1, 1], [3, 2, 1, 2], [2, 3, 3, 3]],
    "wrapped": [[2, 1], [3, 2, 2, 1], [2, 3, 3]],
}
RULE = ("A: one case = one completed behaviour of ChunkReader L1 (entry-shape sequence, CRLF, final newline, chunk size K, "
        "seek/carry mode) replayed into the real reader lazily and eagerly; B: one case = one recorded real execution "
        "(format, file, K, source kind, lazy) validated by TLC against L0; non-trivial = K smaller than the file so that "
        "more than one raw read / a cut inside the file happens; distinct by full configuration")


def _join(tables):
    """the chunks concatenated in order by the library itself (np.concatenate), as the property words it"""
    return tables[0] if len(tables) == 1 else np.concatenate(tables)


def read_chunked(fmt, data, K, lazy, prepend, hdr_len=0, joined=False):
    """Run the real chunked reader; returns dict(chunks=[rows...], status, sizes, reads, lines).
    joined: the chunk tables are kept and concatenated by np.concatenate; the result is delivered as one chunk."""
    rd, f, r = formats.open_reader(fmt, data, lazy, prepend)
    calls = _tap_read_chunk(rd)
    chunks = []
    tables = []
    sizes = []
    lines = []
    status = "Stop"
    msg = None
    o = outcome(lambda: iter(rd.read_chunks(min_chunk_size=K)))
    it = o[1] if o[0] == "ok" else None
    if it is None:
        status, msg = "Fail", o[1]
    while it is not None:
        o = outcome(lambda: next(it, None))
        if o[0] == "err":
            status, msg = "Fail", o[1]
            break
        c = o[1]
        if c is None:
            break
        if joined:
            tables.append(c)
            continue
        p = outcome(formats.project_table, c)
        if p[0] == "err":
            status, msg = "Fail", "projection: " + p[1]
            break
        chunks.append(p[1])
    if joined and status == "Stop" and tables:
        if joined == "heads":
            for t_ in tables:                                   # the head of EVERY chunk (selections sharing the chunks' tables) is looked at, the chunks themselves are not
                outcome(formats.project_table, t_[:2])
        if joined == "peek" and len(tables) > 1:
            outcome(formats.project_table, tables[0][:2])      # the head of the first chunk (a selection that shares the chunk's tables) is looked at,
            outcome(formats.project_table, tables[0])          # then every column of the FIRST chunk, before the chunks are joined
        p = outcome(lambda: formats.project_table(_join(tables)))
        if p[0] == "err":
            status, msg = "JoinFail", "np.concatenate of the chunks: " + p[1]
        else:
            chunks.append(p[1])
    reads = [x[2] for x in f.log if x[0] == "read"]
    sizes = [c[1] for c in calls if c[0] > 0]
    lines = [c[2] for c in calls if c[0] > 0]
    lines = lines[-1:] if joined else lines[:len(chunks)]
    return {"chunks": chunks, "status": status, "msg": msg, "sizes": sizes, "reads": reads, "lines": lines}


def _tap_read_chunk(rd):
    """Observe NpDataclassReader.read_chunk at its return (the stream wrapper reads one chunk ahead,
    so counters must be sampled here, not when the consumer sees the chunk). No source change:
    the bound method is wrapped on this instance only."""
    calls = []
    inner = rd.read_chunk
    reader = rd._reader

    def tapped(*a, **k):
        b0 = reader.n_bytes_read
        c = inner(*a, **k)
        calls.append((len(c), reader.n_bytes_read - b0, reader.n_lines_read))
        return c
    rd.read_chunk = tapped
    return calls


def _events(res, rows):
    """Turn an observed execution into L0 events: ids are positions in the file's entry list."""
    ev = []
    nxt = 0
    for ch, ln in zip(res["chunks"], res["lines"]):
        ids = []
        intact = True
        for row in ch:
            # identify the row: its position in the file if it equals the next expected entry, else search
            if nxt < len(rows) and row == rows[nxt]:
                ids.append(nxt + 1)
                nxt += 1
            else:
                cand = [j for j, r in enumerate(rows) if r == row]
                if cand:
                    ids.append(cand[0] + 1)
                    nxt = cand[0] + 1
                else:
                    cand = [j for j, r in enumerate(rows) if r[0] == row[0]]
                    ids.append(cand[0] + 1 if cand else 0)
                    intact = False
        ev.append({"ev": "Deliver", "ids": ids, "intact": intact, "lines": ln})
    if res.get("count") is not None:
        ev.append({"ev": "Count", "n": res["count"]})
    ev.append({"ev": res["status"]})
    return ev


def check_vector(v):
    """Binding A: one completed model behaviour -> real reader, lazy and eager."""
    fam = v["family"]
    fmt = FAMILIES[fam][2]
    cfg = v["cfg"]
    specs = [SHAPES[fam][i - 1] for i in cfg["es"]]
    data, rows, lens, _ = formats.render(fmt, specs, crlf=cfg["crlf"], finalnl=cfg["finalnl"])
    assert len(data) == cfg["flen"], (len(data), cfg)
    K = cfg["K"]
    bad, drift = [], []
    n = 0
    tags0 = {"family": fam, "format": fmt, "mode": cfg["mode"], "crlf": cfg["crlf"], "finalnl": cfg["finalnl"]}
    whole = outcome(lambda: formats.project_table(formats.open_reader(fmt, data, None)[0].read()))
    n += 1
    if whole != ("ok", rows):
        bad.append({"what": "read() of the whole file differs from the file's entries", "tags": dict(tags0, op="read"),
                    "vector": v, "expected": rows, "observed": whole})
    for lazy in (True, False):
        res = read_chunked(fmt, data, K, lazy, cfg["mode"] == "prepend")
        n += 1
        got = [r for c in res["chunks"] for r in c]
        tags = dict(tags0, lazy=lazy, op="read_chunks")
        if res["status"] == "Fail":
            if not K < max(lens):
                bad.append({"what": "chunked read raised although the chunk size holds every entry", "tags": tags,
                            "vector": v, "expected": rows, "observed": res["msg"]})
        elif got != rows:
            kind = "fewer" if len(got) < len(rows) else ("more" if len(got) > len(rows) else "different")
            bad.append({"what": "completed chunked read returned %s entries than the file holds" % kind,
                        "tags": dict(tags, kind=kind), "vector": v, "expected": rows, "observed": got})
        elif any(len(c) == 0 for c in res["chunks"]):
            bad.append({"what": "empty chunk delivered", "tags": tags, "vector": v, "expected": rows, "observed": res["chunks"]})
        else:
            if res["sizes"] != v["sizes"] or res["reads"] != v["reads"] or (res["lines"] and res["lines"][-1] != v["lines"]):
                drift.append({"cfg": cfg, "family": fam, "model": {"sizes": v["sizes"], "reads": v["reads"], "lines": v["lines"]},
                              "code": {"sizes": res["sizes"], "reads": res["reads"], "lines": res["lines"][-1:]}})
        # the same chunks concatenated by the library (np.concatenate) instead of row by row; also after a look at the first chunk only
        for jn in (True, "peek", "heads"):
            resj = read_chunked(fmt, data, K, lazy, cfg["mode"] == "prepend", joined=jn)
            n += 1
            gotj = [r for c in resj["chunks"] for r in c]
            if resj["status"] == "JoinFail" or (resj["status"] == "Stop" and res["status"] == "Stop" and gotj != rows):
                bad.append({"what": "np.concatenate of the chunks differs from the file's entries", "tags": dict(tags0, lazy=lazy, op="read_chunks+concatenate", first_chunk_looked_at=jn == "peek", heads_looked_at=jn == "heads"),
                            "vector": v, "expected": rows, "observed": resj["msg"] or gotj})
        # the chunk stream re-cut into chunks of exactly nl entries (parser.chunk_lines): still the file's entries, in order
        if res["status"] == "Stop" and len(rows) >= 2:
            for nl in (2, 3):
                def relined():
                    from bionumpy.io.parser import chunk_lines
                    rd, _f, _r = formats.open_reader(fmt, data, lazy, cfg["mode"] == "prepend")
                    return [formats.project_table(c) for c in chunk_lines(rd.read_chunks(min_chunk_size=K), nl)]
                o = outcome(relined)
                n += 1
                gotl = [c for c in o[1] if c] if o[0] == "ok" else None
                if gotl is None or [r for c in gotl for r in c] != rows or any(len(c) != nl for c in gotl[:-1]) or (gotl and len(gotl[-1]) > nl):
                    bad.append({"what": "the chunks re-cut with chunk_lines are not the file's entries in chunks of the asked size", "tags": dict(tags0, lazy=lazy, op="read_chunks+chunk_lines", n_lines=nl),
                                "vector": v, "expected": rows, "observed": o[1] if o[0] == "err" else gotl})
                    break
    nt = ["%s|%s" % (fam, json.dumps(cfg, sort_keys=True))] if K < cfg["flen"] else []
    return {"n": n, "nt": nt, "bad": bad, "drift": drift[:1]}


# ------------------------------------------------------------------------------------------------
# binding B
# ------------------------------------------------------------------------------------------------

def record_trace(job):
    """job = dict(tid, fmt, specs, crlf, finalnl, K, src, lazy). Returns trace dict for TLC."""
    fmt = job["fmt"]
    data, rows, lens, hdr = formats.render(fmt, job["specs"], crlf=job["crlf"], finalnl=job["finalnl"])
    K = job["K"]
    src = job["src"]
    if src in ("mem", "mem-carry"):
        res = read_chunked(fmt, data, K, job["lazy"], src == "mem-carry", joined=(("peek", "heads", True)[job["tid"] % 3] if job.get("joined") else False))
        if res["status"] == "JoinFail":
            res["status"] = "Stop"          # the read completed; what it delivered could not be concatenated: nothing delivered, Stop is rejected
    else:
        import bionumpy as bnp
        suffix = formats.FORMATS[fmt]["suffix"] + (".gz" if src == "gzip" else "")
        path = os.path.join(job["dir"], "t%d%s" % (job["tid"], suffix))
        with (gzip.open(path, "wb") if src == "gzip" else open(path, "wb")) as f:
            f.write(data)
        res = {"chunks": [], "status": "Stop", "msg": None, "lines": []}
        kw = {}
        bt = formats.buffer_type(fmt)
        if bt is not None:
            kw["buffer_type"] = bt

        def run():
            rd = bnp.open(path, lazy=job["lazy"], **kw)
            calls = _tap_read_chunk(rd)
            try:
                if job.get("then_read"):
                    # one chunk, then the rest of the file in one read()
                    c = rd.read_chunk(min_chunk_size=K)
                    res["chunks"].append(formats.project_table(c))
                    rest = rd.read()
                    if len(rest):
                        res["chunks"].append(formats.project_table(rest))
                else:
                    for c in rd.read_chunks(min_chunk_size=K):
                        res["chunks"].append(formats.project_table(c))
            finally:
                res["lines"] = [c[2] for c in calls if c[0] > 0][:len(res["chunks"])]
                while len(res["lines"]) < len(res["chunks"]):        # read() is not a tapped read_chunk call: no line counter for it
                    res["lines"].append(res["lines"][-1] if res["lines"] else 0)
                rd.close()
        o = outcome(run)
        if o[0] == "err":
            res["status"], res["msg"] = "Fail", o[1]
        else:
            # the entries of the same file counted without parsing them, and the whole file through bnp.read
            c = outcome(lambda: int(bnp.count_entries(path, **kw)))
            res["count"] = c[1] if c[0] == "ok" else -1
            if not job.get("then_read") and job["K"] % 3 == 0:
                from bionumpy.io.files import read as bnp_read
                w = outcome(lambda: formats.project_table(bnp_read(path, **kw)))
                if w[0] == "err" or w[1] != [r for ch in res["chunks"] for r in ch]:
                    res["count"] = -2          # bnp.read differs from the chunks: reported through the Count clause
        os.remove(path)
    nl_per_entry = [t.count("\n") for t in _entry_texts(fmt, job["specs"], job["crlf"])]
    tr = {"tid": job["tid"], "n": len(rows), "K": K, "maxlen": max(lens), "entryLines": nl_per_entry, "bad": 0,
          "events": _events(res, rows)}
    meta = {"job": {k: job[k] for k in job if k != "dir"}, "msg": res["msg"],
            "observed": [r for c in res["chunks"] for r in c][:50], "expected_n": len(rows), "flen": len(data)}
    return {"trace": tr, "meta": meta}


def _entry_texts(fmt, specs, crlf):
    out = []
    f = formats.FORMATS[fmt]
    for i, s in enumerate(specs):
        lines, _ = f["rec"](i, tuple(s) if isinstance(s, (list, tuple)) else s)
        out.append("".join(l + "\n" for l in lines))
    return out


def validate_traces(ctx, recs, tag="Trace_C01"):
    path = os.path.join(ctx.work, tag + ".json")
    with open(path, "w") as f:
        json.dump([r["trace"] for r in recs], f)
    res = ctx.tlc("Trace_C01", tag=tag, workers=1, env={"TRACE_FILE": path}, init="Init", next_="Next",
                  postcondition="Post")
    rejected = {}
    accepted = None
    drift_tids = set()
    for line in res.printed:
        parts = [p.strip().strip('"') for p in line.strip("<>").split(",", 3)]
        if parts[0] == "REJECT":
            rejected[int(parts[1])] = (int(parts[2]), parts[3])
        elif parts[0] == "ACCEPTED":
            accepted = int(parts[1])
        elif parts[0] == "DRIFT":
            drift_tids.add(int(parts[1]))
    if accepted is None or accepted + len(rejected) != len(recs):
        raise core.MachineryFailure("trace validation bookkeeping mismatch: accepted=%s rejected=%d of %d (%s)"
                                    % (accepted, len(rejected), len(recs), res.out_path))
    bad = []
    by = {r["trace"]["tid"]: r for r in recs}
    fmts = sorted({by[t]["meta"]["job"]["fmt"] for t in drift_tids})
    if drift_tids:
        ctx.drift.append({"line_counter_differs_from_lines_of_delivered_entries": len(drift_tids), "formats": fmts})
    for tid, (l, clause) in rejected.items():
        r = by[tid]
        j = r["meta"]["job"]
        bad.append({"what": "recorded execution rejected by L0: " + clause,
                    "tags": {"format": j["fmt"], "src": j["src"], "lazy": j["lazy"], "crlf": j["crlf"],
                             "finalnl": j["finalnl"], "clause": clause.split(":")[0], "binding": "B", "mode": "chunk-then-read" if j.get("then_read") else ("chunks-joined" if j.get("joined") else "chunks")},
                    "group": {"format": j["fmt"], "src": j["src"], "clause": clause},
                    "trace_job": j, "expected": "all %d entries in order" % r["trace"]["n"],
                    "observed": {"events": r["trace"]["events"], "msg": r["meta"]["msg"]}})
    return bad, accepted


def check_big_default(job):
    """A file of several megabytes read with the DEFAULT chunk size (5 000 000 bytes) and counted (count_entries works in chunks of
    500 000 bytes): the entries are those of a small file repeated (the meaning of a file is the sequence of its records, so the file
    repeated m times holds its entries m times, ChunkL0), compared chunk by chunk."""
    import bionumpy as bnp
    fmt, src, d = job
    specs = [(i * 5) % 3 for i in range(7)] if not formats.FORMATS[fmt]["exact"] else [SHAPES[formats.FORMATS[fmt]["family"]][i % len(SHAPES[formats.FORMATS[fmt]["family"]])] for i in range(7)]
    data, rows, lens, hdr = formats.render(fmt, specs)
    body = data[hdr:]
    m = 11_000_000 // len(body) + 1
    path = os.path.join(d, "big_%s_%d%s%s" % (fmt, os.getpid(), formats.FORMATS[fmt]["suffix"], ".gz" if src == "gzip" else ""))
    with (gzip.open(path, "wb", compresslevel=1) if src == "gzip" else open(path, "wb")) as f:
        f.write(data[:hdr])
        for _ in range(m):
            f.write(body)
    n_total = m * len(rows)
    bad, calls = [], 0
    kw = {}
    bt = formats.buffer_type(fmt)
    if bt is not None:
        kw["buffer_type"] = bt

    def chunks():
        pos, nchunks = 0, 0
        for c in bnp.open(path, **kw).read_chunks():
            got = formats.project_table(c)
            k0 = pos % len(rows)
            want = (rows[k0:] + rows * (len(got) // len(rows) + 1))[:len(got)]
            if got != want:
                first = next(i for i, (a, b) in enumerate(zip(got, want)) if a != b)
                return {"ok": False, "at": pos + first, "got": got[first], "want": want[first]}
            pos += len(got)
            nchunks += 1
        return {"ok": pos == n_total, "entries": pos, "chunks": nchunks}
    o = outcome(chunks)
    calls += 1
    if o[0] != "ok" or not o[1]["ok"]:
        bad.append({"what": "a %s file of %d entries read with the default chunk size differs from its entries" % (fmt, n_total), "tags": {"format": fmt, "src": src, "op": "read_chunks[default size]", "binding": "A"},
                    "vector": {"fmt": fmt, "entries": n_total}, "expected": n_total, "observed": str(o)[:300]})
    o = outcome(lambda: int(bnp.count_entries(path, **kw)))
    calls += 1
    if o != ("ok", n_total):
        bad.append({"what": "count_entries of a %s file of %d entries" % (fmt, n_total), "tags": {"format": fmt, "src": src, "op": "count_entries[big]", "binding": "A"},
                    "vector": {"fmt": fmt, "entries": n_total}, "expected": n_total, "observed": o})
    os.remove(path)
    return {"n": calls, "nt": ["bigdefault|%s|%s" % (fmt, src)], "bad": bad}


def _jobs(ctx, quick):
    rng = random.Random(ctx.seed + 101)
    jobs = []
    tid = 0
    d = ctx.work
    # small files, every K: all formats (incl. the exact ones through real files / gzip)
    small_formats = ["bed6", "bednum", "bedgraph", "narrowpeak", "vcf", "vcfd", "sam", "gtf"]
    for fmt in small_formats:
        for n in ((1, 2, 3) if quick else (1, 2, 3, 4)):
            for wsel in range(2 if quick else 3):
                specs = [(wsel + i) % 3 for i in range(n)]
                for crlf in (False, True):
                    for finalnl in (True, False):
                        data, _, _, hdr = formats.render(fmt, specs, crlf, finalnl)
                        body = len(data) - hdr
                        Ks = range(1, body + 3) if not quick else sorted(set(
                            list(range(1, 6)) + [k for k in range(6, body + 3) if body % k in (0, 1, k - 1) or k >= body - 2]))
                        for K in Ks:
                            for src, lazy in (("mem", True), ("mem-carry", False)) if quick else \
                                    (("mem", True), ("mem", False), ("mem-carry", True), ("mem-carry", False)):
                                tid += 1
                                jobs.append(dict(tid=tid, fmt=fmt, specs=specs, crlf=crlf, finalnl=finalnl, K=K,
                                                 src=src, lazy=lazy, dir=d))
                                if n >= 2 and K <= body // 2 + 1:
                                    # several chunks, concatenated by np.concatenate and delivered as one table
                                    tid += 1
                                    jobs.append(dict(tid=tid, fmt=fmt, specs=specs, crlf=crlf, finalnl=finalnl, K=K,
                                                     src=src, lazy=lazy, dir=d, joined=True))
    # exact formats through real plain and gzip files
    for fam, (_, _, fmt) in FAMILIES.items():
        shapes = SHAPES[fam]
        for n in (1, 2, 3):
            specs = [shapes[(i + n) % len(shapes)] for i in range(n)]
            for crlf in (False, True):
                for finalnl in (True, False):
                    data, _, _, _ = formats.render(fmt, specs, crlf, finalnl)
                    for K in range(1, len(data) + 3):
                        if quick and K % 2 and K < len(data) - 1:
                            continue
                        for src in ("file", "gzip"):
                            tid += 1
                            jobs.append(dict(tid=tid, fmt=fmt, specs=specs, crlf=crlf, finalnl=finalnl, K=K,
                                             src=src, lazy=bool(K % 2), dir=d))
                            if n >= 2 and K < len(data):
                                tid += 1
                                jobs.append(dict(tid=tid, fmt=fmt, specs=specs, crlf=crlf, finalnl=finalnl, K=K,
                                                 src=src, lazy=bool(K % 2), dir=d, then_read=True))
    # larger files, sampled K
    nbig = 150 if quick else 1500
    allf = list(formats.FORMATS)
    for _ in range(nbig):
        fmt = rng.choice(allf)
        n = rng.randint(5, 40)
        if formats.FORMATS[fmt]["exact"]:
            fam = formats.FORMATS[fmt]["family"]
            specs = [rng.choice(SHAPES[fam]) for _ in range(n)]
            if fmt == "bed3":
                specs = [[rng.choice([5, 6])] if i < 9 else [9] for i in range(n)]
        else:
            specs = [rng.randint(0, 2) for _ in range(n)]
        crlf, finalnl = rng.random() < 0.3, rng.random() < 0.5
        data, _, lens, hdr = formats.render(fmt, specs, crlf, finalnl)
        body = len(data) - hdr
        pick = rng.random()
        if pick < 0.3:
            K = max(lens) + rng.randint(0, 3)
        elif pick < 0.6:
            divs = [k for k in range(max(lens), body + 1) if body % k == 0] or [body]
            K = rng.choice(divs)
        else:
            K = rng.randint(max(lens), body + 2)
        tid += 1
        jobs.append(dict(tid=tid, fmt=fmt, specs=specs, crlf=crlf, finalnl=finalnl, K=K,
                         src=rng.choice(["mem", "mem-carry", "file", "gzip"]), lazy=rng.random() < 0.5, dir=d))
    return jobs


def run(ctx):
    quick = ctx.tier == "quick"
    invs = ["NoDupOrReorder", "Complete", "LinesCounted", "CarryIsSuffix", "WholeEntries", "TypeOK", "Emit"]
    vectors = []
    for fam, (E, shapes, fmt) in FAMILIES.items():
        maxe = (3 if fam in ("delim", "twoline") else 2) if quick else (4 if fam in ("delim", "twoline") else 3)
        res = ctx.tlc("MC_C01", tag="MC_C01_" + fam, spec="Spec",
                      constants={"E": E, "Shapes": "<- " + shapes, "MaxEntries": maxe, "AsBuilt": False,
                                 "Modes": ["seek", "prepend"]},
                      invariants=invs, properties=["DeliveredGrows"] + ([] if quick else []), coverage=True)
        ctx.require_actions(res, "MC_C01", ["Start", "RawRead", "Cut"])
        for v in res.vectors:
            v["family"] = fam
            if not v["complete"]:
                raise core.MachineryFailure("model behaviour incomplete although invariant Complete passed")
        vectors += res.vectors
    if not quick:
        # liveness of the mechanism (every behaviour reaches "done") on a smaller instance, and the
        # as-built end-of-file rule as a regression witness: TLC must refute Complete for it
        ctx.tlc("MC_C01", tag="MC_C01_live", spec="Spec",
                constants={"E": 1, "Shapes": "<- ShapesDelim", "MaxEntries": 2, "AsBuilt": False, "Modes": ["seek", "prepend"]},
                invariants=["TypeOK"], properties=["Terminates"])
        r = core.run_tlc("MC_C01", ctx.work, tag="MC_C01_asbuilt", spec="Spec", expect_ok=False,
                         constants={"E": 1, "Shapes": "<- ShapesDelim", "MaxEntries": 1, "AsBuilt": True, "Modes": ["seek"]},
                         invariants=["Complete"])
        if not any("Complete is violated" in e for e in r.errors):
            raise core.MachineryFailure("as-built end-of-file rule no longer refuted by TLC: the model lost its teeth")
        ctx.notes.append("AsBuilt=TRUE instance (end of file inferred from a short read only): TLC refutes Complete, as expected")
    ctx.sample(vectors[0])
    ctx.sample(vectors[len(vectors) // 2])
    ctx.absorb(core.pmap(check_vector, vectors, chunk=40))
    # files of about 11 MB with the default chunk size, plain and gzip
    bigs = [("bed6", "file"), ("fastq", "gzip"), ("fasta", "file")] if quick else [(f, s_) for f in ("bed6", "fastq", "fasta", "vcfd", "sam", "fasta2") for s_ in ("file", "gzip")]
    ctx.absorb(core.pmap(check_big_default, [(f, s_, ctx.work) for f, s_ in bigs], chunk=1))
    # binding B
    jobs = _jobs(ctx, quick)
    recs = core.pmap(record_trace, jobs, chunk=40)
    bad, accepted = validate_traces(ctx, recs)
    for b in bad:
        ctx.disagree(b)
    ctx.count(evaluations=len(recs), traces=len(recs),
              nontrivial_keys=["B|%d" % r["trace"]["tid"] for r in recs if r["trace"]["K"] < r["meta"]["flen"]])
    ctx.sample({"binding": "B", "job": recs[0]["meta"]["job"], "trace": recs[0]["trace"]})
    ctx.exhaustive = True
    return ctx.finish(RULE, assumptions=[
        "files are well-formed and every entry fits the chunk size unless the escape clause (error allowed) applies",
        "exhaustive part: <=3 (quick) / <=4 (thorough) entries over the listed line-length shapes; larger files are sampled",
        "gzip is exercised through real .gz files (bnp.open) and through the carry-over mode on in-memory files",
    ])


def replay(d):
    print("replay of C01 case:", d.get("what"), d.get("tags"))
    if "vector" in d:
        r = check_vector(d["vector"])
        for b in r["bad"]:
            print("  disagrees:", b["what"], b["tags"], "observed", str(b["observed"])[:300])
        if not r["bad"]:
            print("  agrees now")
        return 1 if r["bad"] else 0
    ctx = core.Ctx("C01", "quick", 0)
    job = dict(d["trace_job"], dir=ctx.work, tid=1)
    bad, _ = validate_traces(ctx, [record_trace(job)])
    for b in bad:
        print("  rejected:", b["what"], str(b["observed"])[:400])
    if not bad:
        print("  accepted now")
    import shutil
    shutil.rmtree(ctx.work, ignore_errors=True)
    return 1 if bad else 0
