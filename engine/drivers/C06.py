"""C06 — alphabet encodings accept exactly their alphabet and never change the text.

spec/Encoding.tla: membership/Encode/Decode for the ten predefined alphabets and a state machine of one
encoded value moved between alphabets by Retarget (as_encoded_array on encoded data) and Change
(change_encoding), with invariant TextPreserved.  TLC prints (i) the complete byte table 0..255 of every
alphabet, (ii) every reachable value state (text, operations, status, decoded text).  Binding A replays
them into bionumpy with str / list / encoded array / encoded ragged inputs.
"""
import json

import numpy as np

from .. import core
from ..core import outcome

RULE = ("tables: one case per (alphabet, byte 0..255) and per (alphabet, text with one foreign byte at each position, input form); "
        "values: one case per reachable state of the Encoding value machine (initial text over probe characters in both cases, "
        "up to MaxOps retarget/change operations) x input form; non-trivial = a foreign/aliased byte, or at least one "
        "retarget/change; distinct by full case")


def _encodings():
    from bionumpy.encodings import alphabet_encoding as ae
    return {"ACTG": ae.ACTGEncoding, "ACGT": ae.ACGTEncoding, "ACTGN": ae.ACTGnEncoding, "ACGTN": ae.ACGTnEncoding,
            "DIGIT": ae.DigitEncoding, "ACUG": ae.ACUGEncoding, "AMINO": ae.AminoAcidEncoding, "BAM": ae.BamEncoding,
            "CIGAR": ae.CigarOpEncoding, "STRAND": ae.StrandEncoding, "USER": _user_alphabet(), "BRACKET": _user_alphabet(1)}


_USER = []


def _user_alphabet(which=0):
    if not _USER:
        from bionumpy.encodings.alphabet_encoding import AlphabetEncoding
        _USER.append(AlphabetEncoding("ACDEFGHIKLMNPQRSTVWYBZX*"))
        _USER.append(AlphabetEncoding("[{]}()<>"))
    return _USER[which]


def _make(data, form):
    """bytes (list of ints) -> input object of the given form for as_encoded_array"""
    import bionumpy as bnp
    from bionumpy.encoded_array import EncodedArray, EncodedRaggedArray, BaseEncoding
    arr = np.array(data, dtype=np.uint8)
    if form == "str":
        return "".join(chr(b) for b in data)
    if form == "list":
        return ["".join(chr(b) for b in data), "".join(chr(b) for b in data[:1])]
    if form == "base":
        return EncodedArray(arr, BaseEncoding)
    if form == "ragged":
        return EncodedRaggedArray(EncodedArray(np.concatenate([arr, arr[:1]]), BaseEncoding), [len(arr), min(1, len(arr))])
    if form == "npstr":
        return np.array(["".join(chr(b) for b in data), "".join(chr(b) for b in data[:1])])          # a NumPy array of str (dtype U)
    raise ValueError(form)


def _decoded(x, form, n):
    """decoded text of the FIRST row as list of byte codes"""
    from bionumpy.encoded_array import EncodedArray, EncodedRaggedArray
    rows = None
    if isinstance(x, EncodedRaggedArray):
        # decode the ragged array itself FIRST, while it may still be a lazily indexed view (ravel() materialises it)
        rows = [[ord(c) for c in r] for r in x.encoding.decode(x).tolist()]
    dec = x.encoding.decode(x.ravel() if isinstance(x, EncodedRaggedArray) else x)
    flat = [int(b) for b in np.asarray(dec.raw()).ravel().tolist()]
    if isinstance(x, EncodedRaggedArray):
        lens0 = [int(l) for l in x.lengths.tolist()]
        off, want_rows = 0, []
        for l in lens0:
            want_rows.append(flat[off:off + l])
            off += l
        if rows != want_rows:
            return ("row-wise decode differs", rows, want_rows)
    if form in ("list", "ragged"):
        lens = [int(l) for l in x.lengths.tolist()] if isinstance(x, EncodedRaggedArray) else None
        if lens != [n, min(n, 1)] or flat[n:] != flat[:1]:
            return ("bad-shape", lens, flat)
        return flat[:n]
    return flat


class _Silent(Exception):
    pass


def check_vector(v):
    import bionumpy as bnp
    from bionumpy.encoded_array import change_encoding
    encs = _encodings()
    bad, n, nt = [], 0, []
    if v["kind"] == "table":
        A = v["enc"]
        e = encs[A]
        alpha_first = next(b for b, c in enumerate(v["table"]) if c == 0 and b < 97)
        for b, form in [(b, "str" if b < 128 else "base") for b in range(len(v["table"]))] + [(b, "str") for b in range(128, len(v["table"]))]:
            code = v["table"][b]
            # a Python str holding a character >= 128 (not a member of any alphabet) between two members must be refused like any foreign character
            data1 = [b] if not (form == "str" and b >= 128) else [alpha_first, b, alpha_first]
            o = outcome(lambda: bnp.as_encoded_array(_make(data1, form), e).raw().ravel().tolist())
            n += 1
            exp = ("ok", [code]) if code >= 0 else "raise"
            if (exp == "raise" and o[0] != "err") or (exp != "raise" and o != exp):
                bad.append({"what": "byte %d (%r) %s by alphabet %s" % (b, chr(b), "wrongly accepted" if exp == "raise" else "not encoded as its code", A),
                            "tags": {"op": "encode-byte", "alphabet": A, "byte": b, "expected": "reject" if exp == "raise" else "accept"},
                            "vector": {"kind": "table", "enc": A, "table": v["table"], "foreign": []}, "expected": exp, "observed": o})
        # texts over the alphabet with one foreign byte at every position
        members = [b for b, c in enumerate(v["table"]) if c >= 0 and b < 128][:3]
        for fb in v["foreign"]:
            for pos in range(3):
                data = members[:pos] + [fb] + members[pos:2]
                # (NumPy drops NULs at the end of a str element, so a NUL is only a character of the text when something follows it)
                for form in (("str", "list") + (("npstr",) if not (fb == 0 and pos == 2) else ()) if fb < 128 else ("base", "ragged")):
                    o = outcome(lambda: bnp.as_encoded_array(_make(data, form), e))
                    n += 1
                    nt.append("f|%s|%d|%d|%s" % (A, fb, pos, form))
                    if o[0] != "err":
                        bad.append({"what": "text with a character outside alphabet %s was encoded without an error" % A,
                                    "tags": {"op": "encode-foreign", "alphabet": A, "byte": fb, "form": form},
                                    "vector": v, "expected": "raise", "observed": str(o)[:200], "case": {"data": data}})
        # characters beyond Latin-1 whose code point is 256 * k above a member (or its lower-case form): not members of any alphabet
        for m_ in members[:2]:
            for cp in (256 + m_, 512 + m_, 256 + (m_ + 32 if 65 <= m_ <= 90 else m_), 65536 + m_):
                for form, mk in (("str", lambda t: t), ("list", lambda t: [t, t[:1]]), ("npstr", lambda t: np.array([t, t[:1]]))):
                    text_ = chr(members[0]) + chr(cp) + chr(members[0])
                    o = outcome(lambda: bnp.as_encoded_array(mk(text_), e))
                    n += 1
                    if o[0] != "err":
                        bad.append({"what": "text with a character outside alphabet %s was encoded without an error" % A,
                                    "tags": {"op": "encode-foreign", "alphabet": A, "byte": cp, "form": form},
                                    "vector": v, "expected": "raise", "observed": str(o)[:200], "case": {"data": [members[0], cp, members[0]]}})
        return {"n": n, "nt": nt, "bad": bad}
    # value machine
    if v["status"] == "fresh" or v["hist"][-1][0] == "reorder-labels":
        return {"n": 0, "nt": [], "bad": [], "traces": 0}          # reorder-labels states are replayed in processes of their own
    text = v["text"]
    for form in ("str", "list", "base", "ragged"):
        hist = v["hist"]
        cur = None
        rev = False
        st = "ok"
        n += 1
        for op, B in hist:
            if op == "encode":
                o = outcome(lambda: bnp.as_encoded_array(_make(text, form), encs[B]))
            elif op == "reverse":
                if form in ("list", "ragged"):
                    o = outcome(lambda: cur[::-1])
                    rev = not rev
                else:
                    o = ("ok", cur)
            elif op == "scribble-reencode":
                def again():
                    first = cur
                    other = encs[B].get_alphabet()[-1]
                    if form in ("list", "ragged"):
                        first[0, 0:1] = other
                    else:
                        first[0:1] = other
                    return bnp.as_encoded_array(_make(text, form), encs[B])
                o = outcome(again)
            elif op == "retarget":
                o = outcome(lambda: bnp.as_encoded_array(cur, encs[B]))
            elif op == "assign":
                def assign():
                    flat = cur.ravel()[:len(text)] if hasattr(cur, "lengths") else cur
                    target = flat.copy()
                    target[0:len(text)] = bnp.as_encoded_array("".join(chr(b) for b in text), encs[B])
                    return target if form in ("str", "base") else bnp.as_encoded_array([target.to_string(), target.to_string()[:1]], target.encoding)
                o = outcome(assign)
            elif op == "rewrap":
                def rewrap():
                    from bionumpy.encoded_array import EncodedArray, EncodedRaggedArray
                    if isinstance(cur, EncodedRaggedArray):
                        return EncodedRaggedArray(EncodedArray(cur.ravel(), encs[B]), cur.shape)
                    return EncodedArray(cur, encs[B])
                o = outcome(rewrap)
            elif op == "join":
                def join():
                    other_text = "".join(encs[B].get_alphabet())
                    upper_ = [b - 32 if 97 <= b <= 122 else b for b in text]
                    other = bnp.as_encoded_array(other_text, encs[B])
                    if hasattr(cur, "lengths"):
                        out = np.concatenate([cur, bnp.as_encoded_array([other_text], encs[B])])
                        rows = [[ord(c) for c in r] for r in out.encoding.decode(out).tolist()]
                        want_rows = [[ord(c) for c in r] for r in cur.encoding.decode(cur).tolist()] + [[ord(c) for c in other_text]]
                    else:
                        out = np.concatenate([cur, other])
                        rows = [ord(c) for c in out.encoding.decode(out).to_string()]
                        want_rows = upper_ + [ord(c) for c in other_text]
                    if rows != want_rows or out.encoding != cur.encoding:
                        raise _Silent(rows)
                    return cur
                try:
                    o = ("ok", join())
                except _Silent as e:
                    bad.append({"what": "np.concatenate of arrays held in two encodings silently yields different letters", "tags": {"op": "join", "form": form, "from": hist[-2][1], "to": B},
                                "vector": v, "expected": "the two texts one after the other, or an error", "observed": e.args[0]})
                    st = "silent"          # already reported; nothing more to judge for this form
                    break
                except Exception as e:
                    o = ("err", "%s: %s" % (type(e).__name__, e))
            elif op == "collect":
                def collect():
                    other_text = "".join(encs[B].get_alphabet())
                    first = cur.ravel()[:len(text)] if hasattr(cur, "lengths") else cur
                    # single elements (0-d) of the two arrays collected into one flat array: their letters, or an error
                    other = bnp.as_encoded_array(other_text, encs[B])
                    if len(text) and getattr(first, "ndim", 1) == 1:
                        for k_ in (0, len(other_text) - 1):
                            try:
                                pair_ = bnp.as_encoded_array([first[0], other[k_]])
                            except Exception:      # noqa: refused
                                continue
                            got_ = [ord(c) for c in pair_.encoding.decode(pair_).to_string()]
                            up0 = text[0] - 32 if 97 <= text[0] <= 122 else text[0]
                            if got_ != [up0, ord(other_text[k_])]:
                                raise _Silent([got_, "single elements"])
                    out = bnp.as_encoded_array([first, other])
                    rows = [[ord(c) for c in r] for r in out.encoding.decode(out).tolist()]
                    upper_ = [b - 32 if 97 <= b <= 122 else b for b in text]
                    if rows != [upper_, [ord(c) for c in other_text]]:
                        raise _Silent(rows)
                    # both rows kept their letters: present the first row to the common judgement below
                    return bnp.as_encoded_array("".join(chr(b) for b in upper_), out.encoding) if form in ("str", "base") else \
                        bnp.as_encoded_array(["".join(chr(b) for b in upper_), chr(upper_[0])], out.encoding)
                try:
                    o = ("ok", collect())
                except _Silent as e:
                    bad.append({"what": "collecting arrays of two encodings silently yields different letters", "tags": {"op": "collect", "form": form, "from": hist[-2][1], "to": B},
                                "vector": v, "expected": "the two texts, or an error", "observed": e.args[0]})
                    st = "silent"          # already reported; nothing more to judge for this form
                    break
                except Exception as e:
                    o = ("err", "%s: %s" % (type(e).__name__, e))
            else:
                o = outcome(lambda: change_encoding(cur, encs[B]))
            if o[0] == "err":
                st = "raised"
                break
            cur = o[1]
        tags = {"op": hist[-1][0], "form": form, "from": hist[-2][1] if len(hist) > 1 else None, "to": hist[-1][1]}
        if len(hist) > 1:
            nt.append("v|%s|%s" % (form, json.dumps([text, hist])))
        if st == "silent":
            continue
        if st == "raised":
            if hist[-1][0] in ("reverse", "scribble-reencode"):
                bad.append({"what": "%s raised" % hist[-1][0], "tags": tags, "vector": v, "expected": "a value", "observed": o[1]})
            elif v["status"] == "ok":
                # raising is always allowed for retarget/change by the property ("or raises"); for encode it is not
                if hist[-1][0] == "encode":
                    bad.append({"what": "encoding text over the alphabet raised", "tags": tags, "vector": v,
                                "expected": v["codes"], "observed": o[1]})
            continue
        if rev:
            o = outcome(lambda: _decoded(cur[::-1], form, len(text)))
        else:
            o = outcome(_decoded, cur, form, len(text))
        got = o[1]
        want = v["decoded"] if v["status"] == "ok" else None
        upper = [b - 32 if 97 <= b <= 122 else b for b in text]
        if got != upper:
            bad.append({"what": "%s silently yields different letters" % hist[-1][0], "tags": tags, "vector": v,
                        "expected": upper, "observed": got})
        elif v["status"] == "ok" and hist[-1][0] == "encode":
            codes = [int(c) for c in (cur.ravel().raw() if hasattr(cur, "lengths") else cur.raw()).ravel().tolist()][:len(text)]
            if codes != v["codes"]:
                bad.append({"what": "codes differ from the alphabet positions", "tags": tags, "vector": v,
                            "expected": v["codes"], "observed": codes})
    return {"n": n, "nt": nt, "bad": bad}


def check_reorder(v):
    """Encoding.tla!ReorderLabelList, in a process of its own (the predefined encodings are shared objects)."""
    import bionumpy as bnp
    encs = _encodings()
    e = encs[v["enc"]]
    text = "".join(chr(b) for b in v["text"])
    upper = text.upper()

    def go():
        x = bnp.as_encoded_array(text, e)
        for getter in ("get_alphabet", "get_labels"):
            lst = getattr(e, getter)()
            if isinstance(lst, list):
                lst.reverse()
                lst.sort(key=lambda c: -ord(str(c)[0]))
                if lst:
                    lst[0] = "?"
        again = bnp.as_encoded_array(text, e)
        return x.to_string(), again.to_string(), [int(c) for c in again.raw().tolist()]
    o = outcome(go)
    bad = []
    if o != ("ok", (upper, upper, v["codes"])):
        bad.append({"what": "reordering the list returned by get_alphabet()/get_labels() changed what encoded values spell", "tags": {"op": "reorder-labels", "form": "str", "from": v["enc"], "to": v["enc"]},
                    "vector": v, "expected": [upper, upper, v["codes"]], "observed": o})
    return {"n": 1, "nt": ["reorder|" + v["enc"]], "bad": bad}


def run(ctx):
    quick = ctx.tier == "quick"
    res = ctx.tlc("MC_C06", spec="SpecAll", constants={"AsBuilt": False, "MaxLen": 2 if quick else 3, "MaxOps": 3},
                  invariants=["TextPreserved", "CodesInRange", "AlphabetsWellFormed", "RoundTrip", "Emit"],
                  postcondition="EmitTables", coverage=True)
    ctx.require_actions(res, "MC_C06", ["EncodeOp", "Retarget", "Change", "ReverseRows", "ScribbleThenEncodeAgain", "Rewrap", "Collect", "Join", "AssignFrom", "ReorderLabelList"])
    r = core.run_tlc("MC_C06", ctx.work, tag="MC_C06_asbuilt", spec="Spec", expect_ok=False,
                     constants={"AsBuilt": True, "MaxLen": 1, "MaxOps": 2}, invariants=["TextPreserved"])
    if not any("TextPreserved is violated" in e for e in r.errors):
        raise core.MachineryFailure("as-built re-target rule ([:m]) no longer refuted by TLC")
    ctx.notes.append("AsBuilt=TRUE instance (re-target compares alphabet[:m]): TLC refutes TextPreserved")
    vectors = res.vectors
    tables = [v for v in vectors if v["kind"] == "table"]
    if len(tables) != len(_encodings()):
        raise core.MachineryFailure("expected %d alphabet tables, got %d" % (len(_encodings()), len(tables)))
    ctx.sample({"kind": "table", "enc": tables[0]["enc"], "accepted_bytes": [b for b, c in enumerate(tables[0]["table"]) if c >= 0]})
    vals = [v for v in vectors if v["kind"] == "value"]
    ctx.sample(vals[len(vals) // 2])
    ctx.absorb(core.pmap(check_vector, vectors, chunk=100))
    seen, jobs = set(), []
    for v in vectors:
        if v.get("kind") != "table" and v.get("hist") and v["hist"][-1][0] == "reorder-labels" and v["enc"] not in seen and len(v["text"]) >= 2:
            seen.add(v["enc"])
            jobs.append(v)
    ctx.absorb(core.pmap_isolated(check_reorder, jobs))
    ctx.exhaustive = True
    return ctx.finish(RULE, assumptions=[
        "bytes >= 128 are presented as base-encoded arrays (a Python str would not be single bytes)",
        "for re-targeting / change_encoding an exception is always acceptable (the property says 'or raises')",
    ])


def replay(d):
    print("replay of C06 case:", d.get("what"), d.get("tags"))
    r = check_vector(d["vector"])
    same = [b for b in r["bad"] if b["tags"] == d["tags"]]
    for b in same[:5]:
        print("  disagrees:", b["what"], "expected", b["expected"], "observed", str(b["observed"])[:200])
    if not same:
        print("  agrees now")
    return 1 if same else 0
