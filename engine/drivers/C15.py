"""C15 — malformed input is reported, with the right line number, not mis-parsed.

spec/MC_C15.tla runs the L1 chunked reader of ChunkReader.tla on a file whose entry `bad` violates its
format: the chunk containing it is never delivered, cutting it raises an error whose line is the reader's
line counter + the entry's position in the chunk, and TLC checks ErrLineRight / NeverDelivered /
NeverCompletes for every configuration (entry shapes x final newline x every chunk size x seek/carry x bad).
Binding A replays every configuration byte-exactly (BED3: non-numeric value, wrong column count; two-line
FASTA: missing marker; FASTQ: missing marker, missing '+') lazily and eagerly.  Binding B records executions
on more formats/violations (BED6 strand symbol, non-numeric score, narrowPeak float column, VCF position),
real plain and gzip files, and TLC validates them against the L0 guards (Trace_C01/ChunkL0: Error events).
The reported line must also be identical for every chunk size, mode, lazy/eager of the same file.
"""
import gzip
import json
import os
import random

from .. import core, formats
from ..core import outcome
from .C01 import FAMILIES, SHAPES, _tap_read_chunk

RULE = ("one case = (file with one violation of a class at a record position, chunk size, seek/carry/file/gzip, lazy/eager); A: every "
        "configuration of MC_C15 replayed; B: recorded executions validated by TLC against L0; non-trivial = the offending record is "
        "not the first one or the chunk size is smaller than the file; distinct by full configuration")

CLASSES = {"delim": ["non-numeric", "non-numeric-capital", "non-numeric-space", "non-numeric-dollar", "column-count"], "twoline": ["no-marker"], "fastq": ["no-marker", "no-plus"]}
BADCHAR = {"non-numeric": "x", "non-numeric-after-signed": "x", "non-numeric-capital": "X", "non-numeric-space": " ", "non-numeric-dollar": "$"}


def inject(fmt, lines, cls, i=0):
    """return the text lines of one entry with the violation applied (same byte length where possible)"""
    lines = list(lines)
    if cls == "no-marker":
        lines[0] = "x" + lines[0][1:]
    elif cls == "blank-header":
        lines[0] = ""                 # the header line is there but empty: no marker
    elif cls in ("float-interior-minus", "float-two-dots", "float-trailing-minus"):
        cols = lines[0].split("\t")
        j = {"bedgraph": 3, "narrowpeak": 6}[fmt]
        cols[j] = {"float-interior-minus": "10-20", "float-two-dots": "1.2.3", "float-trailing-minus": "7-"}[cls]
        lines[0] = "\t".join(cols)
    elif cls == "no-plus":
        lines[2] = "x" + lines[2][1:]
    elif cls in BADCHAR:
        # the first character of an integer column replaced: by a letter, by a capital that is a digit plus 32 ('X' = '8' + 32), by a
        # character that sorts before '0' like the signs do (a space, '$')
        cols = lines[0].split("\t")
        j = {"vcf": 1, "sam": 3, "gtf": 3, "gffc": 3}.get(fmt, 1)
        cols[j] = BADCHAR[cls] + cols[j][1:]
        lines[0] = "\t".join(cols)
    elif cls == "non-numeric-long-cell":
        # a cell of more than nineteen characters whose offending characters all come before its last nineteen
        cols = lines[0].split("\t")
        cols[1] = "ID" + "0" * 17 + "25"
        lines[0] = "\t".join(cols)
    elif cls == "misplaced-line-break":
        # the line break one field too early: a line with one field too few, then a line with one too many (the deviations cancel)
        cols = lines[0].split("\t")
        lines = ["\t".join(cols[:-1]), "\t".join(cols[-1:] + cols)]
    elif cls == "column-count":
        k = lines[0].rfind("\t")
        lines[0] = lines[0][:k] + "x" + lines[0][k + 1:]
    elif cls == "extra-column":
        lines[0] = lines[0] + "\tx"
    elif cls == "double-columns":
        lines[0] = lines[0] + "\t" + lines[0]          # two records joined by a tab instead of a newline
    elif cls == "bad-symbol":
        cols = lines[0].split("\t")
        cols[5] = "?"
        lines[0] = "\t".join(cols)
    elif cls == "non-numeric-float":
        cols = lines[0].split("\t")
        cols[6] = "1.x"
        lines[0] = "\t".join(cols)
    elif cls == "non-numeric-score":
        cols = lines[0].split("\t")
        cols[4] = "1x" if len(cols[4]) < 2 else cols[4][:-1] + "x"
        lines[0] = "\t".join(cols)
    return lines


def build(fmt, specs, bad, cls, crlf, finalnl):
    f = formats.FORMATS[fmt]
    nl = "\r\n" if crlf else "\n"
    body, rows, elines = [], [], []
    for i, s in enumerate(specs):
        lines, exp = f["rec"](i, tuple(s) if isinstance(s, (list, tuple)) else s)
        if i + 1 == bad:
            lines = inject(fmt, lines, cls, i)
        elif cls == "non-numeric-after-signed" and i + 1 < bad:
            # well-formed rows before the offending one spell their start with an explicit '+' (same value)
            cols = lines[0].split("\t")
            cols[1] = "+" + cols[1]
            lines = ["\t".join(cols)] + lines[1:]
        body.append("".join(l + nl for l in lines) + (("###" + nl) * (1 + i % 2) if f.get("interior_comments") else ""))
        rows.append(exp)
        elines.append(len(lines))
    text = "".join(body)
    if not finalnl:
        text = text[:-len(nl)]
    header = f["header"]
    return (header + text).encode("latin-1"), rows, elines, [len(b) for b in body]


def run_read(fmt, data, K, lazy, src, rows, bad, tmpdir=None, tid=0):
    """Chunked read; returns events for the L0 trace: Deliver* then Stop | Error(line, diagnosed) | Fail"""
    from bionumpy.io.exceptions import FormatException
    events = []
    state = {"nxt": 0}

    def consume(rd):
        calls = _tap_read_chunk(rd)
        it = iter(rd.read_chunks(min_chunk_size=K))
        k = 0
        while True:
            c = next(it, None)
            if c is None:
                break
            proj = formats.project_table(c)          # touches every field of a lazy chunk
            ids = list(range(state["nxt"] + 1, state["nxt"] + len(proj) + 1))
            intact = proj == rows[state["nxt"]:state["nxt"] + len(proj)]
            state["nxt"] += len(proj)
            ln = [x[2] for x in calls if x[0] > 0]
            events.append({"ev": "Deliver", "ids": ids, "intact": intact, "lines": ln[k] if k < len(ln) else -1})
            k += 1

    try:
        if src in ("mem", "mem-carry"):
            rd, _f, _r = formats.open_reader(fmt, data, lazy, src == "mem-carry")
            consume(rd)
        else:
            import bionumpy as bnp
            path = os.path.join(tmpdir, "e%d%s%s" % (tid, formats.FORMATS[fmt]["suffix"], ".gz" if src == "gzip" else ""))
            with (gzip.open(path, "wb") if src == "gzip" else open(path, "wb")) as fh:
                fh.write(data)
            kw = {}
            bt = formats.buffer_type(fmt)
            if bt is not None:
                kw["buffer_type"] = bt
            rd = bnp.open(path, lazy=lazy, **kw)
            try:
                consume(rd)
            finally:
                rd.close()
                os.remove(path)
        events.append({"ev": "Stop"})
    except FormatException as e:
        ln = e.line_number
        events.append({"ev": "Error", "diagnosed": ln is not None, "line": int(ln) if ln is not None else -1, "cls": "FormatException"})
    except BaseException as e:      # noqa: any other error is "an error", without a diagnosed line
        if isinstance(e, (KeyboardInterrupt, SystemExit, MemoryError)):
            raise
        events.append({"ev": "Error", "diagnosed": False, "line": -1, "cls": type(e).__name__, "msg": str(e)[:120]})
    return events


def joined_lines(fmt, data, K, carry):
    """[(k, diagnosed line)] for the lazily read chunks k.. joined before use; chunking errors and undiagnosed errors give nothing"""
    import numpy as np
    from bionumpy.io.exceptions import FormatException
    try:
        rd, _f, _r = formats.open_reader(fmt, data, True, carry)
        chunks = list(rd.read_chunks(min_chunk_size=K))
    except Exception:       # noqa: the malformed record was refused while chunking; that path is judged by run_read
        return []
    out = []
    for k in range(len(chunks) - 1):
        try:
            formats.project_table(np.concatenate(chunks[k:]))
        except FormatException as e:
            if e.line_number is not None:
                out.append((k, int(e.line_number)))
        except Exception:   # noqa
            pass
    return out


def check_vector(v):
    """Binding A: one MC_C15 configuration, each violation class of the family, lazy and eager."""
    fam = v["family"]
    fmt = FAMILIES[fam][2]
    cfg = v["cfg"]
    specs = [SHAPES[fam][i - 1] for i in cfg["es"]]
    bad, n, nt = [], 0, []
    E = FAMILIES[fam][0]
    for cls in CLASSES[fam]:
        data, rows, elines, _ = build(fmt, specs, v["bad"], cls, cfg["crlf"], cfg["finalnl"])
        assert len(data) == cfg["flen"], (len(data), cfg, cls)
        lines_seen = set()
        for lazy in (True, False):
            ev = run_read(fmt, data, cfg["K"], lazy, "mem-carry" if cfg["mode"] == "prepend" else "mem", rows, v["bad"])
            n += 1
            last = ev[-1]
            tags = {"family": fam, "format": fmt, "class": cls, "lazy": lazy, "mode": cfg["mode"]}
            case = {"cfg": cfg, "bad": v["bad"], "class": cls, "data": data.decode("latin-1")}
            delivered = sum(len(e["ids"]) for e in ev if e["ev"] == "Deliver")
            first_line = (v["bad"] - 1) * E
            if last["ev"] == "Stop":
                isolated = cls == "column-count"
                bad.append({"what": "malformed %s file was read to the end without an error" % cls, "tags": dict(tags, kind="no-error"),
                            "vector": v, "case": case, "expected": "an error at line %d" % first_line, "observed": ev})
            elif delivered >= v["bad"]:
                bad.append({"what": "a table was yielded from the malformed record", "tags": dict(tags, kind="yielded"),
                            "vector": v, "case": case, "expected": "error before entry %d" % v["bad"], "observed": ev})
            elif last.get("diagnosed"):
                lines_seen.add(last["line"])
                if not (first_line <= last["line"] < first_line + E):
                    bad.append({"what": "reported line number is not a line of the offending record", "tags": dict(tags, kind="wrong-line"),
                                "vector": v, "case": case, "expected": "line in %d..%d" % (first_line, first_line + E - 1), "observed": last})
            if v["bad"] > 1 or cfg["K"] < cfg["flen"]:
                nt.append("%s|%s|%s|%s" % (fam, cls, lazy, json.dumps([cfg, v["bad"]], sort_keys=True)))
        # lazily read chunks joined (np.concatenate) from chunk k on BEFORE any column is looked at: the line of the offending record is
        # still counted from the start of the data
        jl = joined_lines(fmt, data, cfg["K"], cfg["mode"] == "prepend")
        for k, ln in jl:
            n += 1
            if not (first_line <= ln < first_line + E):
                bad.append({"what": "reported line number is not a line of the offending record after lazily read chunks were joined",
                            "tags": {"family": fam, "format": fmt, "class": cls, "lazy": True, "mode": cfg["mode"], "kind": "wrong-line-joined"},
                            "vector": v, "case": {"cfg": cfg, "bad": v["bad"], "class": cls, "data": data.decode("latin-1"), "joined_from_chunk": k},
                            "expected": "line in %d..%d" % (first_line, first_line + E - 1), "observed": ln})
                break
        if len(lines_seen) > 1:
            bad.append({"what": "lazy and eager reading report different line numbers", "tags": {"family": fam, "class": cls, "kind": "lazy-eager-line"},
                        "vector": v, "expected": "one line", "observed": sorted(lines_seen)})
    return {"n": n, "nt": nt, "bad": bad}


# ------------------------------------------------------------------------------------------------ binding B
BSETS = [("bed6", ["bad-symbol", "non-numeric", "non-numeric-capital", "non-numeric-space", "non-numeric-dollar", "non-numeric-after-signed", "non-numeric-score", "column-count", "extra-column", "double-columns", "non-numeric-long-cell", "misplaced-line-break"]),
         ("narrowpeak", ["non-numeric-float", "bad-symbol", "float-interior-minus"]),
         ("vcf", ["non-numeric"]), ("gffc", ["non-numeric"]), ("bedgraph", ["non-numeric", "non-numeric-after-signed", "float-interior-minus", "float-two-dots", "float-trailing-minus"]), ("bed3", ["non-numeric", "column-count", "extra-column", "double-columns", "non-numeric-long-cell", "misplaced-line-break"]),
         ("fastq", ["no-marker", "no-plus", "blank-header"]), ("fasta2", ["no-marker", "blank-header"])]


def record_trace(job):
    fmt, cls = job["fmt"], job["cls"]
    data, rows, elines, lens = build(fmt, job["specs"], job["bad"], cls, job["crlf"], job["finalnl"])
    ev = run_read(fmt, data, job["K"], job["lazy"], job["src"], rows, job["bad"], tmpdir=job["dir"], tid=job["tid"])
    tr = {"tid": job["tid"], "n": len(rows), "K": job["K"], "maxlen": max(lens), "entryLines": elines, "bad": job["bad"],
          "events": [{k: e[k] for k in e if k in ("ev", "ids", "intact", "lines", "diagnosed", "line")} for e in ev]}
    return {"trace": tr, "meta": {"job": {k: job[k] for k in job if k != "dir"}, "last": ev[-1], "flen": len(data)}}


def _jobs(ctx, quick):
    rng = random.Random(ctx.seed + 15)
    jobs, tid = [], 0
    for fmt, classes in BSETS:
        exact = formats.FORMATS[fmt]["exact"]
        fam = formats.FORMATS[fmt]["family"]
        for cls in classes:
            # 5 records: a first line with one column too many still lets the fields divide evenly among the lines (4+3+3+3+3)
            for n in ((2, 3, 4, 5) if cls in ("column-count", "extra-column", "double-columns") else (2, 3, 4)) if quick else (2, 3, 4, 5):
                specs = [SHAPES[fam][(i + n) % len(SHAPES[fam])] for i in range(n)] if exact else [(i + n) % 3 for i in range(n)]
                if fmt == "bed3":
                    specs = [[5]] * n
                for badi in range(1, n + 1):
                    for finalnl in (True, False):
                        data, _, _, lens = build(fmt, specs, badi, cls, False, finalnl)
                        hdr = len(formats.FORMATS[fmt]["header"])
                        body = len(data) - hdr
                        Ks = sorted(set([1, 2, max(lens), max(lens) + 1, body // 2, body - 1, body, body + 1] +
                                        ([rng.randint(1, body) for _ in range(3)] if quick else list(range(1, body + 2, 3)))))
                        for K in Ks:
                            if K < 1:
                                continue
                            for src, lazy in (("mem", True), ("mem-carry", False), ("file", False), ("gzip", True)):
                                if src in ("file", "gzip") and (quick and K % 3):
                                    continue
                                tid += 1
                                jobs.append(dict(tid=tid, fmt=fmt, cls=cls, specs=specs, bad=badi, crlf=False, finalnl=finalnl, K=K,
                                                 src=src, lazy=lazy, dir=ctx.work))
    return jobs


def validate(ctx, recs):
    path = os.path.join(ctx.work, "c15_traces.json")
    with open(path, "w") as f:
        json.dump([r["trace"] for r in recs], f)
    res = ctx.tlc("Trace_C01", tag="Trace_C15", workers=1, env={"TRACE_FILE": path}, init="Init", next_="Next", postcondition="Post")
    rejected, accepted = {}, None
    for line in res.printed:
        parts = [p.strip().strip('"') for p in line.strip("<>").split(",", 3)]
        if parts[0] == "REJECT":
            rejected[int(parts[1])] = (int(parts[2]), parts[3])
        elif parts[0] == "ACCEPTED":
            accepted = int(parts[1])
    if accepted is None or accepted + len(rejected) != len(recs):
        raise core.MachineryFailure("trace bookkeeping mismatch: %s + %d != %d (%s)" % (accepted, len(rejected), len(recs), res.out_path))
    by = {r["trace"]["tid"]: r for r in recs}
    bad = []
    for tid, (l, clause) in rejected.items():
        r = by[tid]
        j = r["meta"]["job"]
        kind = "no-error" if clause.startswith("Stop") else ("yielded" if clause.startswith("Deliver") else "wrong-line")
        # was the offending record alone in the chunk that delivered it?
        alone = any(e["ev"] == "Deliver" and e["ids"] == [j["bad"]] for e in r["trace"]["events"])
        bad.append({"what": "recorded execution rejected by L0: " + clause,
                    "tags": {"format": j["fmt"], "class": j["cls"], "src": j["src"], "lazy": j["lazy"], "kind": kind, "binding": "B",
                             "bad_record_alone_in_its_chunk": alone},
                    "group": {"format": j["fmt"], "class": j["cls"], "kind": kind},
                    "trace_job": j, "expected": "an error for record %d" % j["bad"], "observed": r["trace"]["events"]})
    return bad, accepted


def run(ctx):
    quick = ctx.tier == "quick"
    invs = ["ErrLineRight", "NeverDelivered", "NeverCompletes", "LinesCounted", "EmitE"]
    vectors = []
    for fam in ("delim", "twoline", "fastq"):
        E, shapes, fmt = FAMILIES[fam]
        maxe = (3 if fam != "fastq" else 2) if quick else (4 if fam != "fastq" else 3)
        res = ctx.tlc("MC_C15", tag="MC_C15_" + fam, spec="SpecE",
                      constants={"E": E, "Shapes": "<- " + shapes, "MaxEntries": maxe, "AsBuilt": False, "Modes": ["seek", "prepend"]},
                      invariants=invs, coverage=True)
        ctx.require_actions(res, "MC_C15", ["Normal", "ErrorAtCut"])
        for v in res.vectors:
            v["family"] = fam
        vs = res.vectors
        if quick:
            vs = [v for i, v in enumerate(vs) if not v["cfg"]["crlf"]]
        vectors += vs
    ctx.sample(vectors[3])
    ctx.absorb(core.pmap(check_vector, vectors, chunk=40))
    jobs = _jobs(ctx, quick)
    recs = core.pmap(record_trace, jobs, chunk=40)
    bad, accepted = validate(ctx, recs)
    # the same file must report the same line for every chunk size / mode / lazy-eager
    groups = {}
    for r in recs:
        j = r["meta"]["job"]
        last = r["meta"]["last"]
        # (a misplaced line break leaves TWO malformed lines; which of them a chunk sees first depends on where the chunk ends, and either is a
        # line of the offending record: the one-line-number rule is for records with one offending line)
        if last["ev"] == "Error" and last.get("diagnosed") and j["cls"] != "misplaced-line-break":
            groups.setdefault(json.dumps([j["fmt"], j["cls"], j["specs"], j["bad"], j["finalnl"]]), {}).setdefault(last["line"], j)
    for key, lines in groups.items():
        if len(lines) > 1:
            j = list(lines.values())[0]
            bad.append({"what": "the reported line number depends on the chunk size / reading mode", "tags": {"format": j["fmt"], "class": j["cls"], "kind": "line-varies", "binding": "B"},
                        "trace_job": j, "expected": "one line number", "observed": {str(k): {"K": v["K"], "src": v["src"], "lazy": v["lazy"]} for k, v in lines.items()}})
    for b in bad:
        ctx.disagree(b)
    ctx.count(evaluations=len(recs), traces=len(recs), nontrivial_keys=["B|%d" % r["trace"]["tid"] for r in recs if r["meta"]["job"]["bad"] > 1])
    ctx.sample({"binding": "B", "job": recs[0]["meta"]["job"], "trace": recs[0]["trace"]})
    ctx.exhaustive = True
    return ctx.finish(RULE, assumptions=[
        "a diagnosed line number is accepted when it is any line of the offending record (its first line for marker errors, the '+' line for FASTQ), zero-based from the start of the data",
        "files carry no header lines; violations: record not starting with its marker, missing '+', non-numeric value in an int/float column, "
        "symbol outside the strand alphabet, a tab replaced so that the line has one column fewer",
        "errors other than FormatException count as 'an error' without a line-number obligation",
    ])


def replay(d):
    print("replay of C15 case:", d.get("what"), d.get("tags"))
    if "vector" in d:
        r = check_vector(d["vector"])
        same = [b for b in r["bad"] if b["tags"].get("kind") == d["tags"].get("kind") and b["tags"].get("class") == d["tags"].get("class")]
    else:
        ctx = core.Ctx("C15", "quick", 0)
        same, _ = validate(ctx, [record_trace(dict(d["trace_job"], dir=ctx.work, tid=1))])
        import shutil
        shutil.rmtree(ctx.work, ignore_errors=True)
    for b in same[:3]:
        print("  disagrees:", b["what"], "expected", str(b["expected"])[:200], "observed", str(b["observed"])[:300])
    if not same:
        print("  agrees now")
    return 1 if same else 0
