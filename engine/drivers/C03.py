"""C03 — write then read returns the same table; writing is canonical and composable.

spec/Writer.tla: a writer receives the rows of a table in successive (possibly empty) pieces, may be closed
and re-opened in append mode; invariant Canonical (target = header once + canonical serialisation of the
rows written so far, Formats.tla!Serialise), action properties OnlyGrows and HeaderOnce.  MC_C03 enumerates
every table of <=MaxRows sample records x every way of splitting it into write calls (incl. empty pieces,
close / append) and prints the bytes.  Binding A builds the table in memory from the specification's values
(or, for the header variant, by reading a VCF with a header), performs exactly those calls on plain and gzip
targets and as one stream, compares the bytes, and reads the file back.
"""
import gzip
import json
import os

import numpy as np

from .. import core
from ..core import outcome
from . import C02

RULE = ("one case = (format, table of sample records, sequence of write calls incl. empty pieces / close / append) = one completed behaviour "
        "of Writer.tla, executed on a plain target, a gzip target and as a single stream write; non-trivial = more than one write call or "
        "an append or a header; distinct by (format, records, pieces)")
FORMATS = ["bed3", "bed6", "bed12", "bedgraph", "narrowpeak", "chromsizes", "vcf", "sam", "gtf", "gfa", "fasta", "fastq"]


def _entry_class(fmt):
    from bionumpy import datatypes as dt
    return {"bed3": dt.Interval, "bed6": dt.Bed6, "bed12": dt.Bed12, "bedgraph": dt.BedGraph, "narrowpeak": dt.NarrowPeak, "chromsizes": dt.ChromosomeSize,
            "vcf": dt.VCFEntry, "sam": dt.SAMEntry, "gtf": dt.GTFEntry, "gfa": dt.SequenceEntry, "fasta": dt.SequenceEntry, "fastq": dt.SequenceEntryWithQuality}[fmt]


def _pyvalue(kind, cell):
    if kind in ("str", "strand", "rest"):
        return "".join(chr(b) for b in cell)
    if kind in ("int", "int1"):
        return int(cell)
    if kind == "optint":
        return int(cell[1])
    if kind == "float":
        return cell[0] / cell[1]
    if kind == "ints":
        return [int(x) for x in cell]
    raise ValueError(kind)


def _table(fmt, rows):
    cls = _entry_class(fmt)
    if fmt in ("fasta", "gfa"):
        tuples = [("".join(chr(b) for b in r[0]), "".join(chr(b) for b in r[1])) for r in rows]
    elif fmt == "fastq":
        tuples = [("".join(chr(b) for b in r[0]), "".join(chr(b) for b in r[1]), [int(q) for q in r[2]]) for r in rows]
    else:
        ks = C02.KINDS[fmt]
        tuples = [tuple(_pyvalue(k, c) for k, c in zip(ks, r)) for r in rows]
    if not tuples:
        return cls.empty()
    return cls.from_entry_tuples(tuples)


def _single_write(fmt, rows, d, kw, suffix):
    import bionumpy as bnp
    path = os.path.join(d, "single" + suffix)
    w = bnp.open(path, "w", **kw)
    w.write(_table(fmt, rows))
    w.close()
    return open(path, "rb").read()


def check_vector(v):
    import bionumpy as bnp
    from bionumpy.streams import NpDataclassStream
    fmt = v["fmt"]
    rows = v["table"]
    if any(c == ["missing"] for r in rows for c in r if isinstance(c, list)) or (v["header"] and not rows):
        return {"n": 0, "nt": [], "bad": [], "traces": 0}
    want = bytes(v["bytes"])
    pieces = v["pieces"]
    suffix, buf = C02._open_kw(fmt)
    d = os.path.join(v["_dir"], "c03_%d_%d" % (os.getpid(), v["_id"]))
    os.makedirs(d, exist_ok=True)
    bad, n = [], 0
    kw = {"buffer_type": buf} if buf is not None else {}
    nontrivial = len([p for p in pieces if p >= 0]) > 1 or -2 in pieces or v["header"]
    nt = [json.dumps([fmt, v["picks"], pieces])] if nontrivial else []
    tags0 = {"format": fmt, "append": -2 in pieces, "empty_piece": 0 in pieces, "header": v["header"], "ncalls": len([p for p in pieces if p >= 0])}

    def source_table(lazy=None):
        if v["header"]:
            # a table that carries a header: read it from a canonical file with that header
            src = os.path.join(d, "src" + suffix)
            hdr = "".join(l + "\n" for l in ["##fileformat=VCFv4.2", "#CHROM\tPOS\tID\tREF\tALT\tQUAL\tFILTER\tINFO"])
            with open(src, "wb") as f:
                f.write(hdr.encode() + want[len(hdr):] if want.startswith(hdr.encode()) else hdr.encode() + want)
            return bnp.open(src, lazy=lazy, **kw).read()
        return _table(fmt, rows)

    extras = []

    def lazy_source():
        src = os.path.join(d, "lsrc" + suffix)
        with open(src, "wb") as f:
            f.write(want)
        return bnp.open(src, **kw).read()

    def lazy_extras(t):
        """after the history of piecewise writes of slices of a lazily read table: the table itself still reads as its rows, and one
        write of a concatenation equals writing its operands one after the other (composable)"""
        after = C02.project(fmt, t)
        if not C02._same(fmt, [[c for c in r] for r in rows], after):
            extras.append(("the lazily read table no longer reads as its rows after slices of it were written", str(rows)[:300], str(after)[:300]))
        # every column in turn replaced by itself: the modified write of the lazily read table is still the canonical text of its rows
        import dataclasses as _dc
        src_t = lazy_source()
        for f_ in _dc.fields(src_t):
            if fmt in ("vcf", "sam", "gtf", "gff") and f_.name in ("info", "genotypes", "extra", "atributes"):
                continue
            pm = os.path.join(d, "mod_one" + suffix)
            t_ = lazy_source()

            def write_replaced():
                for g_ in _dc.fields(src_t):        # every column of the table has been looked at before one of them is replaced
                    if not (fmt in ("vcf", "sam", "gtf", "gff") and g_.name in ("info", "genotypes", "extra", "atributes")):
                        getattr(t_, g_.name)
                with bnp.open(pm, "w", **kw) as w:
                    w.write(bnp.replace(t_, **{f_.name: getattr(lazy_source(), f_.name)}))
                return open(pm, "rb").read()
            o_ = outcome(write_replaced)
            got_ = o_[1] if o_[0] == "ok" else None
            if got_ != want:
                extras.append(("a lazily read table with column %s replaced by itself is not written as the canonical text of its rows" % f_.name,
                               want.decode("latin-1")[:300], (got_.decode("latin-1")[:300] if got_ is not None else str(o_)[:300])))
                break
        if len(rows) >= 2:
            # the file read lazily in chunks by ONE reader; a column of the first chunk is assigned (to itself): the chunks written one after
            # the other through one writer are still the canonical text (a chunk's replaced columns are its own)
            def chunked_assign():
                lazy_source()
                rd = bnp.open(os.path.join(d, "lsrc" + suffix), **kw)
                try:        # about one entry per chunk; a size too small for an entry may be refused (C01), which is not this clause's business
                    chunks = list(rd.read_chunks(min_chunk_size=len(want) // len(rows) + 1))
                except Exception:      # noqa
                    return None
                finally:
                    rd.close()
                if len(chunks) < 2:
                    return None
                names = [f_.name for f_ in _dc.fields(chunks[0]) if f_.name not in ("info", "genotypes", "extra", "atributes")]
                for nm in names[:2]:
                    setattr(chunks[0], nm, getattr(chunks[0], nm))
                pc = os.path.join(d, "chunked_assign" + suffix)
                with bnp.open(pc, "w", **kw) as w:
                    for c_ in chunks:
                        w.write(c_)
                return open(pc, "rb").read()
            o_ = outcome(chunked_assign)
            if o_[0] == "ok" and o_[1] is None:
                pass
            elif o_ != ("ok", want):
                extras.append(("lazily read chunks of one reader, a column of the first assigned to itself, are not written as the canonical text",
                               want.decode("latin-1")[:300], (o_[1].decode("latin-1")[:300] if o_[0] == "ok" else str(o_)[:300])))
            whole, other = lazy_source(), lazy_source()
            sel = other[1:]
            p1, p2 = os.path.join(d, "join_one" + suffix), os.path.join(d, "join_two" + suffix)
            with bnp.open(p1, "w", **kw) as w:
                w.write(np.concatenate([whole, sel]))
            with bnp.open(p2, "w", **kw) as w:
                w.write(lazy_source())
                w.write(lazy_source()[1:])
            one, two = open(p1, "rb").read(), open(p2, "rb").read()
            backj = C02.project(fmt, bnp.open(p1, **kw).read())
            if one != two or not C02._same(fmt, [[c for c in r] for r in rows + rows[1:]], backj):
                extras.append(("one write of np.concatenate([table, table[1:]]) differs from writing the two one after the other",
                               two.decode("latin-1")[:300], one.decode("latin-1")[:300]))

    def run(target_kind):
        t = lazy_source() if target_kind == "lazy-source" else source_table(lazy=False if target_kind == "plain-eager" else None)
        path = os.path.join(d, "out_%s%s%s" % (target_kind, suffix, ".gz" if target_kind == "gzip" else ""))
        if os.path.exists(path):
            os.remove(path)
        if target_kind == "stream":
            chunks, pos = [], 0
            for p in pieces:
                if p >= 0:
                    chunks.append(t[pos:pos + p])
                    pos += p
            w = bnp.open(path, "w", **kw)
            w.write(NpDataclassStream(iter(chunks), dataclass=type(t)))
            w.close()
        else:
            # "suffix-only": the writer is chosen by the file name alone (.bed), the table has more columns than the plain interval type
            wkw = {} if target_kind == "suffix-only" else kw
            w = bnp.open(path, "w", **wkw)
            pos = 0
            for p in pieces:
                if p >= 0:
                    w.write(t[pos:pos + p])
                    pos += p
                elif p == -1:
                    w.close()
                    w = None
                else:
                    w = bnp.open(path, "a", **wkw)
            if w is not None:
                w.close()
        raw = open(path, "rb").read()
        data = gzip.decompress(raw) if target_kind == "gzip" else raw
        back = C02.project(fmt if fmt != "gfa" else "gfa", bnp.open(path, **kw).read()) if len(rows) else []
        if target_kind == "lazy-source":
            lazy_extras(t)
        return data, back
    # a format may give header-less in-memory tables a default header (VCF): its text is not prescribed, so it is measured from a
    # single write of the whole table, checked to precede exactly the canonical records, and must then appear once, unchanged, for
    # every other way of writing
    default_header = b""
    if fmt == "vcf" and not v["header"]:
        base = outcome(_single_write, fmt, rows, d, kw, suffix)
        n += 1
        if base[0] == "err" or not base[1].endswith(want):
            bad.append({"what": "a single write of the table is not <header> + canonical records", "tags": dict(tags0, kind="bytes", target="single"),
                        "vector": {k: v[k] for k in v if not k.startswith("_")}, "expected": want.decode("latin-1")[:300], "observed": str(base)[:300]})
            import shutil
            shutil.rmtree(d, ignore_errors=True)
            return {"n": n, "nt": nt, "bad": bad}
        default_header = base[1][:len(base[1]) - len(want)]
        want = default_header + want
    for kind in ("plain", "gzip", "stream") + (("suffix-only",) if fmt in ("bed6", "bed12") else ()) + (("plain-eager",) if v["header"] else ()) \
            + (("lazy-source",) if rows and fmt not in NO_LAZY_SOURCE else ()):
        if kind == "stream" and (-2 in pieces):
            continue
        o = outcome(run, kind)
        n += 1
        tags = dict(tags0, target=kind)
        if o[0] == "err":
            bad.append({"what": "writing a representable %s table raised" % fmt, "tags": dict(tags, kind="raises"), "vector": {k: v[k] for k in v if not k.startswith("_")},
                        "expected": want.decode("latin-1")[:300], "observed": o[1]})
            continue
        data, back = o[1]
        if data != want:
            exp_nohdr = want
            bad.append({"what": "bytes written are not the canonical serialisation of the rows (header once)", "tags": dict(tags, kind="bytes"),
                        "vector": {k: v[k] for k in v if not k.startswith("_")}, "expected": want.decode("latin-1")[:400], "observed": data.decode("latin-1")[:400]})
        elif len(rows) and not C02._same(fmt, [[c for c in r] for r in rows], back):
            bad.append({"what": "reading the written file back does not give an equal table", "tags": dict(tags, kind="readback"),
                        "vector": {k: v[k] for k in v if not k.startswith("_")}, "expected": str(rows)[:300], "observed": str(back)[:300]})
        for what, exp, obs in extras:
            bad.append({"what": what, "tags": dict(tags, kind="lazy-source"), "vector": {k: v[k] for k in v if not k.startswith("_")}, "expected": exp, "observed": obs})
        del extras[:]
    if v["header"] and rows:
        # a second file of the same format with ANOTHER header, read and written in the same process: it is written with its own header
        hdr = "".join(l + "\n" for l in ["##fileformat=VCFv4.2", "#CHROM\tPOS\tID\tREF\tALT\tQUAL\tFILTER\tINFO"]).encode()
        hdr2 = "".join(l + "\n" for l in ["##fileformat=VCFv4.2", "##source=another file", "#CHROM\tPOS\tID\tREF\tALT\tQUAL\tFILTER\tINFO"]).encode()
        if want.startswith(hdr):
            def other_header(lazy, replaced=False):
                src2 = os.path.join(d, "src2" + suffix)
                with open(src2, "wb") as f:
                    f.write(hdr2 + want[len(hdr):])
                out2 = os.path.join(d, "out2" + suffix)
                t2 = bnp.open(src2, lazy=lazy, **kw).read()
                if replaced:
                    t2 = bnp.replace(t2, position=t2.position)          # a column replaced by itself: still the entries of that file
                with bnp.open(out2, "w", **kw) as w:
                    w.write(t2[:1])
                    w.write(t2[1:])
                return open(out2, "rb").read()
            for lazy, rep_ in ((None, False), (False, False), (None, True), (False, True)):
                o = outcome(other_header, lazy, rep_)
                n += 1
                if o != ("ok", hdr2 + want[len(hdr):]):
                    bad.append({"what": "a file with another header read in the same process is not written with its own header", "tags": dict(tags0, kind="bytes", target="other-header", lazy=lazy is None, replaced=rep_),
                                "vector": {k: v[k] for k in v if not k.startswith("_")}, "expected": (hdr2 + want[len(hdr):]).decode("latin-1")[:300], "observed": str(o)[:300]})
    import shutil
    shutil.rmtree(d, ignore_errors=True)
    return {"n": n, "nt": nt, "bad": bad}


NO_LAZY_SOURCE = ()


B_FORMATS = ["bed3", "bed6", "bed12", "bedgraph", "narrowpeak", "chromsizes", "gfa", "fasta", "fastq"]


def record_trace(job):
    """binding B: a grammar-generated file (C02's generator) read eagerly and written again"""
    import random
    import bionumpy as bnp
    tid, seed, d = job
    rng = random.Random(seed)
    fmt = rng.choice(B_FORMATS)
    text = C02._gen_file(rng, fmt)
    # header / comment lines are the subject of the header variants above: the generated file is taken without them
    nl = "\r\n" if "\r\n" in text else "\n"
    if fmt not in ("fasta", "fastq"):
        text = "".join(l + nl for l in text.split(nl) if l and not l.startswith("#"))
    if not text.endswith("\n"):
        text += "\n"
    data = text.encode("latin-1")
    suffix, buf = C02._open_kw(fmt)
    kw = {"buffer_type": buf} if buf is not None else {}
    src = os.path.join(d, "b%d_%d%s" % (os.getpid(), tid, suffix))
    dst = os.path.join(d, "bw%d_%d%s" % (os.getpid(), tid, suffix))

    # a FASTQ file is also written to a FASTA target (lazily and eagerly read): the target decides the format
    to, lazy = fmt, False
    if fmt == "fastq" and tid % 2:
        to, lazy = "fasta", bool(tid % 4 == 1)
        dst = os.path.join(d, "bw%d_%d.fa" % (os.getpid(), tid))

    def go():
        with open(src, "wb") as f:
            f.write(data)
        t = bnp.open(src, lazy=lazy, **kw).read()
        w = bnp.open(dst, "w", **(kw if to == fmt else {}))
        w.write(t)
        w.close()
        return list(open(dst, "rb").read())
    o = outcome(go)
    for p in (src, dst):
        if os.path.exists(p):
            os.remove(p)
    return {"tid": tid, "fmt": fmt, "to": to, "lazy": lazy, "text": list(data), "written": o}


def validate_traces(ctx, recs):
    items, bad = [], []
    for r in recs:
        if r["written"][0] != "ok":
            bad.append({"what": "reading a well-formed %s file eagerly and writing the table raised" % r["fmt"], "tags": {"format": r["fmt"], "kind": "raises", "binding": "B", "target": "plain"},
                        "vector": {"fmt": r["fmt"], "text": r["text"]}, "expected": "canonical bytes", "observed": r["written"][1], "case": {"text": bytes(r["text"]).decode("latin-1")[:300]}})
        else:
            items.append({"tid": len(items), "fmt": r["fmt"], "to": r["to"], "text": r["text"], "written": r["written"][1], "_lazy": r["lazy"]})
    path = os.path.join(ctx.work, "c03_traces.json")
    with open(path, "w") as f:
        json.dump([{k: t[k] for k in t if not k.startswith("_")} for t in items], f)
    res = ctx.tlc("Trace_C03", workers=1, env={"TRACE_FILE": path}, init="Init", next_="Next", postcondition="Post", timeout=3000)
    rej, acc = {}, None
    for line in res.printed:
        parts = [p.strip().strip('"') for p in line.strip("<>").split(",")]
        if parts[0] == "REJECT":
            rej[int(parts[1])] = parts[2:]
        elif parts[0] == "ACCEPTED":
            acc = int(parts[1])
    if acc is None or acc + len(rej) != len(items):
        raise core.MachineryFailure("Trace_C03 bookkeeping mismatch %s %s %s" % (acc, len(rej), len(items)))
    for tid, why in rej.items():
        t = items[tid]
        k = int(why[0])
        bad.append({"what": "bytes written for an eagerly read %s file are not the canonical serialisation of what its text means (first difference at byte %d)" % (t["fmt"], k),
                    "tags": {"format": t["fmt"], "kind": "bytes", "binding": "B", "target": "plain" if t["to"] == t["fmt"] else t["to"], "lazy": t["_lazy"]}, "vector": {"fmt": t["fmt"], "text": t["text"]},
                    "expected": "Formats.tla!Serialise(Parse(text))", "observed": bytes(t["written"]).decode("latin-1")[max(0, k - 40):k + 40],
                    "case": {"text": bytes(t["text"]).decode("latin-1")[:300]}})
    return bad, acc


def run(ctx):
    quick = ctx.tier == "quick"
    vectors = []
    for fmt in FORMATS:
        variants = [(False, 80)]
        if fmt == "vcf":
            variants.append((True, 80))
        for hdr, width in variants:
            maxrows = (1 if fmt == "fasta" else 2) if quick else (2 if fmt == "fasta" else 3)
            res = ctx.tlc("MC_C03", tag="MC_C03_%s_%s" % (fmt, hdr), spec="Spec", workers=4, timeout=900,
                          constants={"Fmt": fmt, "MaxRows": maxrows, "WithHeader": hdr, "Width": width, "MaxCalls": 4 if quick else 5},
                          invariants=["Canonical", "Emit"], properties=["OnlyGrows", "HeaderOnce"], coverage=True)
            ctx.require_actions(res, "MC_C03", ["Write", "Close", "Reopen"])
            vectors += res.vectors
    for i, v in enumerate(vectors):
        v["_id"] = i
        v["_dir"] = ctx.work
    ctx.sample({k: vectors[9][k] for k in ("fmt", "picks", "pieces", "header")})
    ctx.absorb(core.pmap(check_vector, vectors, chunk=10))
    # binding B: generated field contents (grammar files of C02) read eagerly and written again; TLC decides written = Serialise(Parse(text))
    ntr = 150 if quick else 1500
    recs = core.pmap(record_trace, [(i, ctx.seed * 104729 + i, ctx.work) for i in range(ntr)], chunk=10)
    bad, acc = validate_traces(ctx, recs)
    for b in bad:
        ctx.disagree(b)
    ctx.count(evaluations=len(recs), traces=acc, nontrivial_keys=["B|%d" % r["tid"] for r in recs])
    ctx.exhaustive = True
    return ctx.finish(RULE, assumptions=[
        "tables are built in memory from the specification's values (from_entry_tuples); only the VCF header variant reads its table from a file, because a header "
        "is something a table acquires by being read",
        "the header variant needs at least one record: what reading a header-only file yields is not part of this property",
        "a header-less in-memory VCF table is given a default header by the writer; its text is measured from one whole write, must be followed by exactly the "
        "canonical records, and must then appear once and unchanged for every split, target and append history",
        "records with a missing optional integer are not written (not representable as a value); floats have short exact decimal expansions",
        "FASTA records have 1, 79, 80, 81, 160 or 161 bases (line width 80)",
    ])


def replay(d):
    print("replay of C03 case:", d.get("what"), d.get("tags"))
    w = os.path.join(core.VERIF, ".work", "replay")
    os.makedirs(w, exist_ok=True)
    r = check_vector(dict(d["vector"], _id=0, _dir=w))
    same = [b for b in r["bad"] if b["tags"]["kind"] == d["tags"]["kind"]]
    for b in same[:3]:
        print("  disagrees:", b["what"], b["tags"], "\n   expected", repr(b["expected"])[:300], "\n   observed", repr(b["observed"])[:300])
    if not same:
        print("  agrees now")
    return 1 if same else 0
