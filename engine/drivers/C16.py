"""C16 — BAM records decode to the values the BAM specification defines.

spec/Bam.tla is the specification-level encoder/decoder of SAMv1 section 4.2 (TLC checks Decode(Encode(r)) = r
and the block-size arithmetic on every state); MC_C16 grows a BAM file record by record from a template family
(unmapped record, all nine CIGAR kinds, odd/even/empty sequences, tag bytes incl. a trailing 0x0A, position
beyond 65535) and prints the records with their bytes.  Binding A wraps the bytes in a BAM header + gzip and
checks: whole read, read_chunks for every chunk size >= the largest record, BamIntervalBuffer /
alignment_to_interval against RefInterval, and writing back whole / filtered / reordered and decoding again.
"""
import gzip
import json
import os
import struct

import numpy as np

from .. import core
from ..core import outcome

RULE = ("one case = one BAM file state of MC_C16 (sequence of record templates) with its specification-level bytes; non-trivial = the file "
        "has more than one record or contains the unmapped / tagged / empty-sequence template; distinct by record sequence")
REFS = [("chr1", 100000), ("chr2", 200000)]
CIGAR = "MIDNSHP=X"
BASES = "=ACMGRSVTWYHKDBN"
EOF = b'\x1f\x8b\x08\x04\x00\x00\x00\x00\x00\xff\x06\x00\x42\x43\x02\x00\x1b\x00\x03\x00\x00\x00\x00\x00\x00\x00\x00\x00'


def _header():
    b = b"BAM\x01" + struct.pack("<i", 0) + struct.pack("<i", len(REFS))
    for name, ln in REFS:
        b += struct.pack("<i", len(name) + 1) + name.encode() + b"\x00" + struct.pack("<i", ln)
    return b


def _expected(recs):
    out = []
    for r in recs:
        out.append({"chromosome": REFS[r["ref"]][0] if r["ref"] >= 0 else None,
                    "name": "".join(chr(c) for c in r["name"]), "flag": r["flag"], "position": r["pos"], "mapq": r["mapq"],
                    "cigar_op": "".join(CIGAR[c[0]] for c in r["cigar"]), "cigar_length": [c[1] for c in r["cigar"]],
                    "sequence": "".join(BASES[c] for c in r["seq"]), "quality": list(r["qual"])})
    return out


def _project(t):
    rows = []
    n = len(t)
    chrom = t.chromosome.tolist()
    name = t.name.tolist()
    cig = t.cigar_op.tolist()
    cigl = t.cigar_length.tolist()
    seq = t.sequence.tolist()
    q = t.quality.tolist()
    for i in range(n):
        rows.append({"chromosome": chrom[i], "name": name[i], "flag": int(t.flag[i]), "position": int(t.position[i]), "mapq": int(t.mapq[i]),
                     "cigar_op": cig[i], "cigar_length": [int(x) for x in cigl[i]], "sequence": seq[i], "quality": [int(x) for x in q[i]]})
    return rows


def _same(exp, got):
    """unmapped records: any value that is not one of the reference names counts as 'none'"""
    if len(exp) != len(got):
        return False
    for e, g in zip(exp, got):
        for k in e:
            if k == "chromosome" and e[k] is None:
                if g[k] in [r[0] for r in REFS]:
                    return False
            elif e[k] != g[k]:
                return False
    return True


def check_vector(v):
    import bionumpy as bnp
    from bionumpy.io.bam import BamIntervalBuffer
    from bionumpy.alignments import alignment_to_interval
    recs = v["recs"]
    d = os.path.join(v["_dir"], "c16_%d_%d" % (os.getpid(), v["_id"]))
    os.makedirs(d, exist_ok=True)
    path = os.path.join(d, "a.bam")
    body = bytes(v["bytes"])
    with open(path, "wb") as f:
        f.write(gzip.compress(_header() + body))
        f.write(EOF)
    exp = _expected(recs)
    bad, n = [], 0
    templates = json.dumps(recs)
    special = len(recs) > 1 or any(r["ref"] < 0 or r["tags"] or not r["seq"] for r in recs)
    nt = [templates] if special else []
    unmapped = any(r["ref"] < 0 for r in recs)

    def rep(what, op, expd, obs, **extra):
        bad.append({"what": what, "tags": dict({"op": op, "has_unmapped": unmapped}, **extra), "vector": {k: v[k] for k in v if not k.startswith("_")},
                    "expected": expd, "observed": obs})

    o = outcome(lambda: _project(bnp.open(path).read()))
    n += 1
    if o[0] != "ok" or not _same(exp, o[1]):
        first = None
        if o[0] == "ok" and len(o[1]) == len(exp):
            for e, g in zip(exp, o[1]):
                df = {k: (e[k], g[k]) for k in e if e[k] != g[k] and not (k == "chromosome" and e[k] is None and g[k] not in [r[0] for r in REFS])}
                if df:
                    first = df
                    break
        only_unmapped_name = bool(first) and set(first) == {"chromosome"} and first["chromosome"][0] is None
        rep("decoded BAM records differ from the records the specification encoded", "read", exp[:2], first or str(o)[:300],
            only_unmapped_reference_name=only_unmapped_name)
    # two files with different reference lists in one process: the records of the first one, decoded only after the second file was
    # opened and read, carry the names of their own header (and the other way round)
    def two_files():
        other = [("altA", 100000), ("altB_longer_name", 200000)]
        hb = b"BAM\x01" + struct.pack("<i", 0) + struct.pack("<i", len(other))
        for name_, ln in other:
            hb += struct.pack("<i", len(name_) + 1) + name_.encode() + b"\x00" + struct.pack("<i", ln)
        path2 = os.path.join(d, "b.bam")
        with open(path2, "wb") as f:
            f.write(gzip.compress(hb + body))
            f.write(EOF)
        a = bnp.open(path).read()
        b = bnp.open(path2).read()
        cb = b.chromosome.tolist()
        ca = a.chromosome.tolist()
        ia = [[int(x), int(y)] for x, y in zip(*(lambda t_: (np.asarray(t_.start).tolist(), np.asarray(t_.stop).tolist()))(bnp.open(path, buffer_type=BamIntervalBuffer).read()))]
        return ca, cb, ia
    o = outcome(two_files)
    n += 1
    wa = [REFS[r["ref"]][0] if r["ref"] >= 0 else None for r in recs]
    wb = [["altA", "altB_longer_name"][r["ref"]] if r["ref"] >= 0 else None for r in recs]
    okk = o[0] == "ok" and all((w is None and g not in ("chr1", "chr2", "altA", "altB_longer_name")) or w == g for w, g in zip(wa, o[1][0])) \
        and all((w is None and g not in ("chr1", "chr2", "altA", "altB_longer_name")) or w == g for w, g in zip(wb, o[1][1])) \
        and o[1][2] == [[iv["start"], iv["stop"]] for iv in v["intervals"]]
    if not okk:
        rep("records of two BAM files with different reference lists read in one process do not carry the names of their own headers", "two-files", [wa, wb], str(o)[:300])
    # chunked reading with every chunk size >= the largest record
    largest = max(v["sizes"])
    total = len(body)
    Ks = sorted(set([largest, largest + 1, largest + 2, total - 1, total, total + 1] + list(range(largest, total + 2, 7))))
    if len(Ks) > 40:        # files with very long records: the ends of the range and an even sample of it
        Ks = sorted(set(Ks[:4] + Ks[-4:] + Ks[::len(Ks) // 10]))
    for K in Ks:
        if K < largest:
            continue
        o = outcome(lambda: [r for c in bnp.open(path).read_chunks(min_chunk_size=K) for r in _project(c)])
        n += 1
        if o[0] != "ok" or not _same(exp, o[1]):
            rep("chunked BAM read differs from the whole-file records", "read_chunks", len(exp), str(o)[:300] if o[0] != "ok" else len(o[1]), K=K,
                only_unmapped_reference_name=False)
            break
    # the file copied chunk by chunk (read_chunks handed to write): the copy holds the same record bytes, each once, in order
    for K in sorted({largest, largest + 2, (largest + total) // 2}):
        out_c = os.path.join(d, "o_copy_%d.bam" % K)

        def copy():
            with bnp.open(out_c, "w") as w:
                w.write(bnp.open(path).read_chunks(min_chunk_size=K))
            raw = gzip.decompress(open(out_c, "rb").read())
            return raw[len(_header()):] == body, _project(bnp.open(out_c).read())
        o = outcome(copy)
        n += 1
        if o[0] != "ok" or not o[1][0] or not _same(exp, o[1][1]):
            rep("BAM copied chunk by chunk does not hold the original record bytes / records", "copy-chunks", len(exp),
                str(o)[:300] if o[0] != "ok" else {"same_bytes": o[1][0], "records": len(o[1][1])}, K=K)
            break
    # reference intervals
    want_iv = [[iv["start"], iv["stop"], iv["strand"]] for iv in v["intervals"]]
    def ivs(kind):
        if kind == "buffer":
            t = bnp.open(path, buffer_type=BamIntervalBuffer).read()
        else:
            t = alignment_to_interval(bnp.open(path).read())
        st = t.strand.tolist() if hasattr(t.strand, "tolist") else list(t.strand)
        st = [s if isinstance(s, str) else str(s) for s in st]
        return [[int(a), int(b), s] for a, b, s in zip(np.asarray(t.start).tolist(), np.asarray(t.stop).tolist(), st)]
    for kind in ("buffer", "alignment_to_interval"):
        o = outcome(ivs, kind)
        n += 1
        if o != ("ok", want_iv):
            rep("reference interval differs from position + reference-consuming CIGAR lengths / flag 0x10", "interval-" + kind, want_iv, o)
    # write back: whole, filtered, reordered
    m_ = len(recs)
    more = [("inner-permutation", [0, 2, 1] + list(range(3, m_))), ("inner-repeat", [0, 1, 1] + list(range(3, m_)))] if m_ >= 4 else []
    def take(rows, sel):
        return [rows[i] for i in sel] if isinstance(sel, list) else rows[sel]
    for sel_name, sel in [("whole", slice(None)), ("filtered", slice(0, None, 2)), ("reordered", slice(None, None, -1))] + more:
        out_path = os.path.join(d, "o_%s.bam" % sel_name)

        def roundtrip():
            data = bnp.open(path).read()
            with bnp.open(out_path, "w") as w:
                w.write(data[sel])
            return _project(bnp.open(out_path).read())

        def touched_then_written():
            # a history on one object: read a variable-length field of the selection, write the selection, read every field of it
            sub = bnp.open(path).read()[sel]
            sub.name
            with bnp.open(out_path[:-4] + "_2.bam", "w") as w:
                w.write(sub)
            return _project(sub)
        o2 = outcome(touched_then_written)
        n += 1
        if o2[0] != "ok" or not _same(take(exp, sel), o2[1]):
            rep("a selection of BAM records no longer decodes to its records after it was written", "fields-after-write-" + sel_name, len(take(exp, sel)), str(o2)[:300])
        o = outcome(roundtrip)
        n += 1
        if o[0] != "ok" or not _same(take(exp, sel), o[1]):
            rep("BAM written back (%s) does not decode to the same records" % sel_name, "write-" + sel_name, len(take(exp, sel)), str(o)[:300])
        else:
            # C04 for BAM: unmodified records are written back byte for byte, in the selected order
            offs = [sum(v["sizes"][:i]) for i in range(len(recs))]
            chunks = [body[offs[i]:offs[i] + v["sizes"][i]] for i in range(len(recs))]
            want_bytes = b"".join([chunks[i] for i in sel] if isinstance(sel, list) else chunks[sel])
            raw = outcome(lambda: gzip.decompress(open(out_path, "rb").read()))
            n += 1
            if raw[0] != "ok" or raw[1][len(_header()):] != want_bytes:
                rep("BAM records written back (%s) are not the original record bytes" % sel_name, "write-bytes-" + sel_name,
                    len(want_bytes), str(raw)[:200] if raw[0] != "ok" else len(raw[1]) - len(_header()))
    # table programs on the records (C04/C05 for BAM): selections, a selection of a selection, concatenation, lazy and eager reading
    def sel_of(kind, m):
        return {"tail": slice(1, None), "rev": slice(None, None, -1), "list": [m - 1, 0, 0], "mask": np.arange(m) % 2 == 0, "empty": slice(0, 0)}[kind]

    def pick(rows, kind):
        m = len(rows)
        sl = sel_of(kind, m)
        if kind == "list":
            return [rows[i] for i in sl]
        if kind == "mask":
            return [r for r, keep in zip(rows, sl) if keep]
        return rows[sl]
    for lazy in (True, False):
        for k1 in ("tail", "rev", "list", "mask", "empty"):
            def prog1():
                t = bnp.open(path, lazy=lazy).read()
                return _project(t[sel_of(k1, len(t))])
            o = outcome(prog1)
            n += 1
            if o[0] != "ok" or not _same(pick(exp, k1), o[1]):
                rep("a selection of BAM records does not hold the selected records", "select-" + k1, len(pick(exp, k1)), str(o)[:300], lazy=lazy)
        for k1, k2 in (("rev", "tail"), ("list", "mask"), ("mask", "rev")):
            def prog2():
                t = bnp.open(path, lazy=lazy).read()
                a = t[sel_of(k1, len(t))]
                b = a[sel_of(k2, len(a))]
                c = np.concatenate([b, a])
                return _project(b), _project(c), _project(a), c
            ea = pick(exp, k1)
            eb = pick(ea, k2)
            o = outcome(prog2)
            n += 1
            if o[0] != "ok" or not (_same(eb, o[1][0]) and _same(eb + ea, o[1][1]) and _same(ea, o[1][2])):
                rep("selection of a selection / concatenation of BAM records differs from the selected records",
                    "program-%s-%s" % (k1, k2), len(eb + ea), str(o)[:300], lazy=lazy)
            elif lazy and eb + ea:
                # the joined records written and read again
                def write_joined():
                    out_c = os.path.join(d, "o_prog_%s_%s.bam" % (k1, k2))
                    with bnp.open(out_c, "w") as w:
                        w.write(o[1][3])
                    return _project(bnp.open(out_c).read())
                ow = outcome(write_joined)
                n += 1
                if ow[0] != "ok" or not _same(eb + ea, ow[1]):
                    rep("a concatenation of BAM records cannot be written back as those records", "write-concatenated", len(eb + ea), str(ow)[:200],
                        kind="raises" if ow[0] != "ok" else "values")
    # write back in pieces: an empty piece, then one record at a time (one header, every record once, in order)
    out_path = os.path.join(d, "o_pieces.bam")

    def pieces():
        data = bnp.open(path).read()
        with bnp.open(out_path, "w") as w:
            w.write(data[0:0])
            for i in range(len(data)):
                w.write(data[i:i + 1])
        return _project(bnp.open(out_path).read())
    o = outcome(pieces)
    n += 1
    if o[0] != "ok" or not _same(exp, o[1]):
        rep("BAM written back in pieces (an empty piece first) does not decode to the same records", "write-pieces", len(exp), str(o)[:300])
    import shutil
    shutil.rmtree(d, ignore_errors=True)
    return {"n": n, "nt": nt, "bad": bad}


def run(ctx):
    quick = ctx.tier == "quick"
    res = ctx.tlc("MC_C16", spec="Spec", constants={"MaxRecs": 2 if quick else 3, "Pick": list(range(1, 11))}, invariants=["RoundTrip", "SizesAdd", "Emit"], coverage=True)
    ctx.require_actions(res, "MC_C16", ["Add"])
    vectors = res.vectors
    # files of four (five) records from two templates of equal and of different size: selections that permute or repeat inner records
    res4 = ctx.tlc("MC_C16", tag="MC_C16_four", spec="Spec", constants={"MaxRecs": 4 if quick else 5, "Pick": [1, 6] if quick else [1, 6, 2]},
                   invariants=["RoundTrip", "SizesAdd", "Emit"])
    vectors += [v for v in res4.vectors if len(v["recs"]) >= 4]
    # very long records: 300 CIGAR operations, a read of 65 537 bases (fields whose upper bytes are zero in every short record)
    # (quick: each long template alone, and the long read next to a short record; thorough: every pair - the 16 400-operation template costs TLC
    # about eight seconds per state that holds it)
    is_long = lambda r: len(r["cigar"]) > 255 or len(r["seq"]) > 65535
    for tag_, mr, pick in ((("alone", 1, [11, 12, 13]), ("pairs", 2, [1, 12])) if quick else (("pairs", 2, [1, 2, 11, 12, 13]),)):
        resl = ctx.tlc("MC_C16", tag="MC_C16_long_" + tag_, spec="Spec", constants={"MaxRecs": mr, "Pick": pick}, invariants=["RoundTrip", "SizesAdd", "Emit"])
        vectors += [v for v in resl.vectors if any(is_long(r) for r in v["recs"])]
    for i, v in enumerate(vectors):
        v["_id"] = i
        v["_dir"] = ctx.work
    ctx.sample({"recs": vectors[1]["recs"], "bytes": vectors[1]["bytes"]})
    ctx.absorb(core.pmap(check_vector, vectors[::-1], chunk=1))      # the files with very long records first, one per worker
    ctx.exhaustive = True
    return ctx.finish(RULE, assumptions=[
        "the BAM container is a BAM header followed by the records, gzip-compressed as one member, plus the BGZF EOF block (the library reads BAM through gzip)",
        "for an unmapped record any value that is not one of the reference names counts as 'no reference name'",
        "chunk sizes below the largest record are outside the property's precondition and are not driven",
    ])


def replay(d):
    print("replay of C16 case:", d.get("what"), d.get("tags"))
    v = dict(d["vector"], _id=0, _dir=os.path.join(core.VERIF, ".work"))
    os.makedirs(v["_dir"], exist_ok=True)
    r = check_vector(v)
    same = [b for b in r["bad"] if b["tags"]["op"] == d["tags"]["op"]]
    for b in same[:3]:
        print("  disagrees:", b["what"], "expected", str(b["expected"])[:200], "observed", str(b["observed"])[:300])
    if not same:
        print("  agrees now")
    return 1 if same else 0
