"""Concrete source files and token concretisation for the Table specification (C04, C05, C19, C20).

A source = NREC records of one format; every record is given as the list of its field texts (plus
trailing columns that are not fields of the entry type), so that the original text of each field is
known by construction.  Variants: "canon" (every text is the canonical spelling of its value, LF),
"noncanon" (leading zeros, '+5', '1e3', mixed widths), "crlf" (noncanon with CRLF line ends).
Tokens of spec/Table.tla are mapped to concrete values/texts here.
"""
import io

import numpy as np

NREC = 3

# field kinds: S sequence id (StringArray column), s string, i int, f float, o optional int, x strand, q quality string, l rest-of-line text,
# L comma separated list of integers (a trailing comma is allowed in the file)
SOURCES = {
    "bed6": dict(
        buffer="Bed6Buffer", kind="delim",
        fields=[("chromosome", "S"), ("start", "i"), ("stop", "i"), ("name", "S"), ("score", "o"), ("strand", "x")],
        canon=[["chr1", "7", "10", "n1", "5", "+"], ["chr22", "5", "1007", "name2", "10", "-"], ["c3", "100", "200", "x", "0", "."]],
        # scores '5', '10', '.': a selection of the first and the last row holds one-character cells only, one of them the placeholder (reads as 0)
        noncanon=[["chr1", "007", "10", "n1", "5", "+"], ["chr22", "5", "+1007", "name2", "10", "-"], ["c3", "0100", "200", "x", ".", "."]],
        pairs=[("start", "name"), ("chromosome", "stop"), ("score", "strand"), ("stop", "start")]),
    "bed12": dict(
        buffer="Bed12Buffer", kind="delim",
        fields=[("chromosome", "S"), ("start", "i"), ("stop", "i"), ("name", "S"), ("score", "o"), ("strand", "x"), ("thick_start", "i"), ("thick_end", "i"),
                ("item_rgb", "s"), ("block_count", "i"), ("block_sizes", "L"), ("block_starts", "L")],
        canon=[["chr1", "7", "100", "n1", "5", "+", "8", "90", "0", "2", "10,20", "0,30"],
               ["chr22", "5", "1007", "name2", "10", "-", "5", "1007", "255,0,0", "1", "1002", "0"],
               ["c3", "100", "200", "x", "0", ".", "100", "200", "0", "3", "1,22,3", "0,10,97"]],
        noncanon=[["chr1", "007", "100", "n1", "5", "+", "8", "90", "0", "2", "10,20,", "0,30,"],
                  ["chr22", "5", "+1007", "name2", "10", "-", "5", "1007", "255,0,0", "1", "1002,", "0,"],
                  ["c3", "100", "200", "x", ".", ".", "0100", "200", "0", "3", "1,22,3", "0,10,97,"]],      # score '.': the placeholder reads as 0
        pairs=[("block_sizes", "name"), ("start", "block_starts"), ("block_starts", "block_sizes"), ("name", "block_count")]),
    "bed3": dict(
        buffer=None, suffix=".bed", kind="delim",
        fields=[("chromosome", "S"), ("start", "i"), ("stop", "i")],
        canon=[["chr1", "7", "10"], ["chr22", "5", "1007"], ["c3", "100", "200"]],
        noncanon=[["chr1", "007", "10"], ["chr22", "5", "+1007"], ["c3", "0100", "200"]],
        pairs=[("start", "chromosome"), ("stop", "start")]),
    "narrowpeak": dict(
        buffer=None, suffix=".narrowPeak", kind="delim",
        fields=[("chromosome", "S"), ("start", "i"), ("stop", "i"), ("name", "S"), ("score", "o"), ("strand", "x"),
                ("signal_value", "f"), ("p_value", "f"), ("q_value", "f"), ("summit", "i")],
        canon=[["chr1", "7", "10", "n1", "5", "+", "1.5", "2.5", "0.25", "1"],
               ["chr22", "5", "1007", "name2", "10", "-", "10.0", "2.0", "3.5", "22"],
               ["c3", "100", "200", "x", "0", ".", "0.5", "4.0", "8.0", "0"]],
        noncanon=[["chr1", "007", "10", "n1", "5", "+", "1.50", "1e3", "0.25", "01"],
                  ["chr22", "5", "+1007", "name2", "10", "-", "10", "2", "3.5e0", "22"],
                  ["c3", "100", "200", "x", "0", ".", ".5", "4.", "8", "0"]],
        pairs=[("start", "name"), ("summit", "chromosome"), ("stop", "strand")]),
    "vcf": dict(
        buffer=None, suffix=".vcf", kind="delim",
        header="##fileformat=VCFv4.2\n#CHROM\tPOS\tID\tREF\tALT\tQUAL\tFILTER\tINFO\n",
        fields=[("chromosome", "S"), ("position", "p"), ("id", "s"), ("ref_seq", "s"), ("alt_seq", "s"), ("quality", "s"),
                ("filter", "s"), ("info", "s")],
        canon=[["chr1", "8", "rs1", "A", "C", ".", "PASS", "."], ["chr22", "1006", ".", "AT", "G", "30", ".", "DP=3"],
               ["c3", "101", "rs33", "G", "GTT", "5.5", "q10", "DP=10;AF=0.5"]],
        noncanon=[["chr1", "008", "rs1", "A", "C", ".", "PASS", "."], ["chr22", "1006", ".", "AT", "G", "30", ".", "DP=3"],
                  ["c3", "0101", "rs33", "G", "GTT", "5.5", "q10", "DP=10;AF=0.5"]],
        pairs=[("position", "id"), ("chromosome", "ref_seq"), ("alt_seq", "position")]),
    "vcfgt": dict(
        buffer=None, suffix=".vcf", kind="delim", passthrough_only=True,
        header="##fileformat=VCFv4.2\n#CHROM\tPOS\tID\tREF\tALT\tQUAL\tFILTER\tINFO\tFORMAT\ts1\ts2\n",
        fields=[("chromosome", "S"), ("position", "p"), ("id", "s"), ("ref_seq", "s"), ("alt_seq", "s"), ("quality", "s"),
                ("filter", "s"), ("info", "s")],
        trailing=["GT\t0|1\t1/1", "GT:DP\t./.\t0|1:12", "GT\t1|1\t0|0"],
        canon=[["chr1", "8", "rs1", "A", "C", ".", "PASS", "."], ["chr22", "1006", ".", "AT", "G", "30", ".", "DP=3"],
               ["c3", "101", "rs33", "G", "GTT", "5.5", "q10", "DP=10;AF=0.5"]],
        noncanon=[["chr1", "008", "rs1", "A", "C", ".", "PASS", "."], ["chr22", "1006", ".", "AT", "G", "30", ".", "DP=3"],
                  ["c3", "0101", "rs33", "G", "GTT", "5.5", "q10", "DP=10;AF=0.5"]],
        pairs=[("position", "id"), ("chromosome", "ref_seq")]),
    "sam": dict(
        buffer=None, suffix=".sam", kind="delim",
        header="@HD\tVN:1.6\n@SQ\tSN:chr1\tLN:5000\n",
        fields=[("name", "S"), ("flag", "i"), ("chromosome", "S"), ("position", "i"), ("mapq", "i"), ("cigar", "s"),
                ("next_chromosome", "s"), ("next_position", "i"), ("length", "i"), ("sequence", "s"), ("quality", "s"), ("extra", "l")],
        canon=[["r1", "0", "chr1", "5", "60", "3M", "*", "0", "0", "ACG", "III", ""],
               ["read22", "16", "chr22", "1007", "0", "2M1I", "=", "1", "-5", "ACT", "I#I", "NM:i:0"],
               ["r3", "99", "c3", "100", "7", "1M", "chr1", "12", "100", "G", "!", "NM:i:1\tMD:Z:1"]],
        noncanon=[["r1", "00", "chr1", "005", "60", "3M", "*", "0", "0", "ACG", "III", ""],
                  ["read22", "16", "chr22", "1007", "00", "2M1I", "=", "01", "-5", "ACT", "I#I", "NM:i:0"],
                  ["r3", "099", "c3", "100", "7", "1M", "chr1", "12", "+100", "G", "!", "NM:i:1\tMD:Z:1"]],
        pairs=[("position", "name"), ("flag", "cigar"), ("mapq", "chromosome")]),
    "bedgraph": dict(
        buffer=None, suffix=".bdg", kind="delim",
        fields=[("chromosome", "S"), ("start", "i"), ("stop", "i"), ("value", "f")],
        canon=[["chr1", "7", "10", "1.5"], ["chr22", "5", "1007", "10.0"], ["c3", "100", "200", "0.25"]],
        noncanon=[["chr1", "007", "10", "1.50"], ["chr22", "5", "+1007", "1e1"], ["c3", "100", "0200", ".25"]],
        pairs=[("start", "chromosome"), ("stop", "start")]),
    "fastq": dict(
        buffer=None, suffix=".fq", kind="fastq",
        fields=[("name", "S"), ("sequence", "s"), ("quality", "q")],
        canon=[["r1", "ACGT", "IIII"], ["read22", "GG", "!#"], ["r3", "ACGTACGTA", "ABCDEFGHI"]],
        noncanon=[["r1", "ACGT", "IIII"], ["read22", "GG", "!#"], ["r3", "ACGTACGTA", "ABCDEFGHI"]],
        plus=["+", "+read22", "+"],
        pairs=[("name", "sequence"), ("sequence", "name")]),
    "fasta2": dict(
        buffer="TwoLineFastaBuffer", suffix=".fa", kind="fasta2",
        fields=[("name", "S"), ("sequence", "s")],
        canon=[["s1", "ACGT"], ["seq22", "GG"], ["s3", "ACGTACGTA"]],
        noncanon=[["s1", "ACGT"], ["seq22", "GG"], ["s3", "ACGTACGTA"]],
        pairs=[("name", "sequence"), ("sequence", "name")]),
}


def buffer_class(fmt):
    import bionumpy as bnp
    from bionumpy.io import delimited_buffers
    from bionumpy.io.files import buffer_types
    s = SOURCES[fmt]
    b = s.get("buffer")
    if b is None:
        return buffer_types[s["suffix"]]
    return getattr(bnp, b) if hasattr(bnp, b) else getattr(delimited_buffers, b)


def record_lines(fmt, variant, i):
    """text lines (without line end) of record i (0-based) and the original text of each field."""
    s = SOURCES[fmt]
    texts = s["noncanon" if variant in ("noncanon", "crlf") else "canon"][i]
    kind = s["kind"]
    if kind == "delim":
        cols = [t for t in texts]
        if s["fields"][-1][1] == "l":          # rest-of-line field: absent when empty
            cols = cols[:-1] + ([cols[-1]] if cols[-1] else [])
        if "trailing" in s:
            cols = cols + [s["trailing"][i]]
        return ["\t".join(cols)], texts
    if kind == "fastq":
        plus = s["plus"][i] if variant != "canon" else "+"
        return ["@" + texts[0], texts[1], plus, texts[2]], texts
    return [">" + texts[0], texts[1]], texts


def source_bytes(fmt, variant):
    s = SOURCES[fmt]
    nl = "\r\n" if variant == "crlf" else "\n"
    header = s.get("header", "")
    if variant == "crlf":
        header = header.replace("\n", "\r\n")
    raws = []
    for i in range(NREC):
        lines, _ = record_lines(fmt, variant, i)
        raws.append("".join(l + nl for l in lines).encode())
    return header.encode() + b"".join(raws), raws, len(header)


def parse_text(kind, text):
    if kind in ("i",):
        return int(text)
    if kind == "p":
        return int(text) - 1
    if kind == "o":
        return 0 if text in (".", "") else int(text)        # the placeholder of an optional number reads as 0
    if kind == "f":
        return repr(float(text))
    if kind == "q":
        return [ord(c) - 33 for c in text]
    if kind == "L":
        return [int(x) for x in text.split(",") if x != ""]
    return text


def fresh_value(kind, k, j):
    if kind in ("i", "o", "p"):
        return 1000 * k + j
    if kind == "f":
        return repr(float(k) + j / 2.0)
    if kind == "x":
        return "+-"[(j + k) % 2]
    if kind == "q":
        return [(k + j + m) % 40 for m in range(j + 1)]
    if kind == "L":
        return [100 * k + j + m for m in range(1 + (j + k) % 3)]
    if kind == "l":
        return "XX:i:%d" % (10 * k + j)
    return "n%dr%d" % (k, j) + "z" * (j % 3)


def canon_text(kind, value):
    if kind == "p":
        return str(value + 1)
    if kind == "q":
        return "".join(chr(33 + v) for v in value)
    if kind == "L":
        return ",".join(str(v) for v in value)
    if kind == "f":
        return value
    return str(value)


def to_array(kind, values):
    """concrete array for a replaced column"""
    import bionumpy as bnp
    if kind in ("i", "o", "p"):
        return np.array(values, dtype=int)
    if kind == "f":
        return np.array([float(v) for v in values])
    if kind in ("q", "L"):
        from npstructures import RaggedArray
        return RaggedArray([list(v) for v in values]) if values else RaggedArray([], [])
    if kind == "x":
        from bionumpy.encodings import StrandEncoding
        return bnp.as_encoded_array("".join(values), StrandEncoding) if values else bnp.as_encoded_array("", StrandEncoding)
    if kind == "S":
        from bionumpy.string_array import as_string_array
        return as_string_array(list(values)) if values else as_string_array(["x"])[:0]
    return bnp.as_encoded_array(list(values)) if values else bnp.as_encoded_array([""])[:0]


def project_column(kind, col):
    """bionumpy column -> list of plain values in the same form as parse_text/fresh_value"""
    if kind in ("i", "o", "p"):
        return [int(x) for x in np.asarray(col).tolist()]
    if kind == "f":
        return [repr(float(x)) for x in np.asarray(col).tolist()]
    if kind in ("q", "L"):
        return [[int(y) for y in x] for x in col.tolist()]
    out = col.tolist()
    if isinstance(out, str):
        out = list(out)
    return [str(x) for x in out]


def open_table(fmt, data, lazy):
    from bionumpy.io.parser import NumpyFileReader
    from bionumpy.io.npdataclassreader import NpDataclassReader
    r = NumpyFileReader(io.BytesIO(data), buffer_class(fmt))
    return NpDataclassReader(r, lazy=lazy)


def write_bytes(fmt, table, header_len_hint=None):
    """bytes written for `table` by a fresh writer, without the header the writer may emit"""
    from bionumpy.io.parser import NpBufferedWriter
    f = io.BytesIO()
    f.mode = "ab"       # append mode: the writer emits no header, so the output is the records only
    w = NpBufferedWriter(f, buffer_class(fmt))
    w.write(table)
    return f.getvalue()
