"""Concretisers and projections shared by the I/O properties (C01, C02, C03, C04, C05, C15).

A *record* is produced from a small abstract description (entry id, width class / byte length) and
consists of the text lines of the entry and the tuple of values the format assigns to that text
(the `expect` tuple, in the same order as the fields of the bionumpy entry type, in projected form).
Projection of a bionumpy table = list of such tuples via table.tolist().
"""
import dataclasses
import io

import numpy as np

LETTERS = "abcdefghijklmnopqrstuvwxyz"
DNA = "ACGT"


def proj_value(v):
    if isinstance(v, (list, tuple, np.ndarray)):
        return [proj_value(x) for x in (v.tolist() if isinstance(v, np.ndarray) else v)]
    if isinstance(v, (np.integer,)):
        return int(v)
    if isinstance(v, (np.floating, float)):
        return repr(float(v))
    if isinstance(v, (np.bool_, bool)):
        return bool(v)
    if dataclasses.is_dataclass(v):
        return [proj_value(getattr(v, f.name)) for f in dataclasses.fields(v)]
    if hasattr(v, "to_string"):
        return v.to_string()
    return v


def project_table(t):
    """bionumpy table -> list of rows (lists of plain values)."""
    out = []
    for row in t.tolist():
        out.append([proj_value(getattr(row, f.name)) for f in dataclasses.fields(row)])
    return out


def _name(i, width):
    """distinct identifier for entry i of exactly `width` characters (width >= 1)."""
    base = LETTERS[i % 26]
    s = base * width
    if width >= 3:
        s = base + "%0*d" % (width - 1, i % (10 ** (width - 1)))
    return s[:width]


def _seq(i, n):
    return "".join(DNA[(i + j) % 4] for j in range(n))


def _qual(i, n):
    return "".join(chr(33 + (7 * i + 3 * j) % 60) for j in range(n))


# ------------------------------------------------------------------------------------------------
# byte-exact formats of each chunking family: entry i with given line lengths
# ------------------------------------------------------------------------------------------------

def bed3_exact(i, shape):
    (L,) = shape
    start, stop = str(i), str(i + 1) if L < 9 else str(i + 11)
    if L >= 9:
        start = str(i + 10)
    w = L - 2 - len(start) - len(stop)
    assert w >= 1, (i, shape)
    chrom = _name(i, w)
    return ["%s\t%s\t%s" % (chrom, start, stop)], [chrom, int(start), int(stop)]


def fasta2_exact(i, shape):
    hl, sl = shape
    name = _name(i, hl - 1)
    seq = _seq(i, sl)
    return [">" + name, seq], [name, seq]


def fastq_exact(i, shape):
    hl, sl, pl, ql = shape
    assert sl == ql
    name = _name(i, hl - 1)
    seq = _seq(i, sl)
    plus = "+" + _name(i, pl - 1) if pl > 1 else "+"
    qual = _qual(i, ql)
    return ["@" + name, seq, plus, qual], [name, seq, [ord(c) - 33 for c in qual]]


def wrapped_exact(i, shape):
    hl = shape[0]
    name = _name(i, hl - 1)
    lines = []
    off = 0
    for sl in shape[1:]:
        lines.append(_seq(i + off, sl))
        off += sl
    return [">" + name] + lines, [name, "".join(lines)]


# ------------------------------------------------------------------------------------------------
# other formats: entry i with a width class w in {0, 1, 2}; lengths are whatever the format needs
# ------------------------------------------------------------------------------------------------

def _w(i, w):
    return [1, 2, 7][w] + (i % 2 if w else 0)


def bed6_rec(i, w):
    chrom, name = "c" + _name(i, _w(i, w)), _name(i, _w(i, (w + 1) % 3))
    start = i * 10 ** w
    stop = start + 1 + i
    # scores: multi-digit, one digit, and the '.' placeholder (read as 0) so that chunks can hold '.' next to one-character values only
    score = [(i * 7) % 1000 + 10, (i * 3) % 9 + 1, ".", (i * 7) % 1000][i % 4]
    strand = "+-."[i % 3]
    return ["\t".join([chrom, str(start), str(stop), name, str(score), strand])], [chrom, start, stop, name, 0 if score == "." else score, strand]


def bdg_rec(i, w):
    chrom = "c" + _name(i, _w(i, w))
    start = i * 10 ** w
    stop = start + 1 + i
    val = [0.5, 2.0, 10.25, 3.0][i % 4] * (i + 1)
    txt = repr(val) if i % 2 else ("%g" % val)
    return ["\t".join([chrom, str(start), str(stop), txt])], [chrom, start, stop, repr(float(val))]


def narrowpeak_rec(i, w):
    l, e = bed6_rec(i, w)
    sv, pv, qv = 1.5 * (i + 1), 0.25 * (i + 2), 2.0 ** (-(i % 5))
    summit = i % 3
    line = l[0] + "\t" + "\t".join([repr(sv), repr(pv), repr(qv), str(summit)])
    return [line], e + [repr(sv), repr(pv), repr(qv), summit]


def vcf_rec(i, w):
    chrom = "c" + _name(i, _w(i, w))
    pos = 1 + i * 10 ** w
    vid = "." if i % 2 == 0 else "rs%d" % i
    ref = _seq(i, 1 + (i % 3) * w)
    alt = _seq(i + 1, 1 + ((i + 1) % 2) * w)
    qual = "." if i % 3 == 0 else str(10 * i)
    flt = ["PASS", ".", "q10"][i % 3]
    info = [".", "DP=%d" % i, "DP=%d;AF=0.5" % i][(i + w) % 3]
    return ["\t".join([chrom, str(pos), vid, ref, alt, qual, flt, info])], [chrom, pos - 1, vid, ref, alt, qual, flt, info]


def bednum_rec(i, w):
    """BED3 with one-character numeric contig names and starts of very different widths (a short first line of a chunk next to long numbers)"""
    chrom = str(i % 9 + 1)
    start = [5, 31200 + i, 7, 1234567 + i, 120][(i + w) % 5]
    stop = start + [4, 100000, 1][i % 3]
    return ["\t".join([chrom, str(start), str(stop)])], [chrom, start, stop]


def vcfd_rec(i, w):
    """VCF record of a file whose header declares the INFO keys: the info column is a typed table (missing Integer = 0, Float = nan)."""
    lines, exp = vcf_rec(i, w)
    sel = (i + w) % 3
    exp = exp[:-1] + [[0 if sel == 0 else i, repr(0.5) if sel == 2 else "nan"]]
    return lines, exp


def sam_rec(i, w):
    name = "r" + _name(i, _w(i, w))
    flag = [0, 16, 99, 147][i % 4]
    chrom = "c" + _name(i, 1 + (w % 2))
    pos = 1 + i * 10 ** w
    mapq = (i * 17) % 61
    n = 1 + (i % 3) * (1 + w)
    cigar = "%dM" % n
    nxt = ["*", "=", chrom][i % 3]
    npos = i % 5
    tlen = [0, 10 * i, -10 * i][i % 3]
    seq = _seq(i, n)
    qual = _qual(i, n)
    tags = ["", "NM:i:%d" % i, "NM:i:%d\tMD:Z:%d" % (i, n)][(i + w) % 3]
    fields = [name, str(flag), chrom, str(pos), str(mapq), cigar, nxt, str(npos), str(tlen), seq, qual]
    line = "\t".join(fields) + ("\t" + tags if tags else "")
    return [line], [name, flag, chrom, pos, mapq, cigar, nxt, npos, tlen, seq, qual, tags]


def gtf_rec(i, w):
    chrom = "c" + _name(i, _w(i, w))
    src = "s" + _name(i, 1 + w)
    feat = ["gene", "transcript", "exon"][i % 3]
    start = 1 + i * 10 ** w
    stop = start + 5 + i
    score = [".", "0.5", "100"][i % 3]
    strand = "+-"[i % 2]
    phase = [".", "0", "1", "2"][i % 4]
    attr = 'gene_id "g%d";' % i + ('' if i % 2 else ' transcript_id "t%d";' % i)
    return ["\t".join([chrom, src, feat, str(start), str(stop), score, strand, phase, attr])], \
           [chrom, src, feat, start, stop, score, strand, phase, attr]


FORMATS = {
    # name: (suffix, buffer attr path or None, record function, exact?, family)
    "bed3":      dict(suffix=".bed", rec=bed3_exact, exact=True, family="delim", header=""),
    "fasta2":    dict(suffix=".fa", rec=fasta2_exact, exact=True, family="twoline", buffer="TwoLineFastaBuffer", header=""),
    "fastq":     dict(suffix=".fq", rec=fastq_exact, exact=True, family="fastq", header=""),
    "fasta":     dict(suffix=".fa", rec=wrapped_exact, exact=True, family="wrapped", header=""),
    "bednum":    dict(suffix=".bed", rec=bednum_rec, exact=False, family="delim", header=""),
    "bed6":      dict(suffix=".bed", rec=bed6_rec, exact=False, family="delim", buffer="Bed6Buffer", header=""),
    "bedgraph":  dict(suffix=".bdg", rec=bdg_rec, exact=False, family="delim", header=""),
    "narrowpeak": dict(suffix=".narrowPeak", rec=narrowpeak_rec, exact=False, family="delim", header=""),
    "vcf":       dict(suffix=".vcf", rec=vcf_rec, exact=False, family="delim",
                      header="##fileformat=VCFv4.2\n#CHROM\tPOS\tID\tREF\tALT\tQUAL\tFILTER\tINFO\n"),
    "vcfd":      dict(suffix=".vcf", rec=vcfd_rec, exact=False, family="delim",
                      header="##fileformat=VCFv4.2\n##INFO=<ID=DP,Number=1,Type=Integer,Description=\"d\">\n"
                             "##INFO=<ID=AF,Number=1,Type=Float,Description=\"a\">\n#CHROM\tPOS\tID\tREF\tALT\tQUAL\tFILTER\tINFO\n"),
    "sam":       dict(suffix=".sam", rec=sam_rec, exact=False, family="delim", header="@HD\tVN:1.6\tSO:unsorted\n@SQ\tSN:ca\tLN:1000\n"),
    "gtf":       dict(suffix=".gtf", rec=gtf_rec, exact=False, family="delim", header=""),
    # GFF3 with directive / comment lines between the records (C15: they are not records and are not counted as lines of data)
    "gffc":      dict(suffix=".gff", rec=gtf_rec, exact=False, family="delim", header="##gff-version 3\n", interior_comments=True),
}


def buffer_type(fmt):
    import bionumpy as bnp
    from bionumpy.io import delimited_buffers
    b = FORMATS[fmt].get("buffer")
    if b is None:
        return None
    if hasattr(bnp, b):
        return getattr(bnp, b)
    return getattr(delimited_buffers, b)


def default_buffer_type(fmt):
    from bionumpy.io.files import buffer_types
    b = buffer_type(fmt)
    return b if b is not None else buffer_types[FORMATS[fmt]["suffix"]]


def render(fmt, specs, crlf=False, finalnl=True, with_header=True):
    """specs: list of per-entry descriptors (shape tuple for exact formats, width class otherwise).
    Returns (bytes, expected rows, entry byte lengths)."""
    f = FORMATS[fmt]
    nl = "\r\n" if crlf else "\n"
    body = []
    rows = []
    lens = []
    for i, s in enumerate(specs):
        lines, exp = f["rec"](i, tuple(s) if isinstance(s, (list, tuple)) else s)
        txt = "".join(l + nl for l in lines)
        body.append(txt)
        lens.append(len(txt))
        rows.append(exp)
    text = "".join(body)
    if not finalnl and text:
        text = text[:-len(nl)]
    header = f["header"] if with_header else ""
    if crlf:
        header = header.replace("\n", "\r\n")
    return (header + text).encode("latin-1"), rows, lens, len(header)


class RecordingFile(io.BytesIO):
    """In-memory file that records the reader's interaction with the OS (mechanism observation)."""

    def __init__(self, data, name="mem"):
        super().__init__(data)
        self.log = []
        self.name = name

    def read(self, n=-1):
        b = super().read(n)
        self.log.append(("read", n, len(b)))
        return b

    def seek(self, off, whence=0):
        self.log.append(("seek", off, whence))
        return super().seek(off, whence)


def open_reader(fmt, data, lazy, prepend=False):
    from bionumpy.io.parser import NumpyFileReader
    from bionumpy.io.npdataclassreader import NpDataclassReader
    f = RecordingFile(data)
    r = NumpyFileReader(f, default_buffer_type(fmt))
    if prepend:
        r.set_prepend_mode()
    f.log.clear()
    return NpDataclassReader(r, lazy=lazy), f, r
