"""Engine shared by all property drivers.

  * run TLC on a specification (model checking / simulation / trace validation) and collect the
    JSON values the specification prints (vectors = explored states with predicted observables)
  * replay vectors into the real bionumpy code in parallel (binding A)
  * ship recorded executions of the real code to TLC in batches (binding B)
  * classify disagreements against known_findings.json, print VIOLATION / KNOWN-FINDING lines
  * write evidence/<id>.json (schema-validated) and replay files

Exit codes: 0 property held on everything explored, 1 violation, 2 machinery failure.
"""
import hashlib
import json
import gc
import multiprocessing
import os
import re
import shutil
import subprocess
import sys
import time
import traceback

VERIF = os.path.dirname(os.path.dirname(os.path.abspath(__file__)))
REPO = os.environ.get("BNP_REPO", "/repo")
SPEC_DIR = os.path.join(VERIF, "spec")
NPROC = int(os.environ.get("VERIF_NPROC", "16"))
TLC_JAR_CP = "/opt/veriftools/tla/tla2tools.jar:/opt/veriftools/tla/CommunityModules-deps.jar"


class MachineryFailure(Exception):
    pass


# --------------------------------------------------------------------------------------------
# TLC
# --------------------------------------------------------------------------------------------

class TlcResult:
    def __init__(self):
        self.generated = 0      # "states generated"  (= transitions taken, incl. initial)
        self.distinct = 0       # "distinct states found"
        self.depth = 0
        self.vectors = []       # parsed JSON values printed by the spec
        self.printed = []       # other PrintT tuples (e.g. REJECT lines), raw text
        self.coverage = {}      # action name -> (distinct, taken)
        self.wall = 0.0
        self.cmd = ""
        self.out_path = None
        self.exit = None


def _cfg_text(spec=None, init="Init", next_="Next", constants=None, invariants=(), properties=(),
              constraints=(), action_constraints=(), view=None, postcondition=None, deadlock=False,
              symmetry=None):
    lines = []
    if spec:
        lines.append("SPECIFICATION %s" % spec)
    else:
        lines += ["INIT %s" % init, "NEXT %s" % next_]
    if constants:
        lines.append("CONSTANTS")
        for k, v in constants.items():
            if isinstance(v, bool):
                v = "TRUE" if v else "FALSE"
            elif isinstance(v, str) and v.startswith("<-"):
                lines.append("  %s %s" % (k, v))
                continue
            elif isinstance(v, str):
                v = '"%s"' % v
            elif isinstance(v, (set, frozenset, list, tuple)):
                v = "{" + ", ".join(('"%s"' % x) if isinstance(x, str) else str(x) for x in v) + "}"
            lines.append("  %s = %s" % (k, v))
    for i in invariants:
        lines.append("INVARIANT %s" % i)
    for p in properties:
        lines.append("PROPERTY %s" % p)
    for c in constraints:
        lines.append("CONSTRAINT %s" % c)
    for c in action_constraints:
        lines.append("ACTION_CONSTRAINT %s" % c)
    if view:
        lines.append("VIEW %s" % view)
    if postcondition:
        lines.append("POSTCONDITION %s" % postcondition)
    if symmetry:
        lines.append("SYMMETRY %s" % symmetry)
    lines.append("CHECK_DEADLOCK %s" % ("TRUE" if deadlock else "FALSE"))
    return "\n".join(lines) + "\n"


_BANNER = re.compile(r"(\d+) states generated, (\d+) distinct states found")
_DEPTH = re.compile(r"depth of the complete state graph search is (\d+)")
_COV = re.compile(r"^<(\w+) line \d+, col \d+ to line \d+, col \d+ of module (\w+)>: (\d+):(\d+)")


def run_tlc(module, workdir, tag="run", workers=None, timeout=3600, env=None, coverage=False,
            simulate=None, depth=None, seed=None, keep_vectors=True, vector_sink=None,
            expect_ok=True, jvm_opts=(), **cfg):
    """Run TLC on spec/<module>.tla with a cfg generated from **cfg.  Returns TlcResult.

    Any failure of the specification itself (parse error, invariant violated on the spec, timeout)
    is a MachineryFailure: .tla files do not depend on the code under test."""
    os.makedirs(workdir, exist_ok=True)
    cfg_path = os.path.join(workdir, "%s.cfg" % tag)
    with open(cfg_path, "w") as f:
        f.write(_cfg_text(**cfg))
    meta = os.path.join(workdir, "meta-%s" % tag)
    shutil.rmtree(meta, ignore_errors=True)
    out_path = os.path.join(workdir, "%s.out" % tag)
    if workers is None:
        workers = NPROC
    jtmp = os.path.join(workdir, "jtmp")          # TLC unpacks its standard modules into java.io.tmpdir on every start: keep that inside the work directory
    os.makedirs(jtmp, exist_ok=True)
    cmd = ["java", "-XX:+UseParallelGC", "-Xmx8g", "-Xss64m", "-Djava.io.tmpdir=" + jtmp] + list(jvm_opts) + ["-cp", TLC_JAR_CP, "tlc2.TLC",
           "-workers", str(workers), "-metadir", meta, "-noGenerateSpecTE", "-config", cfg_path]
    if coverage:
        cmd += ["-coverage", "1"]
    if simulate:
        cmd += ["-simulate", simulate]
        if depth:
            cmd += ["-depth", str(depth)]
    if seed is not None:
        cmd += ["-seed", str(seed)]
    cmd.append(module + ".tla")
    e = dict(os.environ)
    if env:
        e.update({k: str(v) for k, v in env.items()})
    res = TlcResult()
    res.cmd = " ".join(cmd)
    res.out_path = out_path
    t0 = time.time()
    with open(out_path, "w") as out:
        try:
            p = subprocess.run(cmd, cwd=SPEC_DIR, stdout=out, stderr=subprocess.STDOUT, env=e,
                               timeout=timeout)
            res.exit = p.returncode
        except subprocess.TimeoutExpired:
            raise MachineryFailure("TLC timed out after %ss: %s (output %s)" % (timeout, module, out_path))
    res.wall = time.time() - t0
    shutil.rmtree(meta, ignore_errors=True)
    errors = []
    pending = None
    with open(out_path, errors="replace") as f:
        for line in f:
            if line.startswith('"{') or line.startswith('"['):
                try:
                    v = json.loads(json.loads(line))
                except Exception:
                    raise MachineryFailure("unparsable vector line from TLC: %r" % line[:200])
                if vector_sink is not None:
                    vector_sink(v)
                if keep_vectors:
                    res.vectors.append(v)
                continue
            if pending is not None:
                pending += " " + line.strip()
                if pending.endswith(">>"):
                    res.printed.append(pending)
                    pending = None
                continue
            if line.startswith("<<"):
                if line.strip().endswith(">>"):
                    res.printed.append(line.strip())
                else:
                    pending = line.strip()      # TLC wraps long tuples over several lines
                continue
            m = _BANNER.search(line)
            if m:
                res.generated, res.distinct = int(m.group(1)), int(m.group(2))
                continue
            m = _DEPTH.search(line)
            if m:
                res.depth = int(m.group(1))
                continue
            m = _COV.match(line)
            if m:
                name = m.group(1)
                d, t = int(m.group(3)), int(m.group(4))
                old = res.coverage.get(name, (0, 0))
                res.coverage[name] = (max(old[0], d), max(old[1], t))
                continue
            if line.startswith("Error:") or "is violated" in line or "*** Errors" in line \
                    or "Parsing or semantic analysis failed" in line:
                errors.append(line.strip())
    if simulate and not res.generated:
        # simulation mode prints a different banner
        with open(out_path, errors="replace") as f:
            txt = f.read()
        m = re.search(r"(\d+) states checked", txt)
        if m:
            res.generated = res.distinct = int(m.group(1))
    if expect_ok and (res.exit != 0 or errors):
        raise MachineryFailure("TLC failed on the specification %s (exit %s): %s ; see %s"
                               % (module, res.exit, errors[:3], out_path))
    res.errors = errors
    return res


# --------------------------------------------------------------------------------------------
# outcome of a call into the code under test
# --------------------------------------------------------------------------------------------

def outcome(fn, *a, **k):
    """Call into bionumpy; an exception raised there is an observation, not a harness crash."""
    try:
        return ("ok", fn(*a, **k))
    except BaseException as e:  # noqa - we really want everything incl. AssertionError, SystemExit excluded
        if isinstance(e, (KeyboardInterrupt, SystemExit, MemoryError)):
            raise
        return ("err", type(e).__name__ + ": " + str(e)[:200])


def jsonable(x):
    import numpy as np
    if isinstance(x, dict):
        return {str(k): jsonable(v) for k, v in x.items()}
    if isinstance(x, (list, tuple)):
        return [jsonable(v) for v in x]
    if isinstance(x, (np.integer,)):
        return int(x)
    if isinstance(x, (np.floating,)):
        return float(x)
    if isinstance(x, np.bool_):
        return bool(x)
    if isinstance(x, np.ndarray):
        return jsonable(x.tolist())
    if isinstance(x, bytes):
        return x.decode("latin-1")
    if isinstance(x, (set, frozenset)):
        return sorted(jsonable(v) for v in x)
    return x


# --------------------------------------------------------------------------------------------
# parallel replay
# --------------------------------------------------------------------------------------------

_WORKER_FN = None


def _worker(chunk):
    out = []
    for item in chunk:
        try:
            r = _WORKER_FN(item)
        except BaseException as e:
            if isinstance(e, (KeyboardInterrupt, SystemExit)):
                raise
            r = {"machinery": traceback.format_exc()[-1500:], "item": jsonable(item)}
        out.append(r)
    return out


def pmap(fn, items, chunk=50, nproc=None):
    """fn(item) -> result dict; runs in forked workers. Results are returned in order."""
    global _WORKER_FN
    items = list(items)
    if not items:
        return []
    nproc = nproc or NPROC
    _WORKER_FN = fn
    chunks = [items[i:i + chunk] for i in range(0, len(items), chunk)]
    if nproc == 1 or len(items) < 8:
        res = [_worker(c) for c in chunks]
    else:
        ctx = multiprocessing.get_context("fork")
        # the workers inherit the parent's heap (hundreds of thousands of vectors in the thorough tiers); without freezing it the cyclic
        # collector of every worker walks - and thereby copies - all of it (C19 thorough: 4 GB of private pages per worker)
        gc.collect()
        gc.freeze()
        try:
            with ctx.Pool(min(nproc, len(chunks))) as pool:
                res = pool.map(_worker, chunks)
        finally:
            gc.unfreeze()
    flat = [r for c in res for r in c]
    for r in flat:
        if isinstance(r, dict) and "machinery" in r:
            raise MachineryFailure("driver crashed outside bionumpy: %s\nitem=%s" % (r["machinery"], str(r["item"])[:500]))
    return flat


def pmap_isolated(fn, items, nproc=None):
    """Like pmap, but every item runs in a freshly forked process of its own: module-level state of the code under test (caches
    filled by earlier calls) is as it is right after import, so the ORDER of calls inside one item is the only history there is."""
    global _WORKER_FN
    items = list(items)
    if not items:
        return []
    _WORKER_FN = fn
    ctx = multiprocessing.get_context("fork")
    with ctx.Pool(min(nproc or NPROC, len(items)), maxtasksperchild=1) as pool:
        res = pool.map(_worker, [[it] for it in items], chunksize=1)
    flat = [r for c in res for r in c]
    for r in flat:
        if isinstance(r, dict) and "machinery" in r:
            raise MachineryFailure("driver crashed outside bionumpy: %s\nitem=%s" % (r["machinery"], str(r["item"])[:500]))
    return flat


# --------------------------------------------------------------------------------------------
# run context: verdicts, findings, evidence
# --------------------------------------------------------------------------------------------

class Ctx:
    def __init__(self, prop, tier, seed):
        self.prop = prop
        self.tier = tier
        self.seed = seed
        self.t0 = time.time()
        self.work = os.path.join(VERIF, ".work", "%s-%d" % (prop, os.getpid()))
        shutil.rmtree(self.work, ignore_errors=True)
        os.makedirs(self.work)
        os.environ["VERIF_RUN_WORK"] = self.work          # scratch directory of this run, for code running in forked workers
        shutil.rmtree(os.path.join(VERIF, "replays", prop), ignore_errors=True)   # replays of earlier runs are stale
        self.states = 0
        self.transitions = 0
        self.traces = 0            # behaviours replayed into / traces validated from the implementation
        self.evaluations = 0       # calls into the code under test
        self.nontrivial = set()
        self.samples = []
        self.actions = {}
        self.checker_cmds = []
        self.disagreements = []    # all
        self.violations = []       # unlisted
        self.known_hit = {}
        self.drift = []
        self.notes = []
        self.parts = {}
        self.exhaustive = True
        with open(os.path.join(VERIF, "known_findings.json")) as f:
            self.findings = [x for x in json.load(f)["findings"] if x["property"] == prop]

    # -- TLC ---------------------------------------------------------------------------------
    def tlc(self, module, tag=None, **kw):
        tag = tag or module
        res = run_tlc(module, self.work, tag=tag, seed=kw.pop("seed", None), **kw)
        self.states += res.distinct
        self.transitions += res.generated
        self.checker_cmds.append(re.sub(r"-metadir \S+ ", "", res.cmd).replace(self.work, ".work/<run>"))
        for k, v in res.coverage.items():
            self.actions["%s.%s" % (module, k)] = v[1] if isinstance(v, tuple) else v
        self.parts[tag] = {"states": res.distinct, "transitions": res.generated, "depth": res.depth,
                           "vectors": len(res.vectors), "tlc_wall_s": round(res.wall, 1)}
        return res

    def require_actions(self, res, module, names):
        """Vacuity guard: every named action of the spec must have been taken."""
        for n in names:
            if res.coverage.get(n, (0, 0))[1] == 0:
                raise MachineryFailure("action %s of %s was never taken: the run is vacuous" % (n, module))

    # -- cases -------------------------------------------------------------------------------
    def sample(self, x, limit=6):
        if len(self.samples) < limit:
            self.samples.append(jsonable(x))

    def count(self, evaluations=0, traces=0, nontrivial_keys=()):
        self.evaluations += evaluations
        self.traces += traces
        for k in nontrivial_keys:
            self.nontrivial.add(k)

    def absorb(self, results):
        """results: list of dicts from replay workers:
             {"n": evaluations, "nt": [keys], "bad": [disagreement,...], "drift": [...]}"""
        for r in results:
            if r is None:
                continue
            self.evaluations += r.get("n", 0)
            self.traces += r.get("traces", 1)
            for k in r.get("nt", ()):
                self.nontrivial.add(k)
            for d in r.get("bad", ()):
                self.disagree(d)
            for d in r.get("drift", ()):
                if len(self.drift) < 20:
                    self.drift.append(d)

    # -- verdicts ----------------------------------------------------------------------------
    def disagree(self, d):
        """d = {"what": str, "tags": {abstract parameters}, "case": ..., "expected": ..., "observed": ...}"""
        d = jsonable(d)
        self.disagreements.append(d)
        f = self._match(d)
        if f is not None:
            self.known_hit.setdefault(f["id"], {"finding": f, "n": 0, "example": d})["n"] += 1
        else:
            self.violations.append(d)

    def _match(self, d):
        tags = d.get("tags", {})
        for f in self.findings:
            if f.get("status") != "known":
                continue
            ok = True
            for k, v in f["match"].items():
                tv = tags.get(k, None)
                if isinstance(v, dict) and "in" in v:
                    ok = tv in v["in"]
                elif isinstance(v, dict) and "prefix" in v:
                    ok = isinstance(tv, str) and tv.startswith(v["prefix"])
                else:
                    ok = tv == v
                if not ok:
                    break
            if ok:
                return f
        return None

    def write_replay(self, d):
        rd = os.path.join(VERIF, "replays", self.prop)
        os.makedirs(rd, exist_ok=True)
        blob = json.dumps(d, sort_keys=True, indent=1)
        p = os.path.join(rd, hashlib.sha1(blob.encode()).hexdigest()[:16] + ".json")
        with open(p, "w") as f:
            f.write(blob)
        return p

    # -- finish ------------------------------------------------------------------------------
    def finish(self, rule, level="model_checking", trusted=(), assumptions=(), extra=None):
        wall = time.time() - self.t0
        for fid, h in sorted(self.known_hit.items()):
            print("KNOWN-FINDING: property=%s %s: %s (met %d times; e.g. %s)" % (
                self.prop, fid, h["finding"]["what"], h["n"], json.dumps(h["example"].get("tags", {}), sort_keys=True)))
        # group violations by 'what' + tags to keep output short; one replay per group
        groups = {}
        for v in self.violations:
            key = v.get("what", "") + "|" + json.dumps(v.get("group", v.get("tags", {})), sort_keys=True)
            groups.setdefault(key, []).append(v)
        n_reported = 0
        for key, vs in groups.items():
            if n_reported >= 25:
                break
            v = dict(vs[0])
            v["property"] = self.prop
            v["occurrences_in_group"] = len(vs)
            p = self.write_replay(v)
            print("VIOLATION property=%s replay=%s" % (self.prop, p))
            print("  what: %s ; tags=%s ; expected=%s ; observed=%s" % (
                v.get("what"), json.dumps(v.get("tags", {}), sort_keys=True),
                str(v.get("expected"))[:300], str(v.get("observed"))[:300]))
            n_reported += 1
        cov = {
            "states": self.states, "transitions": self.transitions,
            "traces_validated_against_impl": self.traces,
            "evaluations": self.evaluations,
            "distinct_nontrivial": len(self.nontrivial),
            "rule": rule,
            "samples": self.samples or [{"note": "no sample recorded"}],
            "exhaustive": bool(self.exhaustive),
            "checker_cmd": " && ".join(self.checker_cmds[:4]),
            "trusted_base": list(trusted) or DEFAULT_TRUSTED,
            "spec_actions_taken": self.actions,
            "parts": self.parts,
            "mechanism_drift": self.drift,
            "known_findings_hit": {k: h["n"] for k, h in self.known_hit.items()},
            "disagreements": len(self.disagreements),
            "notes": self.notes,
        }
        if extra:
            cov.update(extra)
        ev = {"property_id": self.prop, "tier": self.tier, "seed": int(self.seed), "level": level,
              "coverage": jsonable(cov), "assumptions": list(assumptions), "wall_s": round(wall, 2),
              "violations": len(self.violations)}
        write_evidence(ev)
        shutil.rmtree(self.work, ignore_errors=True)
        print("%s tier=%s seed=%s: states=%d transitions=%d impl_traces=%d evaluations=%d nontrivial=%d "
              "disagreements=%d known=%d violations=%d wall=%.1fs" % (
                  self.prop, self.tier, self.seed, self.states, self.transitions, self.traces,
                  self.evaluations, len(self.nontrivial), len(self.disagreements),
                  sum(h["n"] for h in self.known_hit.values()), len(self.violations), wall))
        return 1 if self.violations else 0


DEFAULT_TRUSTED = [
    "TLC 1.8.0 and the CommunityModules Json/IOUtils",
    "transcription of the definitions into TLA+ (spec/*.tla), guarded by TLC-checked sanity invariants",
    "engine concretisers/projections (deterministic; equality only)",
    "CPython 3.12, numpy, npstructures as installed",
]


def write_evidence(ev):
    import jsonschema
    with open(os.path.join(VERIF, "schemas", "EVIDENCE.schema.json")) as f:
        schema = json.load(f)
    jsonschema.validate(ev, schema)
    # VERIF_EVIDENCE_DIR: runs against a modified copy of the repository (tools/seeded.py) must not overwrite the evidence of /repo
    evdir = os.environ.get("VERIF_EVIDENCE_DIR") or os.path.join(VERIF, "evidence")
    if not (ev["property_id"].startswith("C") and ev["property_id"][1:].isdigit()):
        # specification growth beyond the listed properties (./check EXT): its own directory, never mixed with the properties' evidence
        evdir = os.environ.get("VERIF_EVIDENCE_DIR") or os.path.join(VERIF, "evidence_ext")
    os.makedirs(evdir, exist_ok=True)
    with open(os.path.join(evdir, ev["property_id"] + ".json"), "w") as f:
        json.dump(ev, f, indent=1, sort_keys=True)
        f.write("\n")


def setup_repo_path():
    if REPO not in sys.path:
        sys.path.insert(0, REPO)
    import warnings
    import logging
    warnings.filterwarnings("ignore")
    logging.disable(logging.CRITICAL)
    import bionumpy  # noqa
    got = os.path.dirname(os.path.dirname(os.path.abspath(bionumpy.__file__)))
    if os.path.realpath(got) != os.path.realpath(REPO):
        raise MachineryFailure("bionumpy imported from %s, expected %s" % (got, REPO))
