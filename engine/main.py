import argparse
import importlib
import json
import os
import sys
import traceback

from . import core


def _clean_stale_work():
    """remove scratch directories of runs whose process is gone"""
    import shutil
    w = os.path.join(core.VERIF, ".work")
    if not os.path.isdir(w):
        return
    for d in os.listdir(w):
        pid = d.rsplit("-", 1)[-1]
        if pid.isdigit() and not os.path.exists("/proc/%s" % pid):
            shutil.rmtree(os.path.join(w, d), ignore_errors=True)


def main():
    ap = argparse.ArgumentParser()
    ap.add_argument("prop")
    ap.add_argument("--tier", default=os.environ.get("VERIF_TIER", "quick"), choices=["quick", "thorough"])
    ap.add_argument("--seed", type=int, default=int(os.environ.get("VERIF_SEED", "0") or 0))
    ap.add_argument("--replay", default=None)
    a = ap.parse_args()
    try:
        core.setup_repo_path()
        drv = importlib.import_module("engine.drivers.%s" % a.prop)
        if a.replay:
            with open(a.replay) as f:
                d = json.load(f)
            rc = drv.replay(d)
            sys.exit(rc)
        _clean_stale_work()
        ctx = core.Ctx(a.prop, a.tier, a.seed)
        rc = drv.run(ctx)
        sys.exit(rc)
    except core.MachineryFailure as e:
        print("MACHINERY-FAILURE %s: %s" % (a.prop, e))
        sys.exit(2)
    except SystemExit:
        raise
    except BaseException:
        print("MACHINERY-FAILURE %s: %s" % (a.prop, traceback.format_exc()))
        sys.exit(2)


if __name__ == "__main__":
    main()
