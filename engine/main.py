import argparse
import importlib
import json
import os
import sys
import traceback

from . import core


def main():
    ap = argparse.ArgumentParser()
    ap.add_argument("prop")
    ap.add_argument("--tier", default=os.environ.get("VERIF_TIER", "quick"), choices=["quick", "thorough"])
    ap.add_argument("--seed", type=int, default=int(os.environ.get("VERIF_SEED", "0") or 0))
    ap.add_argument("--replay", default=None)
    a = ap.parse_args()
    try:
        core.setup_repo_path()
        drv = importlib.import_module("engine.drivers.%s" % a.prop)
        if a.replay:
            with open(a.replay) as f:
                d = json.load(f)
            rc = drv.replay(d)
            sys.exit(rc)
        ctx = core.Ctx(a.prop, a.tier, a.seed)
        rc = drv.run(ctx)
        sys.exit(rc)
    except core.MachineryFailure as e:
        print("MACHINERY-FAILURE %s: %s" % (a.prop, e))
        sys.exit(2)
    except SystemExit:
        raise
    except BaseException:
        print("MACHINERY-FAILURE %s: %s" % (a.prop, traceback.format_exc()))
        sys.exit(2)


if __name__ == "__main__":
    main()
