#!/venv/bin/python
"""Lists the public functions and methods of bionumpy (module level and class level, names not starting with '_') that no driver
under engine/ mentions by name.  A hint where to look next, nothing more: many entries are reached indirectly (buffer classes, helpers).
Usage: /venv/bin/python tools/api_gap_scan.py [repo root, default /repo]"""
import ast, glob, os, re, sys
V = os.path.dirname(os.path.dirname(os.path.abspath(__file__)))
repo = sys.argv[1] if len(sys.argv) > 1 else "/repo"
src = "".join(open(f).read() for f in glob.glob(os.path.join(V, "engine", "drivers", "*.py")) + glob.glob(os.path.join(V, "engine", "*.py")))
for f in sorted(glob.glob(os.path.join(repo, "bionumpy", "**", "*.py"), recursive=True)):
    if any(x in f for x in ("/tests", "cupy", "plotting", "/cli", "scripts", "simulate")):
        continue
    try:
        tree = ast.parse(open(f).read())
    except SyntaxError:
        continue
    miss = []
    for n in tree.body:
        if isinstance(n, ast.FunctionDef) and not n.name.startswith("_") and not re.search(r"\b" + n.name + r"\b", src):
            miss.append(n.name)
        if isinstance(n, ast.ClassDef) and not n.name.startswith("_"):
            miss += [n.name + "." + m.name for m in n.body if isinstance(m, ast.FunctionDef) and not m.name.startswith("_")
                     and not re.search(r"\b" + m.name + r"\b", src)]
    if miss:
        print(os.path.relpath(f, repo), ", ".join(miss))
