#!/venv/bin/python
"""Regenerates the generated tables of DESIGN.md (between <!-- BEGIN x --> / <!-- END x --> markers) from
known_findings.json, seeded/*/meta.json and evidence/*.json."""
import glob, json, os, re
HERE = os.path.dirname(os.path.dirname(os.path.abspath(__file__)))


def findings():
    d = json.load(open(os.path.join(HERE, "known_findings.json")))
    out = ["| property | id | status | commit in /repo | what failed |", "|---|---|---|---|---|"]
    for f in sorted(d["findings"], key=lambda f: (f["property"], f["status"], f["id"])):
        out.append("| %s | `%s` | %s | %s | %s |" % (f["property"], f["id"], f["status"], f.get("commit", "–"), f["what"].replace("|", "\\|").replace("\n", " ")))
    return "\n".join(out)


def seeds():
    out = ["| seeded change | breaks | what it changes (one line) | caught by (quick tier unless stated): VIOLATION lines |", "|---|---|---|---|"]
    for p in sorted(glob.glob(os.path.join(HERE, "seeded", "*", "meta.json"))):
        m = json.load(open(p))
        name = os.path.basename(os.path.dirname(p))
        what = m.get("what_it_breaks", "").replace("|", "\\|").replace("\n", " ")
        what = what if len(what) < 260 else what[:257] + "..."
        det = "; ".join("%s: %s" % (k, v.get("violations") if isinstance(v, dict) else v) for k, v in sorted((m.get("detected_by") or {}).items())) or "NOT DETECTED"
        out.append("| `%s` | %s | %s | %s |" % (name, m.get("property", name[:3]), what, det))
    return "\n".join(out)


def evidence():
    out = ["| property | tier of the committed evidence | TLC states | behaviours/traces run against bionumpy | evaluations | distinct non-trivial | wall s |", "|---|---|---|---|---|---|---|"]
    for p in sorted(glob.glob(os.path.join(HERE, "evidence", "C*.json"))):
        d = json.load(open(p))
        c = d["coverage"]
        out.append("| %s | %s | %s | %s | %s | %s | %s |" % (d["property_id"], d.get("tier"), c.get("states"), c.get("traces_validated_against_impl"), c.get("evaluations"),
                                                          c.get("distinct_nontrivial"), d.get("wall_s")))
    return "\n".join(out)


def main():
    path = os.path.join(HERE, "DESIGN.md")
    s = open(path).read()
    for key, fn in (("findings", findings), ("seeds", seeds), ("evidence", evidence)):
        pat = re.compile(r"(<!-- BEGIN %s -->\n).*?(<!-- END %s -->)" % (key, key), re.S)
        if pat.search(s):
            s = pat.sub(lambda m: m.group(1) + fn() + "\n" + m.group(2), s)
    open(path, "w").write(s)


if __name__ == "__main__":
    main()
