#!/venv/bin/python
"""Seeded-change bookkeeping.
  import <srcdir> <prop>      copy an agent's seeded/<name> dirs into /verif/seeded/<prop>-<name>/ after confirming, in a
                              scratch worktree of /repo HEAD: patch applies, demo PASSes without and FAILs with the patch
  run <seed-id> [tier] [props...]   apply the patch to /repo, run the checks (default: the seed's property, quick), undo
"""
import json, os, shutil, subprocess, sys, time
V = os.path.dirname(os.path.dirname(os.path.abspath(__file__)))
PY = "/venv/bin/python"

def sh(cmd, cwd=None, timeout=3600):
    p = subprocess.run(cmd, shell=True, cwd=cwd, stdout=subprocess.PIPE, stderr=subprocess.STDOUT, timeout=timeout, text=True)
    return p.returncode, p.stdout

def do_import(src, prop):
    wt = "/tmp/seedcheck-%d" % os.getpid()
    sh("git -C /repo worktree add -q --detach %s HEAD" % wt)
    try:
        for name in sorted(os.listdir(src)):
            d = os.path.join(src, name)
            if not os.path.isfile(os.path.join(d, "patch.diff")):
                continue
            sid = "%s-%s" % (prop, name)
            rc, out = sh("git apply --check %s/patch.diff" % d, cwd=wt)
            if rc:
                print(sid, "PATCH DOES NOT APPLY to current HEAD:", out[:300]); continue
            os.makedirs(os.path.join(wt, "seeded", name), exist_ok=True)
            shutil.copy(os.path.join(d, "demo.py"), os.path.join(wt, "seeded", name, "demo.py"))
            rc0, out0 = sh("%s seeded/%s/demo.py" % (PY, name), cwd=wt)
            sh("git apply %s/patch.diff" % d, cwd=wt)
            rc1, out1 = sh("%s seeded/%s/demo.py" % (PY, name), cwd=wt)
            sh("git checkout -- bionumpy", cwd=wt)
            ok = rc0 == 0 and rc1 != 0
            print(sid, "demo clean rc=%d patched rc=%d -> %s" % (rc0, rc1, "CONFIRMED" if ok else "NOT CONFIRMED"))
            if not ok:
                print(out0[-300:], out1[-300:]); continue
            dst = os.path.join(V, "seeded", sid)
            os.makedirs(dst, exist_ok=True)
            for f in ("patch.diff", "demo.py", "meta.json"):
                shutil.copy(os.path.join(d, f), os.path.join(dst, f))
            meta = json.load(open(os.path.join(dst, "meta.json")))
            meta["confirmed_by_me"] = {"demo_clean_rc": rc0, "demo_patched_rc": rc1, "at_repo_head": sh("git -C /repo log --format=%h -1")[1].strip(),
                                       "ran": "git apply; python seeded/<name>/demo.py in a scratch worktree of /repo HEAD"}
            meta.setdefault("detected_by", {})
            json.dump(meta, open(os.path.join(dst, "meta.json"), "w"), indent=1)
    finally:
        sh("git -C /repo worktree remove --force %s" % wt)

def do_run(sid, tier="quick", props=None):
    """The change is applied to a scratch worktree of /repo's HEAD (outside /repo and /verif); the checks run against it through
    BNP_REPO and write their evidence into the scratch tree, so neither /repo nor /verif/evidence is touched."""
    d = os.path.join(V, "seeded", sid)
    meta = json.load(open(os.path.join(d, "meta.json")))
    props = props or [meta["property"]]
    wt = "/tmp/seedrun-%d" % os.getpid()
    sh("git -C /repo worktree add -q --detach %s HEAD" % wt)
    results = {}
    try:
        rc, out = sh("git apply %s/patch.diff" % d, cwd=wt)
        if rc:
            print("patch does not apply:", out); return 2
        for p in props:
            t0 = time.time()
            rc, out = sh("BNP_REPO=%s VERIF_EVIDENCE_DIR=%s/.verif_evidence ./check %s --tier %s" % (wt, wt, p, tier), cwd=V)
            viol = [l for l in out.splitlines() if l.startswith("VIOLATION")]
            results[p] = {"exit": rc, "violations": len(viol), "wall_s": round(time.time() - t0, 1)}
            print("%s under %s: exit=%d violation_lines=%d" % (p, sid, rc, len(viol)))
            for l in out.splitlines():
                if l.startswith("  what") or l.startswith("MACHINERY"):
                    print("   ", l[:260]); break
    finally:
        sh("git -C /repo worktree remove --force %s" % wt)
    meta.setdefault("detected_by", {})
    for p, r in results.items():
        meta["detected_by"]["%s/%s" % (p, tier)] = r
    json.dump(meta, open(os.path.join(d, "meta.json"), "w"), indent=1)
    return 0

if __name__ == "__main__":
    if sys.argv[1] == "import":
        do_import(sys.argv[2], sys.argv[3])
    elif sys.argv[1] == "run":
        sys.exit(do_run(sys.argv[2], sys.argv[3] if len(sys.argv) > 3 else "quick", sys.argv[4:] or None))
