#!/venv/bin/python
"""Regenerates MANIFEST.json from the table below (single source of truth for the interface)."""
import json, os, sys
HERE = os.path.dirname(os.path.dirname(os.path.abspath(__file__)))
TB = ("Trusted: TLC 1.8.0 + CommunityModules Json/IOUtils; my transcription of the definitions into TLA+ "
      "(guarded by TLC-checked sanity invariants); the engine's concretisers/projections (deterministic, equality only); "
      "CPython/numpy/npstructures as installed. ")
CHECKS = {
 "C08": dict(
   text="TLC explores exhaustively every sequence of <=3 intervals on a contig of size <=6 (and every pair with a sorted "
        "disjoint second set) as a state machine over spec/Intervals.tla, checks transcription invariants and the "
        "pile-up monotonicity action property, and emits each state with the value the per-base definitions assign to "
        "every operation; every state is replayed into bionumpy (binding A) and recorded executions on larger random "
        "inputs are validated by TLC against the same definitions (binding B). Exhaustive small scope + independent "
        "definitional oracle is the right level for pure set arithmetic whose hazards are coincident endpoints.",
   note=TB + "Bounds: S<=4 quick / S<=6 thorough, <=3 intervals; preconditions of merge/overlap as documented.",
   technique="TLA+ definitional spec + TLC exhaustive state emission replayed into code; TLC batch trace validation",
   design="6/C08"),
}
CHECKS["C01"] = dict(
   text="spec/ChunkReader.tla transcribes NumpyFileReader.read_chunk (raw read, end-of-file inference, per-format cut, seek-back / "
        "carried tail) as an L1 state machine; TLC checks NoDupOrReorder, Complete, CarryIsSuffix, LinesCounted, WholeEntries on every "
        "configuration (entry shapes x CRLF x final newline x every chunk size 1..|file|+2 x seek/carry) of four cut-rule families and "
        "prints every completed behaviour, which is replayed byte-exactly into the real reader lazily and eagerly (binding A); "
        "executions of the real reader on all ten formats, real plain and gzip files and larger files are recorded (one event per "
        "read_chunk return) and validated by TLC against the L0 guards of ChunkL0.tla (binding B). The quantifier (every chunk size "
        "x file shape x mode) is a state-space quantifier, so exhaustive bounded model checking plus replay is the right level.",
   note=TB + "Bounds: <=3 entries quick / <=4 thorough over fixed line-length shapes; larger files sampled (5-40 entries). "
        "The as-built end-of-file rule (AsBuilt=TRUE) is kept as a regression witness that TLC refutes.",
   technique="TLA+ L1 mechanism model checked by TLC + replay of every model behaviour into the reader + TLC trace validation against L0",
   design="6/C01")
CHECKS["C12"] = dict(
   text="spec/Synchronise.tla models the per-contig generator with its one-group look-ahead AND the consumer's number of pulls "
        "(pipelines zipped with contig names/sizes stop after the last contig; reductions pull once more), and SynchedStream. TLC "
        "enumerates every genome of <=4 contigs x every sequence of distinct contig groups (all subsets in all orders, unknown and "
        "ignored names) x both consumers, checks NoSilentDrop/NoSpuriousError/PrefixRight, and every terminal behaviour is replayed "
        "through the real streamed pipelines (mask/pile-up/track get_data, field nodes, sums, MultiStream, contingency table, ragged "
        "contig columns) under several chunkings. The hazard is an interaction between generator and consumer, i.e. a schedule: model "
        "checking the pair is the right level.",
   note=TB + "Bounds: genomes of 1-3 contigs quick / 1-4 thorough, groups of 1-2 entries, 4 chunkings per case. The as-built generator "
        "(check after the yield) is kept as a regression witness that TLC refutes.",
   technique="TLA+ generator+consumer model checked by TLC; every terminal behaviour replayed into the real pipelines",
   design="6/C12")
CHECKS["C05"] = dict(
   text="spec/Table.tla models the lazy table as three stores (getter over a shared buffer with row positions and a contiguity flag, "
        "cache, overlay) next to the eager ADT as ghost state; TLC explores every program of table operations to depth 3 (quick) / 4 "
        "(thorough) from a whole and a chunked read (len, get, 8 NumPy-style selections, concatenate, replace, tolist, write) and checks "
        "Equivalent, Aligned, PassThrough, ContigSound and the Frame action property; every program is replayed on lazily and eagerly "
        "read tables of eight formats and compared step by step: lazy == eager == specification, or both fail. The property quantifies "
        "over operation histories, which is exactly a bounded state space of programs.",
   note=TB + "Bounds: 3-record canonical sources, pool of <=3 tables, 2 modelled fields mapped onto rotating real field pairs; each "
        "program runs on 2 (quick) / 3 (thorough) formats chosen by hash. The as-built concatenate is kept as a regression witness.",
   technique="TLA+ refinement model (lazy three-store table vs eager ADT) checked by TLC; every program replayed lazily and eagerly",
   design="6/C05")
CHECKS["C04"] = dict(
   text="Same specification as C05: BytesL0 (an untouched record is its raw line; with replaced columns every other field keeps its "
        "original text) is the meaning and BytesL1 (shared buffer, row positions, contiguity flag, compaction) the mechanism; TLC checks "
        "PassThrough and ContigSound on every program and prints the bytes each write must produce. Every program ending in a write "
        "(plus deeper two-write programs over a reduced alphabet) is replayed on lazily read tables of NON-canonical sources (leading "
        "zeros, '+1007', '1e3', '+name' lines, SAM tags, VCF sample columns, CRLF) of nine formats and the written bytes compared.",
   note=TB + "Selection-only programs are compared byte for byte; programs with concatenation/replacement field by field, as the "
        "property words it. BAM pass-through is checked under C16.",
   technique="TLA+ byte-provenance model checked by TLC; every write program replayed on non-canonical files and bytes compared",
   design="6/C04")
CHECKS["C06"] = dict(
   text="spec/Encoding.tla defines membership (lower case aliases letters only), Encode/Decode for the ten predefined alphabets and a "
        "state machine of one encoded value moved between alphabets by Retarget (as_encoded_array on encoded data) and Change "
        "(change_encoding), reversed as a row view, and re-encoded after the caller scribbles on an earlier result; invariant "
        "TextPreserved. TLC prints the complete 0..255 byte table of every alphabet and every reachable value state; all are replayed "
        "with str / list / encoded array / ragged inputs, plus texts with one foreign byte at every position. The byte x alphabet and "
        "alphabet-pair spaces are finite and small: exhaustive enumeration is the right level.",
   note=TB + "Bounds: texts of length <=2 (quick) / <=3 (thorough) over probe characters (first four + last character of the alphabet, both "
        "cases), <=3 operations. Exceptions are always acceptable for retarget/change ('or raises').",
   technique="TLA+ executable definition + value state machine checked by TLC; exhaustive byte tables and states replayed into code",
   design="6/C06")
CHECKS["C13"] = dict(
   text="spec/Windows.tla defines, per row, k-mers (as the base-|A| digits of their code), minimisers, string matches, integer motif "
        "scores and k-mer counts; MC_C13 grows a ragged collection letter by letter so that every list of <=3 rows of <=4 letters is a "
        "state (empty rows, rows of length w-1, w, w+1, short last row), checks row locality, window counts and the locality action "
        "property, and prints every state with all values for windows 1..W; every state is replayed on five alphabets (bit-packed "
        "and generic path), as fresh arrays and as re-ordered views. Larger random rows with k up to 31 are recorded and validated by "
        "TLC against the same definitions (Trace_C13).",
   note=TB + "Bounds: quick 2 rows x <=4 letters, W=4; thorough 3 rows, W=5; binding B rows up to 80 letters, k up to 31 (14 for the amino alphabet).",
   technique="TLA+ definitional spec + TLC exhaustive ragged-list states replayed into code; TLC batch validation of recorded calls",
   design="6/C13")
CHECKS["C17"] = dict(
   text="spec/Faidx.tla gives the byte layout of a FASTA from its records, the index row (L, offset, W, W+1) and the substring as "
        "meaning, and transcribes the row/modulo byte arithmetic and newline deletion of indexed_fasta.py as L1; TLC checks FetchCorrect "
        "for every record set (1-2 records, L<=6, W<=4, 2 header lengths; 3 records in the thorough tier) x every [a,b) x whole-contig "
        "fetches, with and without final newline. Every configuration is concretised to a real file: created index, written .fai, "
        "supplied faidx-style .fai, whole contigs, every interval through the plain and the StringEncoding path with all records "
        "mixed in one batch and label order different from file order, contig lengths.",
   note=TB + "Bases-per-line of single-line records is not determined by the file and is not compared; the contig name is the first word of the header.",
   technique="TLA+ layout/arithmetic model checked by TLC over all small files and intervals; every configuration replayed on real files",
   design="6/C17")
CHECKS["C18"] = dict(
   text="spec/Numbers.tla represents an integer as (sign, canonical digit string) - value and canonical text at once - defines parsing "
        "with optional sign and leading zeros, comma-joined lists and the structure of float text; MC_C18 grows a batch one element at a "
        "time in three modes (format: 10^k-2..10^k+2 for k<=18 and the int64 extremes; parse: every digit string of length <=3/4 over "
        "{0,1,7,9} with optional sign; float texts) and checks the action property RowsIndependent. Every batch is replayed through "
        "ints_to_strings, int_lists_to_strings, str_to_int (also twice on the same argument, and as the integer columns of a delimited "
        "file read lazily and eagerly), split, str_to_float, float_to_strings.",
   note=TB + "TLA+ has no reals: whether a double is within a few ulp (taken as <=8) of the exact decimal value is computed by the projection "
        "with Fraction. The float format->parse round trip is a recorded known finding (parser accurate to ~2 ulp, not correctly rounded).",
   technique="TLA+ digit-string model + TLC enumeration of batches replayed into code; exact rational arithmetic for the ulp clause",
   design="6/C18")
CHECKS["C14"] = dict(
   text="spec/Dna.tla holds the complement table on ACGTN/acgtn, RevComp with TLC-checked involution, length preservation and the "
        "'append a letter = prepend its complement' action property, stranded extraction, and the standard genetic code written amino "
        "acid by amino acid (TLC: 64 codons, one amino acid each; cross-checked against Biopython in every run). MC_C14 makes every "
        "string of <=3/4 letters over the ten symbols and every concatenation of <=2 codons a state (all 262 144 three-codon "
        "concatenations on the specification in the thorough tier) and prints reverse complement, every stranded extraction and the "
        "translation; all are replayed in ASCII, ACGT and ACGTN encodings, singly and in ragged batches with empty rows, upper and lower case.",
   note=TB + "Letters are compared case-insensitively; Biopython is only used to guard the transcription of the codon table.",
   technique="TLA+ table-driven definitions checked by TLC; exhaustive small-scope states replayed into code",
   design="6/C14")
CHECKS["C15"] = dict(
   text="spec/MC_C15.tla runs the L1 chunked reader of ChunkReader.tla on a file whose entry `bad` violates its format: the chunk "
        "containing it is never delivered and cutting it raises an error at line counter + position in the chunk; TLC checks "
        "ErrLineRight, NeverDelivered, NeverCompletes for every configuration (entry shapes x final newline x every chunk size x "
        "seek/carry x offending position). Every configuration is replayed byte-exactly (BED3 non-numeric / wrong column count, "
        "two-line FASTA marker, FASTQ marker / '+') lazily and eagerly; executions on BED6, narrowPeak, VCF, bedGraph and real "
        "plain/gzip files with six violation classes are recorded and validated by TLC against the L0 Error guards (Trace_C01 + "
        "ChunkL0); the reported line must be the same for every chunk size and mode of one file.",
   note=TB + "A diagnosed line is accepted if it is any line of the offending record. One recorded known finding: a line with an extra column "
        "is accepted when chunk boundaries isolate it.",
   technique="TLA+ L1 reader model with fault injection checked by TLC; replay of every configuration + TLC trace validation of recorded reads",
   design="6/C15")
CHECKS["C09"] = dict(
   text="spec/GenomicArray.tla defines Dense(bedGraph) contig by contig, the pile-up of the same runs read as intervals, pointwise "
        "evaluation of expression trees over {+,-,*,<,>,==,&,|,~} with array and scalar leaves, sum, histogram and the back-conversion "
        "to runs, with TLC-checked Lossless / RunsOrdered. MC_C09 grows a bedGraph run by run in genome order (every sorted, "
        "non-overlapping bedGraph with gaps, late starts, early ends, empty) on genomes of 1-4 contigs and then chooses a tree (depth <=2); "
        "every state is replayed on real GenomicArray objects (expansion, ufuncs, sums, histogram), and the records returned by "
        "get_data() are sent back to TLC, which decides non-overlap, genome order and exact re-expansion (Trace_C09).",
   note=TB + "Values 1 and 2 (gaps read as 0); float tracks (halves and inexact decimals) are checked for bit-exact expansion with the identity tree. "
        "Maximal runs are NOT demanded of the back-conversion (an earlier version of this check did, which was a false alarm).",
   technique="TLA+ dense-array semantics + TLC state enumeration replayed into code; TLC validation of returned records",
   design="6/C09")
CHECKS["C10"] = dict(
   text="spec/Genome.tla DEFINES every genome-wide operation as the per-contig map of the single-contig definitions of Intervals.tla "
        "(mask, pile-up, merge, sort, clip, extension, windows, values under intervals reversed on '-') and the concatenated-coordinate "
        "bijection; TLC checks Bijection, MergedInside and the action property NoNeighbourEffect. MC_C10 adds entries one at a time on "
        "any contig of genomes with 1-4 contigs (prefix-related names), so intervals ending at a contig end followed by intervals "
        "starting at 0 of the next, and contigs without entries, all occur; every state is replayed through GenomicIntervals, "
        "GenomicLocation.get_windows, GenomicArray[intervals], GenomicSequence[intervals] from real FASTA files (also with file order "
        "different from genome order), Geometry.* and GlobalOffset round trips.",
   note=TB + "Bounds: contig sizes 1-3, <=2 (quick) / <=3 (thorough) entries; merge distances 0 and 1; extension lengths 1-3; flanks 0-1.",
   technique="TLA+ per-contig lifting of the interval definitions checked by TLC; every state replayed into the genome-wide API",
   design="6/C10")
CHECKS["C11"] = dict(
   text="spec/Streams.tla models a stream as the action Consume(m) that takes the next m entries of a key-sorted dataset, so its "
        "behaviours are exactly the 2^(n-1) cuts (single-entry chunks, cuts inside a group); every streamable computation is a fold "
        "and TLC checks FoldRight (sum-and-n, padded bin counts, histogram, group-by with the open group joined across chunk borders), "
        "RechunkRight (chunk_entries) and LinesRight (chunk_lines) on every behaviour. Every completed behaviour is replayed through "
        "mean, bincount, histogram, groupby, chunk_entries, chunk_lines, count_kmers and per-chromosome pipelines built on streamed "
        "intervals and evaluated with bnp.compute (pile-up sum / histogram, mask, comparison, get_data), compared with the "
        "specification's value and with the same call on the concatenated data.",
   note=TB + "Bounds: n<=5 exhaustive cuts in the quick tier; n<=7 and n<=10 (512 cuts per dataset) in the thorough tier; 2-3 keys.",
   technique="TLA+ fold model whose behaviours are the chunkings, checked by TLC; every behaviour replayed into the streaming API",
   design="6/C11")
CHECKS["C16"] = dict(
   text="spec/Bam.tla is a specification-level encoder AND decoder of the BAM alignment record (SAMv1 4.2: block size, refID, pos, name, "
        "mapq, n_cigar, flag, l_seq, NUL-terminated name, cigar words len<<4|op, 4-bit packed bases, qualities, tag bytes) with the "
        "reference interval (pos + lengths of M/D/N/=/X, strand from 0x10); TLC checks Decode(Encode(r)) = r and the block-size "
        "arithmetic on every state. MC_C16 grows a file record by record from eight templates (unmapped, all nine CIGAR kinds, "
        "odd/even/empty sequences, tags ending in 0x0A, names of 220 and 254 characters, position > 65535) and prints records with their "
        "bytes; each file is wrapped in a BAM header + gzip and checked: whole read, read_chunks for chunk sizes >= the largest record, "
        "BamIntervalBuffer / alignment_to_interval, and write-back whole / filtered / reordered (decoded again, and byte for byte).",
   note=TB + "Bounds: files of <=2 (quick) / <=3 (thorough) records from the template family; the independent encoder is the TLA+ module itself.",
   technique="TLA+ encoder/decoder pair checked by TLC; TLC-emitted bytes decoded by the implementation and compared field by field",
   design="6/C16")
CHECKS["C07"] = dict(
   text="spec/CharArray.tla: a pool of arrays whose meaning is the Python list of strings; operations create arrays from arrays (row "
        "slices, steps, reversal, boolean mask, fancy list with repeats and negative indices, empty selection; column slices and "
        "reversal; concatenate; copy), observe (integer row / column indexing, comparison with a character, ravel) or assign (whole row, "
        "masked; value as str or as an already encoded array). TLC explores every program to depth 2 (quick) / 3 (thorough) from every "
        "ragged list of <=2/3 rows of <=2 symbols, deeper programs over a reduced alphabet, and checks AssignLocal (copies are "
        "independent). Every program is replayed on EncodedRaggedArrays of five (encoding, letter) combinations and after the last step "
        "the whole pool is compared: contents of every array and the encoding of every result.",
   note=TB + "Excluded by the environment (numpy 2.5 / npstructures 0.2.19 fail on the unchanged tree): single-cell assignment, scalar assignment into "
        "flat arrays, integer row access on lazily indexed views.",
   technique="TLA+ list-of-strings model of array programs checked by TLC; every program replayed on real encoded arrays",
   design="6/C07")
CHECKS["C19"] = dict(
   text="spec/Records.tla: a table is a function column -> sequence of cells; index / mask / slice / fancy / concatenate / sort-by / "
        "replace / add-fields act on all columns at once; TLC checks AllColumnsEqualLen, RowsIntact and the action property "
        "OperandsUnchanged on every program to depth 3 (quick) / 4 (thorough); rows, dict, pandas, iteration and construction (from rows, "
        "from typed columns, identifier column from an encoded column, another alphabet, text in a numeric column) are observations "
        "with prescribed outcomes. Every program is replayed on eight table types (Interval, Bed6, BedGraph, SequenceEntry, "
        "SequenceEntryWithQuality, ChromosomeSize, LocationEntry and a dynamic type with int, DNA-encoded, bool, float, Optional[int], "
        "list-of-int, str and identifier columns) and the whole pool (results and operands) is compared after the last step.",
   note=TB + "Sorting is driven on numeric key columns with distinct keys; nested-table columns are not driven; each program runs on three of the eight types.",
   technique="TLA+ column-aligned table ADT checked by TLC; every program replayed on real bnpdataclass tables",
   design="6/C19")
CHECKS["C20"] = dict(
   category="model_checking",
   text="spec/Frame.tla: a heap of content digests on which a public call leaves every pre-existing handle unchanged (action property "
        "FrameCondition, model-checked) and returns a result that is a function of the argument contents; only explicit assignment "
        "changes a handle. The same frame condition is an action property of Table.tla (C04/C05) and the pool comparisons of C07/C19 "
        "check operands after every step. Here a registry of about 45 public functions/methods plus field inspection and write of "
        "lazily read chunks of every format (non-canonical, CRLF, signed and scientific numbers, BED12 list columns, VCF genotype "
        "columns) is called on generated arguments; every call is recorded as an event (argument digests before/after, result "
        "digests of two calls, written bytes before/after inspection, modified write of an inspected vs a fresh chunk) and TLC decides "
        "each event against Frame.tla (Trace_C20).",
   note=TB + "Digests are of decoded content (values, encodings, row lengths; written bytes for file chunks). Arguments are sampled (seeded), not enumerated: "
        "the exhaustive part of this property lives in the Frame/OperandsUnchanged/AssignLocal action properties of Table.tla, Records.tla, CharArray.tla.",
   technique="TLA+ frame-condition spec model-checked by TLC; TLC trace validation of recorded calls (digests before/after, results of repeated calls)",
   design="6/C20")
CHECKS["C02"] = dict(
   text="spec/Formats.tla states, from the format definitions, what a file's text means: lines (CR dropped), comment/header lines that "
        "never become entries, tab-separated columns by kind (verbatim text; integers by value; VCF POS 1-based -> 0-based; '.' as "
        "missing optional integer; floats as exact rationals incl. lower-case scientific notation; strands; comma-separated integer "
        "lists with optional trailing comma; SAM's rest-of-line tags), typed VCF INFO keys by header declaration (exact key match, flags, "
        "missing values, integer lists) and per-sample genotype strings, FASTA wrapped at any width, FASTQ line roles and Phred+33. "
        "MC_C02 assembles well-formed files of 17 format variants line by line from sample records with non-canonical spellings, "
        "optional header/interior comment lines, LF/CRLF, with/without final newline; TLC checks EntriesAreRecords and prints each "
        "file with its meaning; every file is read lazily, eagerly and in chunks. Larger grammar-generated random files are read and "
        "TLC decides obs = Parse(text) (Trace_C02).",
   note=TB + "Integers below 2^31 and floats with short exact expansions (64-bit values and float accuracy are C18's subject); a missing optional integer is represented by the library as 0.",
   technique="TLA+ executable format semantics; TLC-enumerated files replayed into the readers; TLC trace validation of random grammar files",
   design="6/C02")
CHECKS["C03"] = dict(
   text="spec/Writer.tla: a writer receives the rows of a table in successive, possibly empty, pieces, may be closed and re-opened in "
        "append mode (actions Write(k), Close, Reopen); invariant Canonical: target = header (once, if any) followed by "
        "Formats.tla!Serialise of the rows written so far (tab-separated columns by kind, VCF POS 1-based, no trailing tab for an absent "
        "SAM tag column, FASTA wrapped at the line width incl. lengths 79/80/81/160/161, FASTQ layout with Phred+33); action properties "
        "OnlyGrows and HeaderOnce. TLC enumerates every table of <=N sample records of 12 formats x every call history up to MaxCalls and "
        "prints the bytes; each behaviour is executed on a plain target, a gzip target and as one stream of chunks, the bytes compared and "
        "the file read back and compared with the specification's values.",
   note=TB + "Tables are built in memory from the specification's values; sample records, not generated field contents (64-bit integers and float text are C18's subject). "
        "BAM writing is covered by C16.",
   technique="TLA+ writer state machine model-checked by TLC; every completed behaviour (table x call history) replayed into bnp.open(...).write on plain/gzip/stream targets and read back",
   design="6/C03")
EXTRA = {'C03': 'Binding B: files generated from the per-format grammars of C02 are read eagerly and written again; TLC decides written = Serialise(Parse(text)) (Trace_C03). A further target is a table read lazily from the canonical file: after the history of piecewise writes the table must still read as its rows, and one write of np.concatenate([table, table[1:]]) must equal writing the two one after the other. Every column of the lazily read table replaced by itself must write the canonical text; a second header in the same process is driven lazily and eagerly, with and without a replaced column. Chunks handed out by one reader, a column of the first assigned, written through one writer, must give the canonical text.', 'C05': "Table.tla also observes single rows t[j] with Python and NumPy integers; sources include a BED12 file with list-valued columns. A deeper run (depth 5-6) over tolist / get / assign / replace with two tables is part of both tiers. Half of the write-free programs read the non-canonically spelt file (leading zeros, '+', the '.' score placeholder).", 'C06': 'Encoding.tla also admits the empty text and the actions Rewrap (EncodedArray(encoded, B)) and Collect (a list of arrays of two encodings). Join (np.concatenate of arrays held in two alphabets keeps the text), a user-defined alphabet, NumPy str arrays as an input form and characters beyond Latin-1 are included. A user-defined alphabet of brackets ([ and { lie 32 apart without being a letter and its lower case) is part of the alphabet table.', 'C07': 'Further observations: str_equal against a row of the array and decode / string_array of any view. The program remembers the array it was created from, so assignments directly into the first array are driven too, on ragged arrays and on character matrices made from one str. Concat1 (np.concatenate of one operand is a new array), list masks, ASCII text held in a wide integer array, and setrow / setmask on character matrices are included.', 'C08': 'Also: an empty interval inserted anywhere covers nothing (EmptyCoversNothing) and the all-against-all Jaccard matrix of three sets. PileupOfRepeat (TLC-checked) lets a collection listed 130 and 40 000 times stand for large pile-ups; also bedgraph.get_pileup, contigs of three sizes, lookups whose key orders differ, comparisons of pile-ups (boolean run arrays) and Geometry.sort with empty intervals. extend3: the same intervals on contigs of sizes S, S+1, S+2 extended in one call (each clipped at the end of its own contig); Geometry.sort on records with further columns returns the same records.', 'C10': "Also: a streamed (per-chromosome) track under in-memory intervals in any order within a chromosome, and Binned.tla (binned counting over the genome: Count, CountsRight, Conserved) replayed on BinnedGenome. Entries and the per-base track are also read from files through the genome (read_intervals, read_track; in memory and as streams). MapLoc / MapLocInside (map_locations: a location at an interval's stop lies outside it), sort_intervals with a sort_order, a key function and a reversed order, a sort_names genome, and a streamed track indexed through an equal and a reversed genome are included. GlobalOffset (Genome.tla ToGlobal / ToLocal) is replayed on from_local_interval, its do_clip option and to_local_interval; the records of a streamed pile-up must tile every contig. A second genome object over the same contigs in the opposite order, start locations read from a VCF file (read_locations) and BinnedGenome.count_file are replayed as well.", 'C11': 'Graph.tla models the computation graph itself (call stack explicit: Construct, PullArg, Advance, Eval, IssuePull, Collect, Finish; invariants NoAssert, LockStep, InStep, AllLevel, Final); 11 graph shapes x datasets x cut sets are replayed on real StreamNode/ComputationNode/ReductionNode objects through compute(). Counts are additive (BinsOfRepeat, TLC-checked): three datasets repeated stand for k-mer, letter and bin counts over 1 000 000 to 3 000 000 elements, in memory and streamed; merged(d) with intervals touching the ends of their contigs is compared streamed, in memory and with the per-contig definition. Further pipelines: merged and get_pileup fed by one streamed interval object, group-by with a key function and on a key column, a quantile reduction, the mean over windows of unequal width, start windows by flank and by window_size. Arithmetic with the streamed array as the right operand of operators that do not commute (3 - pileup, 2 ** pileup) is a further pipeline.', 'C12': "Streams whose chromosome column is already encoded with the genome's own string encoding are driven as well. Derive (with_ignored_added) is an action whose frame property DeriveFrame says the parent keeps its own ignored names; stranded intervals over a stream are a further pipeline. ContextsCompatible / ReversedIsIncompatible: a track tied to one genome indexed by intervals of a separately built genome (same order: own values; opposite order: refused). A table with two contig columns is grouped on the second (set_grouping_attribute). Synchronise.tla takes two ignored names, so ignored contigs can follow each other in the data; a key function (set_key_function) maps differently spelt names. An unknown contig name whose hash equals that of a genome contig must be refused like any other unknown name.", 'C13': 'Counting is additive (CountsOfRepeat, TLC-checked), so a few states stand for inputs of more than a million windows. A motif given as probabilities with an explicit background (powers of two, so the log odds are integers in TLC) is scored as well. Regex.tla (patterns with letters, classes, wildcards and one or two gaps; a match never leaves its row) is bound here; IndexAgreesWithCounts ties the k-mer index to the counts; row counts are read as a matrix, as a dictionary and by label. CountLog: a motif given as counts (PWM.from_counts) with the letters in reversed and rotated order; patterns with the same class at two positions; k-mers over a sixteen-letter alphabet; label sums, addition and stacking of counts.', 'C14': 'Also: a history of extractions on one GenomicSequence (single intervals, all at once, the whole contig) and every order of the three encodings, each in a freshly forked process. Entries read lazily from a FASTQ file are reverse-complemented (input untouched, twice = input) and intervals are extracted from an indexed FASTA in a rotated order over two contigs, with file order and sorted label order. Transcripts.tla (exons of one transcript joined in file order, the whole transcript turned for the reverse strand) is replayed on get_transcript_sequences; ACTG-ordered alphabets and a text-typed strand column are included. Single sequences already encoded in the ACGT alphabet (poly-A among them) are translated one by one: their own protein, or a refusal.', 'C15': 'Classes also include a non-numeric value after rows with explicitly signed numbers and two records joined by a tab. Further classes: floats with an interior or trailing minus or two decimal points, blank header lines, a malformed last record without a final newline; the line must also be right after lazily read chunks were joined (np.concatenate) before any column was looked at. Integer columns may also start with a capital that is a digit plus 32, a space or a dollar sign. Binding B also injects a cell of more than nineteen characters with a numeric tail and a misplaced line break (one field too few, then one too many).', 'C16': "Also: piecewise writes with an empty first piece, every field of a selection after it was written, and table programs (selections, selection of a selection, concatenation; lazy and eager). The file is also copied chunk by chunk (read_chunks handed to write) and compared byte for byte. CigarWord writes the 32-bit CIGAR word byte by byte, so operation lengths 2^27+5 and 2^28-1 are in scope; two BAM files with different reference lists are read in one process. Templates with 300 CIGAR operations and a read of 65 537 bases exercise the upper bytes of the 16- and 32-bit count fields (Bam.tla's packers are functions of the byte position, so TLC encodes them in a second). A template of 16 400 CIGAR operations (more than 65 535 bytes of CIGAR) is included.", 'C17': 'Also: a 12 MB FASTA spanning several reader chunks checked against the arithmetic index (OffsetsAgree ties it to the byte-level definition) and whole contigs held while others are fetched. Faidx.tla carries the position of the one file handle, batches of fetches (SeeksItself) and Replace (the file under the same path replaced and indexed again); every batch is also fetched in an order where each interval starts at the offset the previous one stopped at, and all files of a worker live under one path. CRLF files (index row lenb = W + 2, WholeCorrect), Genome.read_sequence of another file, and MC_C17big (a 5 MB contig whose read boundary falls on a line end, LF and CRLF) are included. BigRecs2 (six records of 3.3 MB) has its index built from three or more reader chunks; one sequence object is asked through two genomes that list the contigs in opposite orders. BigRecs3 (one record of exactly two raw reads, no final newline, the first read ending on a line break; invariant TwoFullReads) and a sequence object made from the indexed file alone are included.', 'C18': 'Float texts include a leading decimal point; integer lists are also presented as row selections of another ragged array. 17-digit floats with a sign and a two- or three-digit exponent, a formatter-only clause (float(text) == x) and integer matrices held row-major, column-major and strided (matrix_to_csv) are included. Also: missing-value sentinels given as narrower NumPy scalars, unsigned 16-digit integers above 2^53, and an integer-list column of a file handed out twice. Float text is parsed twice from the same array (it must stay as it was); twenty-digit unsigned values go through the formatter.', 'C19': 'Table types include one with a nested-table column two levels deep. Row_ observes t[j] for every position (also -1 and a NumPy integer); one table type is read lazily from a file; after topandas() the frame is edited in place and the pool must stay as it is. Narrow_ (a type derived with narrow_type leaves its parent type as it was), list masks, and table types with a wide sequence column and with a matrix column are included. One table type is extended twice with the same column name and two declared types, every order in a process of its own. Text in a numeric column is also given as byte strings; a text column is also built from single rows taken from two differently encoded columns.', 'C20': "Every registered call is also made on arguments nobody has inspected (content before the call taken from an identical twin), incl. lazily indexed views. A chunk with one replaced column is concatenated with an untouched chunk; the untouched operand must still write its own bytes. The registry also holds calls with arguments already in the callee's encoding (as_encoded_array hands the caller's own object on), columns of tables derived from the argument, and custom chunk sources; a source that cannot be read is a machinery failure, not a pass. Also registered: count_reference_length, a user-defined rolling function with mode='same', the genotype row encoders.", 'C02': 'Further reading modes: a reversed selection before any column is parsed, the whole table after a look at its first rows, sliced chunks concatenated; typed INFO likewise. Formats.tla also defines phased genotype text and codes (PhasedCode, ParseVcfPhased, PhasedInverse), checked on every VCF buffer class; every ordered pair of VCF buffer classes is used in one freshly forked process, lazily and eagerly.', 'C01': "Binding B also records count_entries(file) as a Count event (accepted iff it is the number of entries) and joins the chunks of a read with np.concatenate itself (one Deliver event with all entries), incl. a VCF with declared INFO keys; binding A does the same join. Also: the first chunk looked at before the chunks are joined, bionumpy.io.files.read, a format whose numbers differ widely in width, and 11 MB files read with the default chunk size (plain and gzip). The chunk stream is also re-cut with chunk_lines (chunks of exactly n entries). A third joined mode looks at the head of every chunk (a selection that shares the chunk's tables) before the chunks are concatenated.", 'C09': 'Also: the same intervals in another order with an empty interval among them (pile-up and mask), and a boolean array over a stream of bedGraph chunks converted back to records. The arrays a genomic array was built from are written to afterwards (it is a value); sums beyond 2^53 must be exact integers; a genome derived with with_ignored_added is a further variant; the driver fails (exit 2) when fewer than half of the vectors deliver back-conversion items. bedGraph values beyond 2^53 survive the back-conversion exactly; a pile-up scaled past 2^31 by plain integers equals the dense 64-bit arithmetic.', 'C04': 'Selections include masks given as Python lists, and tables of k*65536 (+-1) records stand for the internal batch size.'}
for _k, _v in EXTRA.items():
    CHECKS[_k]["text"] = CHECKS[_k]["text"] + " " + _v
PENDING = {}
def main():
    props = [json.loads(l)["id"] for l in open(os.path.join(HERE, "properties.jsonl"))]
    checks = []
    for pid in props:
        if pid not in CHECKS:
            continue
        c = CHECKS[pid]
        checks.append({
            "property_id": pid,
            "quick_cmd": "./check %s --tier quick" % pid,
            "thorough_cmd": "./check %s --tier thorough" % pid,
            "evidence_file": "/verif/evidence/%s.json" % pid,
            "replay_cmd_template": "./check %s --replay {path}" % pid,
            "engine": "tlc+replay",
            "level_claimed": {"category": c.get("category", "model_checking"), "text": c["text"], "design_ref": "DESIGN.md section " + c["design"]},
            "level_note": c["note"],
            "technique": c["technique"],
        })
    na = [{"property_id": p, "reason": PENDING.get(p, "check not built yet in this round (planned, see DESIGN.md section 12); not claimed until it runs clean")}
          for p in props if p not in CHECKS]
    m = {
        "version": 1,
        "setup_cmd": "./setup.sh",
        "hooks": {
            "guard": "BIONUMPY_VERIF",
            "enable": "no source hooks: bionumpy is pure Python and is imported from /repo's working tree (BNP_REPO=/repo prepended to sys.path); "
                      "mechanism state is read from outside (recording file objects, object attributes, generator frames)",
            "baseline_off_cmd": "cd /repo && /venv/bin/python -m pytest -ra -q -p no:cacheprovider --timeout=900 --continue-on-collection-errors",
            "source_commits": [],
            "add_only": True,
        },
        "engines": [
            {"name": "tlc+replay", "path": "engine/", "serves_properties": [c["property_id"] for c in checks],
             "kind_free_text": "explicit TLA+ specifications (spec/*.tla) model-checked with TLC; TLC-emitted behaviours replayed into "
                               "bionumpy (engine/drivers/*.py); recorded executions validated by TLC trace specs (spec/Trace_*.tla)"},
        ],
        "checks": checks,
        "not_applicable": na,
        "notes": "Exit 0 held / 1 violation (VIOLATION line) / 2 machinery failure. known_findings.json lists recorded and fixed defects.",
    }
    import jsonschema
    jsonschema.validate(m, json.load(open(os.path.join(HERE, "schemas", "MANIFEST.schema.json"))))
    with open(os.path.join(HERE, "MANIFEST.json"), "w") as f:
        json.dump(m, f, indent=1)
        f.write("\n")
    print("MANIFEST.json: %d checks, %d not_applicable" % (len(checks), len(na)))
main()
