#!/bin/bash
# runs one tier of every check in sequence and prints a summary line per check
tier=${1:-quick}; shift
props=${@:-C01 C02 C03 C04 C05 C06 C07 C08 C09 C10 C11 C12 C13 C14 C15 C16 C17 C18 C19 C20}
for p in $props; do
  s=$(date +%s)
  ./check $p --tier $tier > /tmp/runall_$p.log 2>&1
  rc=$?
  echo "$p rc=$rc wall=$(( $(date +%s) - s ))s $(grep -c '^VIOLATION' /tmp/runall_$p.log) violations; $(tail -1 /tmp/runall_$p.log | cut -c1-220)"
done
