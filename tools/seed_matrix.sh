#!/bin/bash
# re-runs every seeded change against the quick check of the property it breaks (3 at a time); results go to seeded/*/meta.json
cd "$(dirname "$0")/.."
ls seeded | xargs -P 3 -I{} sh -c 'p=$(echo {} | cut -c1-3); /venv/bin/python tools/seeded.py run {} quick $p 2>&1 | grep -v "^    "'
