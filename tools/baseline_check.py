#!/venv/bin/python
"""Runs the repository's pinned test suite (guard off) and compares with /root/.vp/BASELINE.json stable_pass."""
import json, subprocess, sys, xml.etree.ElementTree as ET, os, tempfile
repo = sys.argv[1] if len(sys.argv) > 1 else "/repo"
out = tempfile.mktemp(suffix=".xml")
import time
t_start = time.time()
subprocess.run(["/venv/bin/python", "-m", "pytest", "-ra", "-q", "-p", "no:cacheprovider", "--timeout=900",
                "--continue-on-collection-errors", "--junitxml=" + out], cwd=repo, stdout=subprocess.DEVNULL, stderr=subprocess.DEVNULL)
passed = set()
for tc in ET.parse(out).getroot().iter("testcase"):
    ok = not any(ch.tag in ("failure", "error", "skipped") for ch in tc)
    if ok:
        passed.add(tc.get("classname") + "::" + tc.get("name"))
os.remove(out)
# the randomised hypothesis tests save any failing example they stumble on (the int64 formatting defect F7) in the
# untracked .hypothesis database, which would make later runs fail deterministically: forget what this run saved
for root, dirs, files in os.walk(os.path.join(repo, ".hypothesis", "examples")):
    for f in files:
        fp = os.path.join(root, f)
        if os.path.getmtime(fp) >= t_start - 1:
            os.remove(fp)
# files the tests leave in the working tree (untracked and created by this run)
for rel in subprocess.run(["git", "-C", repo, "ls-files", "--others", "--exclude-standard"], capture_output=True, text=True).stdout.split("\n"):
    fp = os.path.join(repo, rel)
    if rel and os.path.isfile(fp) and os.path.getmtime(fp) >= t_start - 1:
        os.remove(fp)
base = json.load(open("/root/.vp/BASELINE.json"))
stable = set(base["stable_pass"])
missing = sorted(stable - passed)
print("passed now: %d; stable baseline: %d; baseline tests not passing now: %d" % (len(passed), len(stable), len(missing)))
for m in missing:
    print("  MISSING", m)
sys.exit(1 if missing else 0)
