------------------------------ MODULE MC_Graph ------------------------------
(* Graph shapes for Graph.tla: single maps, binary nodes over two streams, nodes shared by two consumers     *)
(* (diamonds), several outputs, masks, and reductions joined by compute().                                    *)
EXTENDS Graph, Json
Nd(op, args, c) == [op |-> op, args |-> args, c |-> c]
S1 == Nd("s1", <<>>, 0)
S2 == Nd("s2", <<>>, 0)
Out(n) == [node |-> n, red |-> "none"]
Red(n, r) == [node |-> n, red |-> r]
AllShapes == <<
  [name |-> "map",         nodes |-> <<S1, Nd("addc", <<1>>, 1)>>,                                              roots |-> <<Out(2)>>],
  [name |-> "binary",      nodes |-> <<S1, S2, Nd("add", <<1, 2>>, 0)>>,                                         roots |-> <<Out(3)>>],
  [name |-> "diamond",     nodes |-> <<S1, Nd("addc", <<1>>, 1), Nd("mul", <<2, 2>>, 0), Nd("add", <<2, 3>>, 0)>>, roots |-> <<Out(4)>>],
  [name |-> "deepdiamond", nodes |-> <<S1, S2, Nd("add", <<1, 2>>, 0), Nd("mul", <<3, 1>>, 0), Nd("add", <<3, 4>>, 0), Nd("mul", <<5, 4>>, 0)>>, roots |-> <<Out(6)>>],
  [name |-> "twoout",      nodes |-> <<S1, Nd("addc", <<1>>, 1), Nd("mul", <<1, 1>>, 0), Nd("tuple", <<2, 3>>, 0)>>, roots |-> <<Out(2), Out(3)>>],
  [name |-> "select",      nodes |-> <<S1, Nd("addc", <<1>>, 1), Nd("gtc", <<2>>, 2), Nd("select", <<2, 3>>, 0)>>,  roots |-> <<Out(4)>>],
  [name |-> "selecttwo",   nodes |-> <<S1, S2, Nd("add", <<1, 2>>, 0), Nd("gtc", <<1>>, 1), Nd("select", <<3, 4>>, 0), Nd("tuple", <<5, 3>>, 0)>>, roots |-> <<Out(5), Out(3)>>],
  [name |-> "sum",         nodes |-> <<S1, S2, Nd("add", <<1, 2>>, 0), Nd("sum", <<3>>, 0)>>,                    roots |-> <<Red(4, "sum")>>],
  [name |-> "mean",        nodes |-> <<S1, Nd("addc", <<1>>, 1), Nd("sumn", <<2>>, 0)>>,                         roots |-> <<Red(3, "mean")>>],
  [name |-> "meansum",     nodes |-> <<S1, Nd("addc", <<1>>, 1), Nd("sumn", <<2>>, 0), Nd("sum", <<1>>, 0), Nd("tuple", <<3, 4>>, 0)>>, roots |-> <<Red(3, "mean"), Red(4, "sum")>>],
  [name |-> "selectsums",  nodes |-> <<S1, S2, Nd("add", <<1, 2>>, 0), Nd("gtc", <<1>>, 1), Nd("select", <<3, 4>>, 0), Nd("sum", <<5>>, 0), Nd("sum", <<3>>, 0), Nd("sumn", <<5>>, 0),
                                        Nd("tuple", <<6, 7, 8>>, 0)>>,
                           roots |-> <<Red(6, "sum"), Red(7, "sum"), Red(8, "mean")>>]
>>
DiamondOnly == <<AllShapes[3]>>
Emit == status = "done" => PrintT(ToJson([shape |-> Shapes[g].name, nodes |-> Nodes, roots |-> Roots, data |-> data, cuts |-> cuts,
                                          result |-> Result, meaning |-> Meaning, idxlog |-> idxlog]))
==============================================================================
