------------------------------ MODULE Encoding ------------------------------
(* Alphabet encodings (property C06).  Text is a sequence of bytes 0..255; an alphabet is a  *)
(* sequence of distinct upper-case byte codes; code k (0-based) stands for Alphabet[k+1].    *)
(*                                                                                          *)
(* Meaning: a byte belongs to an alphabet iff it is one of its characters, or the lower-case *)
(* form of one of its LETTERS.  Encode is defined exactly on texts all of whose bytes belong; *)
(* Decode(Encode(s)) is s upper-cased.  Re-targeting already encoded data to another         *)
(* alphabet, or changing its encoding, must preserve the decoded text or raise.              *)
(*                                                                                          *)
(* State machine: one encoded value (text, alphabet, codes) that is created by Encode and    *)
(* then moved between alphabets by Retarget (as_encoded_array on encoded data: codes kept,   *)
(* bionumpy/encoded_array.py:578-595) and Change (change_encoding: decode + encode).         *)
(* Invariant TextPreserved is the property.  AsBuilt = TRUE transcribes the pinned           *)
(* compatibility test of Retarget (alphabet[:m] instead of [:m+1]), which TLC refutes.       *)
EXTENDS Integers, Sequences, FiniteSets, TLC

CONSTANTS AsBuilt, MaxLen, MaxOps

Alphabets ==
  "ACTG"   :> <<65, 67, 84, 71>> @@
  "ACGT"   :> <<65, 67, 71, 84>> @@
  "ACTGN"  :> <<65, 67, 84, 71, 78>> @@
  "ACGTN"  :> <<65, 67, 71, 84, 78>> @@
  "DIGIT"  :> <<48, 49, 50, 51, 52, 53, 54, 55, 56, 57>> @@
  "ACUG"   :> <<65, 67, 85, 71>> @@
  "AMINO"  :> <<65, 67, 68, 69, 70, 71, 72, 73, 75, 76, 77, 78, 80, 81, 82, 83, 84, 86, 87, 89, 42>> @@   \* ACDEFGHIKLMNPQRSTVWY*
  "BAM"    :> <<61, 65, 67, 77, 71, 82, 83, 86, 84, 87, 89, 72, 75, 68, 66, 78>> @@                      \* =ACMGRSVTWYHKDBN
  "CIGAR"  :> <<77, 73, 68, 78, 83, 72, 80, 61, 88>> @@                                                   \* MIDNSHP=X
  "STRAND" :> <<43, 45, 46>> @@                                                                           \* +-.
  \* an alphabet a user defines (AlphabetEncoding("...")): it holds the last letter of the letter range, Z, and symbols
  "USER"   :> <<65, 67, 68, 69, 70, 71, 72, 73, 75, 76, 77, 78, 80, 81, 82, 83, 84, 86, 87, 89, 66, 90, 88, 42>> @@   \* ACDEFGHIKLMNPQRSTVWYBZX*
  \* a user-defined alphabet of symbols only, holding characters that lie 32 apart without being a letter and its lower case: [ and {, ] and }
  "BRACKET" :> <<91, 123, 93, 125, 40, 41, 60, 62>>                                                      \* [{]}()<>
Names == DOMAIN Alphabets

IsUpperLetter(b) == b \in 65..90
IsLowerLetter(b) == b \in 97..122
Upper(b) == IF IsLowerLetter(b) THEN b - 32 ELSE b
UpperText(s) == [i \in DOMAIN s |-> Upper(s[i])]

Chars(A) == {Alphabets[A][i] : i \in DOMAIN Alphabets[A]}
Member(A, b) == Upper(b) \in Chars(A)              \* lower case only aliases letters: Upper is the identity elsewhere
CodeOf(A, b) == (CHOOSE i \in DOMAIN Alphabets[A] : Alphabets[A][i] = Upper(b)) - 1
Encodable(A, s) == \A i \in DOMAIN s : Member(A, s[i])
Encode(A, s) == [i \in DOMAIN s |-> CodeOf(A, s[i])]
Decode(A, codes) == [i \in DOMAIN codes |-> Alphabets[A][codes[i] + 1]]
FirstForeign(A, s) == CHOOSE i \in DOMAIN s : ~Member(A, s[i]) /\ \A j \in 1..(i - 1) : Member(A, s[j])

\* ---------------------------------------------------------------- the texts explored
\* per alphabet: its first four and its last character, in upper and (for letters) lower case
Probe(A) == LET a == Alphabets[A]
                base == {a[i] : i \in {1, 2, 3, Len(a)} \cap DOMAIN a} \cup (IF Len(a) >= 4 THEN {a[4]} ELSE {})
            IN base \cup {b + 32 : b \in {x \in base : IsUpperLetter(x)}}
RECURSIVE Strings(_, _)
Strings(S, n) == IF n = 0 THEN {<<>>} ELSE LET R == Strings(S, n - 1) IN R \cup {Append(r, x) : r \in {q \in R : Len(q) = n - 1}, x \in S}

\* ---------------------------------------------------------------- state
VARIABLES text,     \* the text first given to Encode (bytes)
          enc,      \* current alphabet name
          codes,    \* current codes
          status,   \* "fresh" | "ok" | "raised"
          hist      \* operations applied: <<op, alphabet>>

vars == <<text, enc, codes, status, hist>>

Init == /\ enc \in Names
        /\ text \in Strings(Probe(enc), MaxLen)             \* the empty text included: it uses no code and fits every alphabet
        /\ codes = <<>> /\ status = "fresh" /\ hist = <<>>

EncodeOp == /\ status = "fresh"
            /\ codes' = Encode(enc, text) /\ status' = "ok" /\ hist' = <<<<"encode", enc>>>>
            /\ UNCHANGED <<text, enc>>

MaxCode(c) == IF c = <<>> THEN -1 ELSE CHOOSE m \in {c[i] : i \in DOMAIN c} : \A i \in DOMAIN c : c[i] <= m
Prefix(a, n) == SubSeq(a, 1, IF n <= Len(a) THEN n ELSE Len(a))

\* as_encoded_array(encoded, B): keep the codes if the alphabets agree on every code in use
Retarget(B) ==
  /\ status = "ok" /\ B # enc /\ Len(hist) < MaxOps
  /\ LET m == MaxCode(codes)
         n == IF AsBuilt THEN m ELSE m + 1                    \* encoded_array.py:585
     IN IF Prefix(Alphabets[enc], n) = Prefix(Alphabets[B], n) /\ m < Len(Alphabets[B])
        THEN enc' = B /\ status' = "ok" /\ UNCHANGED codes
        ELSE status' = "raised" /\ UNCHANGED <<enc, codes>>
  /\ hist' = Append(hist, <<"retarget", B>>) /\ UNCHANGED text

\* change_encoding(encoded, B) = B.encode(A.decode(codes))
Change(B) ==
  /\ status = "ok" /\ B # enc /\ Len(hist) < MaxOps
  /\ LET t == Decode(enc, codes) IN
     IF Encodable(B, t) THEN enc' = B /\ codes' = Encode(B, t) /\ status' = "ok"
                        ELSE status' = "raised" /\ UNCHANGED <<enc, codes>>
  /\ hist' = Append(hist, <<"change", B>>) /\ UNCHANGED text

Next == EncodeOp \/ (\E B \in Names : Retarget(B)) \/ (\E B \in Names : Change(B))
Spec == Init /\ [][Next]_vars

\* The value may be a two-row ragged array <<text, first character of text>>; taking the NumPy view [::-1]
\* reverses the rows without touching the letters (row for row), and later operations act on the view.
\* `order` only matters to the replay (which row comes first); the letters of each row obey the same rules.
ReverseRows == /\ status = "ok" /\ Len(hist) < MaxOps
               /\ hist' = Append(hist, <<"reverse", enc>>) /\ UNCHANGED <<text, enc, codes, status>>

\* Encoding is a function of its argument: after the caller assigns into an array returned earlier,
\* encoding the same text again gives the same codes again.
ScribbleThenEncodeAgain == /\ status = "ok" /\ Len(hist) = 1 /\ text # <<>>
                           /\ codes' = Encode(enc, text)
                           /\ hist' = Append(hist, <<"scribble-reencode", enc>>) /\ UNCHANGED <<text, enc, status>>

\* EncodedArray(encoded, B): labelling already encoded data with another alphabet is refused (encoded_array.py:270-272), and
\* as_encoded_array([x, y]) with y encoded in B refuses to collect arrays of different encodings into one (:520-523).
\* (L0 allows either outcome "same text" or "raises"; the mechanism always raises because the alphabets differ.)
Rewrap(B)  == /\ status = "ok" /\ B # enc /\ Len(hist) = 1 /\ status' = "raised"
              /\ hist' = Append(hist, <<"rewrap", B>>) /\ UNCHANGED <<text, enc, codes>>
Collect(B) == /\ status = "ok" /\ B # enc /\ Len(hist) = 1 /\ status' = "raised"
              /\ hist' = Append(hist, <<"collect", B>>) /\ UNCHANGED <<text, enc, codes>>

\* np.concatenate([value, other]) with `other` = the letters of alphabet B encoded in B (encoded_array.py __array_function__): the operand
\* held in another alphabet is presented in the first operand's alphabet, so the joined text is the two texts one after the other,
\* or the call raises when a letter of B is not in the value's alphabet.  It never yields other letters.
Join(B) == /\ status = "ok" /\ B # enc /\ Len(hist) = 1
           /\ status' = IF Encodable(enc, Alphabets[B]) THEN "ok" ELSE "raised"
           /\ hist' = Append(hist, <<"join", B>>) /\ UNCHANGED <<text, enc, codes>>

\* array[...] = value, the value already encoded with alphabet B (encoded_array.py __setitem__): the value is presented to the
\* array's alphabet like in Retarget, roles swapped; the array keeps its alphabet and must then spell the text, or the assignment raises
AssignFrom(B) == /\ status = "ok" /\ B # enc /\ Len(hist) = 1 /\ text # <<>> /\ Encodable(B, text)
                 /\ LET vc == Encode(B, text)
                        m == MaxCode(vc)
                    IN status' = IF Prefix(Alphabets[B], m + 1) = Prefix(Alphabets[enc], m + 1) /\ m < Len(Alphabets[enc]) THEN "ok" ELSE "raised"
                 /\ hist' = Append(hist, <<"assign", B>>) /\ UNCHANGED <<text, enc, codes>>

\* the caller asks for the alphabet (get_alphabet / get_labels) and reorders the list it was given: the encoding is not the caller's
\* list, so values encoded before still spell their text and encoding the text again gives the same codes
ReorderLabelList == /\ status = "ok" /\ Len(hist) = 1 /\ text # <<>>
                    /\ hist' = Append(hist, <<"reorder-labels", enc>>) /\ UNCHANGED <<text, enc, codes, status>>

NextAll == Next \/ ReorderLabelList \/ (\E B \in Names : AssignFrom(B)) \/ ReverseRows \/ ScribbleThenEncodeAgain \/ (\E B \in Names : Rewrap(B)) \/ (\E B \in Names : Collect(B)) \/ (\E B \in Names : Join(B))
SpecAll == Init /\ [][NextAll]_vars

\* ---------------------------------------------------------------- properties
TextPreserved == status = "ok" => Decode(enc, codes) = UpperText(text)
CodesInRange  == status = "ok" => \A i \in DOMAIN codes : codes[i] \in 0..(Len(Alphabets[enc]) - 1)
\* design sanity: alphabets hold distinct upper-case characters; Encode/Decode are inverse on alphabet text
AlphabetsWellFormed == \A A \in Names : /\ Cardinality(Chars(A)) = Len(Alphabets[A])
                                        /\ \A b \in Chars(A) : ~IsLowerLetter(b)
RoundTrip == \A A \in Names : \A i \in DOMAIN Alphabets[A] :
                 /\ CodeOf(A, Alphabets[A][i]) = i - 1
                 /\ (IsUpperLetter(Alphabets[A][i]) => CodeOf(A, Alphabets[A][i] + 32) = i - 1)
==============================================================================
