--------------------------------- MODULE Dna ---------------------------------
(* Reverse complement, stranded extraction and translation (property C14).                   *)
(* A sequence is a TLA+ sequence of one-letter strings over A C G T N a c g t n.             *)
EXTENDS Integers, Sequences, FiniteSets, TLC

Upper == {"A", "C", "G", "T", "N"}
Lower == {"a", "c", "g", "t", "n"}
Comp == [x \in Upper \cup Lower |->
           CASE x = "A" -> "T" [] x = "T" -> "A" [] x = "C" -> "G" [] x = "G" -> "C" [] x = "N" -> "N"
             [] x = "a" -> "t" [] x = "t" -> "a" [] x = "c" -> "g" [] x = "g" -> "c" [] x = "n" -> "n"]
ToUpper == [x \in Upper \cup Lower |->
           CASE x = "a" -> "A" [] x = "c" -> "C" [] x = "g" -> "G" [] x = "t" -> "T" [] x = "n" -> "N" [] OTHER -> x]

Reverse(s) == [i \in DOMAIN s |-> s[Len(s) + 1 - i]]
Complement(s) == [i \in DOMAIN s |-> Comp[s[i]]]
RevComp(s) == Reverse(Complement(s))
UpperSeq(s) == [i \in DOMAIN s |-> ToUpper[s[i]]]

\* strand-aware extraction of the half-open interval [a, b) (0-based)
Extract(s, a, b, strand) == LET sub == SubSeq(s, a + 1, b) IN IF strand = "-" THEN RevComp(sub) ELSE sub

\* the standard genetic code (NCBI translation table 1), written amino acid by amino acid
Codons(aa) ==
  CASE aa = "F" -> {"TTT", "TTC"}
    [] aa = "L" -> {"TTA", "TTG", "CTT", "CTC", "CTA", "CTG"}
    [] aa = "I" -> {"ATT", "ATC", "ATA"}
    [] aa = "M" -> {"ATG"}
    [] aa = "V" -> {"GTT", "GTC", "GTA", "GTG"}
    [] aa = "S" -> {"TCT", "TCC", "TCA", "TCG", "AGT", "AGC"}
    [] aa = "P" -> {"CCT", "CCC", "CCA", "CCG"}
    [] aa = "T" -> {"ACT", "ACC", "ACA", "ACG"}
    [] aa = "A" -> {"GCT", "GCC", "GCA", "GCG"}
    [] aa = "Y" -> {"TAT", "TAC"}
    [] aa = "*" -> {"TAA", "TAG", "TGA"}
    [] aa = "H" -> {"CAT", "CAC"}
    [] aa = "Q" -> {"CAA", "CAG"}
    [] aa = "N" -> {"AAT", "AAC"}
    [] aa = "K" -> {"AAA", "AAG"}
    [] aa = "D" -> {"GAT", "GAC"}
    [] aa = "E" -> {"GAA", "GAG"}
    [] aa = "C" -> {"TGT", "TGC"}
    [] aa = "W" -> {"TGG"}
    [] aa = "R" -> {"CGT", "CGC", "CGA", "CGG", "AGA", "AGG"}
    [] aa = "G" -> {"GGT", "GGC", "GGA", "GGG"}
AminoAcids == {"F", "L", "I", "M", "V", "S", "P", "T", "A", "Y", "*", "H", "Q", "N", "K", "D", "E", "C", "W", "R", "G"}
AllCodons == UNION {Codons(aa) : aa \in AminoAcids}
AminoOf(codon) == CHOOSE aa \in AminoAcids : codon \in Codons(aa)
Translate(codons) == [i \in DOMAIN codons |-> AminoOf(codons[i])]
\* sanity of the transcription: 64 codons, each with exactly one amino acid
TableWellFormed == /\ Cardinality(AllCodons) = 64
                   /\ \A c \in AllCodons : Cardinality({aa \in AminoAcids : c \in Codons(aa)}) = 1
==============================================================================
