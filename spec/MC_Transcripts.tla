---------------------------- MODULE MC_Transcripts ----------------------------
EXTENDS Transcripts, Json
RefA == <<0, 1, 2, 3, 3, 0, 2, 1, 4, 0>>          \* ACGTTAGCNA
Emit == Complete => PrintT(ToJson([ref |-> Ref, trs |-> trs, seqs |-> Sequences_]))
==============================================================================
