------------------------------- MODULE MC_C11 -------------------------------
EXTENDS Streams, Json
Emit == done => PrintT(ToJson([data |-> data, cuts |-> cuts, sum |-> sum, n |-> cnt, bins |-> bins,
                               groups |-> closed, rechunk |-> out, relines |-> lout, nchunk |-> NChunk]))
==============================================================================
