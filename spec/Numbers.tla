------------------------------- MODULE Numbers -------------------------------
(* Numbers between text and arrays (property C18).                                           *)
(* An integer is <<sign, digits>> with sign in {1, -1} and digits a non-empty sequence over  *)
(* 0..9 without leading zero (except the single digit 0); this is at once the value and its  *)
(* canonical decimal text, so 64-bit quantities never pass through TLC's 32-bit integers.    *)
(* Text is a sequence of characters: digits 0..9 and the codes MINUS, PLUS, DOT, EXP, COMMA.    *)
EXTENDS Integers, Sequences, FiniteSets, TLC

Digit == 0..9
\* characters that are not digits are coded as negative numbers (TLC cannot compare strings with integers)
MINUS == -1
PLUS  == -2
DOT   == -3
EXP   == -4
COMMA == -5
Zero == <<1, <<0>>>>
IsCanonical(n) == /\ n[1] \in {1, -1} /\ Len(n[2]) >= 1
                  /\ (Len(n[2]) > 1 => n[2][1] # 0)
                  /\ (n[2] = <<0>> => n[1] = 1)

\* canonical text of a value
CanonText(n) == (IF n[1] = -1 THEN <<MINUS>> ELSE <<>>) \o n[2]

\* parsing: optional sign, then digits with any number of leading zeros
RECURSIVE StripZeros(_)
StripZeros(d) == IF Len(d) > 1 /\ d[1] = 0 THEN StripZeros(Tail(d)) ELSE d
ParseInt(t) == LET signed == t[1] \in {MINUS, PLUS}
                   ds == IF signed THEN Tail(t) ELSE t
                   mag == StripZeros(ds)
               IN <<IF signed /\ t[1] = MINUS /\ mag # <<0>> THEN -1 ELSE 1, mag>>
WellFormedIntText(t) == LET ds == IF t # <<>> /\ t[1] \in {MINUS, PLUS} THEN Tail(t) ELSE t
                        IN ds # <<>> /\ \A i \in DOMAIN ds : ds[i] \in Digit

\* lists of integers: joined with "," and split again, element by element
RECURSIVE JoinList(_)
JoinList(ns) == IF ns = <<>> THEN <<>>
                ELSE IF Len(ns) = 1 THEN CanonText(ns[1]) ELSE CanonText(ns[1]) \o <<COMMA>> \o JoinList(Tail(ns))

\* ---------------------------------------------------------------- the boundary family of 64-bit integers
Rep(x, n) == [i \in 1..n |-> x]
Pow10(k) == <<1>> \o Rep(0, k)                                   \* 10^k, k >= 0
\* 10^k + delta for delta in -2..2 as a canonical magnitude (k >= 1); for k = 0 the values 0..3
Near(k, delta) ==
  IF k = 0 THEN <<(IF 1 + delta < 0 THEN 0 ELSE 1 + delta)>>
  ELSE IF delta >= 0 THEN (IF k = 1 THEN <<1, delta>> ELSE <<1>> \o Rep(0, k - 1) \o <<delta>>)
  ELSE (IF k = 1 THEN <<10 + delta>> ELSE Rep(9, k - 1) \o <<10 + delta>>)
Int64Max == <<9,2,2,3,3,7,2,0,3,6,8,5,4,7,7,5,8,0,7>>
Int64MinMag == <<9,2,2,3,3,7,2,0,3,6,8,5,4,7,7,5,8,0,8>>
Mk(s, mag) == <<IF mag = <<0>> THEN 1 ELSE s, mag>>
Family(Ks) == {Mk(s, Near(k, d)) : s \in {1, -1}, k \in Ks, d \in -2..2}
                \cup {<<1, Int64Max>>, <<-1, Int64Max>>, <<-1, Int64MinMag>>, Zero}

\* ---------------------------------------------------------------- float text
\* <<sign, int digits, fraction digits, exponent sign, exponent digits>>; empty exponent digits = plain decimal
FloatText(f) == (IF f.neg THEN <<MINUS>> ELSE <<>>) \o f.int \o (IF f.frac # <<>> THEN <<DOT>> \o f.frac ELSE <<>>)
                \o (IF f.exp # <<>> THEN <<EXP>> \o (IF f.eneg THEN <<MINUS>> ELSE <<>>) \o f.exp ELSE <<>>)
\* its exact decimal value: sign, all significant digits, and the power of ten that scales them
\* value = (-1)^neg * digits * 10^(e10) with e10 = exponent - number of fraction digits  (e10 as <<sign, digits>>)
FloatDigits(f) == f.int \o f.frac
==============================================================================
