---------------------------- MODULE GenomicArray ----------------------------
(* Genomic arrays as exact, lossless views of dense per-base arrays (property C09).          *)
(* A genome is a sequence of contig sizes.  A bedGraph is a sequence of runs                 *)
(* [c |-> contig, s |-> start, e |-> stop, v |-> value], sorted, non-overlapping, possibly    *)
(* with gaps.  Dense(bg) expands it contig by contig (gaps = 0); all operations are the      *)
(* pointwise NumPy operations on dense arrays; ToRuns is the back-conversion to maximal       *)
(* constant runs per contig in genome order.                                                 *)
EXTENDS Integers, Sequences, FiniteSets, TLC

\* ---- dense arrays: function contig -> sequence of values
ValueAt(bg, c, p) == LET hit == {i \in DOMAIN bg : bg[i].c = c /\ bg[i].s <= p /\ p < bg[i].e}
                     IN IF hit = {} THEN 0 ELSE bg[CHOOSE i \in hit : TRUE].v
Dense(bg, G) == [c \in DOMAIN G |-> [q \in 1..G[c] |-> ValueAt(bg, c, q - 1)]]
CoverCount(bg, c, p) == Cardinality({i \in DOMAIN bg : bg[i].c = c /\ bg[i].s <= p /\ p < bg[i].e})
Pile(bg, G) == [c \in DOMAIN G |-> [q \in 1..G[c] |-> CoverCount(bg, c, q - 1)]]     \* runs read as intervals
WellFormed(bg, G) == /\ \A i \in DOMAIN bg : bg[i].c \in DOMAIN G /\ 0 <= bg[i].s /\ bg[i].s < bg[i].e /\ bg[i].e <= G[bg[i].c]
                     /\ \A i \in 1..(Len(bg) - 1) : bg[i].c < bg[i + 1].c \/ (bg[i].c = bg[i + 1].c /\ bg[i].e <= bg[i + 1].s)

\* ---- expression trees: leaves <<"A">>, <<"B">> (arrays) and <<"k", n>> (integer scalar); nodes <<op, left, right>>, <<"~", t>>
BinInt(op, x, y) == CASE op = "+" -> x + y [] op = "-" -> x - y [] op = "*" -> x * y
                      [] op = "<" -> x < y [] op = ">" -> x > y [] op = "==" -> x = y
BinBool(op, x, y) == CASE op = "&" -> x /\ y [] op = "|" -> x \/ y
RECURSIVE EvalAt(_, _, _, _, _)
\* value of tree t at contig c, position q (1-based) given dense arrays A and B
EvalAt(t, A, B, c, q) ==
  CASE t[1] = "A" -> A[c][q]
    [] t[1] = "B" -> B[c][q]
    [] t[1] = "k" -> t[2]
    [] t[1] = "~" -> ~EvalAt(t[2], A, B, c, q)
    [] t[1] \in {"&", "|"} -> BinBool(t[1], EvalAt(t[2], A, B, c, q), EvalAt(t[3], A, B, c, q))
    [] OTHER -> BinInt(t[1], EvalAt(t[2], A, B, c, q), EvalAt(t[3], A, B, c, q))
Eval(t, A, B, G) == [c \in DOMAIN G |-> [q \in 1..G[c] |-> EvalAt(t, A, B, c, q)]]

\* ---- reductions and back-conversion
Flat(D, G) == LET RECURSIVE F(_)
                  F(c) == IF c > Len(G) THEN <<>> ELSE D[c] \o F(c + 1)
              IN F(1)
SumSeq(s) == LET RECURSIVE S(_)
                 S(i) == IF i = 0 THEN 0 ELSE s[i] + S(i - 1)
             IN S(Len(s))
Total(D, G) == SumSeq(Flat(D, G))
\* histogram with nb unit-width bins over [lo, lo + nb]: NumPy's last bin is closed on the right
Histogram(D, G, lo, nb) == LET f == Flat(D, G) IN
   [b \in 1..nb |-> Cardinality({i \in DOMAIN f : (f[i] >= lo + b - 1 /\ f[i] < lo + b) \/ (b = nb /\ f[i] = lo + nb)})]
\* maximal constant runs of contig c: sequence of [c, s, e, v]
RunsOf(D, c, n) == LET starts == {p \in 0..(n - 1) : p = 0 \/ D[c][p] # D[c][p + 1]}
                       EndOf(p) == CHOOSE e \in (p + 1)..n : (e = n \/ D[c][e + 1] # D[c][p + 1]) /\ \A q \in p..(e - 1) : D[c][q + 1] = D[c][p + 1]
                       RECURSIVE Build(_)
                       Build(S) == IF S = {} THEN <<>>
                                   ELSE LET p == CHOOSE x \in S : \A y \in S : x <= y
                                        IN <<[c |-> c, s |-> p, e |-> EndOf(p), v |-> D[c][p + 1]]>> \o Build(S \ {p})
                   IN Build(starts)
ToRuns(D, G) == LET RECURSIVE R(_)
                    R(c) == IF c > Len(G) THEN <<>> ELSE RunsOf(D, c, G[c]) \o R(c + 1)
                IN R(1)
\* boolean arrays convert back to the intervals where they are TRUE
TrueRuns(D, G) == LET r == ToRuns(D, G)
                      RECURSIVE Sel(_)
                      Sel(i) == IF i > Len(r) THEN <<>> ELSE (IF r[i].v = TRUE THEN <<r[i]>> ELSE <<>>) \o Sel(i + 1)
                  IN Sel(1)
==============================================================================
