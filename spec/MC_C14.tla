------------------------------- MODULE MC_C14 -------------------------------
(* Sequences grow one letter (or one codon) at a time.  Mode "seq": every string of at most  *)
(* MaxLen letters over Alphabet is a state, printed with its reverse complement and every    *)
(* stranded extraction.  Mode "codons": every concatenation of at most MaxLen codons.        *)
EXTENDS Dna, Json
CONSTANTS Mode, MaxLen, Alphabet
VARIABLES s
vars == <<s>>
Init == s = <<>>
AddLetter(x) == Mode = "seq" /\ Len(s) < MaxLen /\ s' = Append(s, x)
AddCodon(c) == Mode = "codons" /\ Len(s) < MaxLen /\ s' = Append(s, c)
Next == (\E x \in Alphabet : AddLetter(x)) \/ (\E c \in AllCodons : AddCodon(c))
Spec == Init /\ [][Next]_vars

Involution == Mode = "seq" => RevComp(RevComp(s)) = s /\ Len(RevComp(s)) = Len(s)
UpperCommutes == Mode = "seq" => UpperSeq(RevComp(s)) = RevComp(UpperSeq(s))
\* appending a letter prepends its complement to the reverse complement (action property)
Grows == [][Mode = "seq" => RevComp(s') = <<Comp[s'[Len(s')]]>> \o RevComp(s)]_vars
TranslationLength == Mode = "codons" => Len(Translate(s)) = Len(s)

Ivs == {<<a, b>> \in (0..Len(s)) \X (0..Len(s)) : a < b}
Emit == IF Mode = "seq"
        THEN PrintT(ToJson([mode |-> "seq", s |-> s, rc |-> RevComp(s),
                            extract |-> {[a |-> iv[1], b |-> iv[2], strand |-> st, seq |-> Extract(s, iv[1], iv[2], st)]
                                            : iv \in Ivs, st \in {"+", "-"}}]))
        ELSE PrintT(ToJson([mode |-> "codons", s |-> s, protein |-> Translate(s)]))
==============================================================================
