------------------------------- MODULE MC_C15 -------------------------------
(* C15: malformed input is reported with the right line number.                              *)
(* The chunked reader of ChunkReader.tla is run on a file whose entry number `bad` violates  *)
(* its format.  The chunk that contains the offending entry is never delivered: cutting it   *)
(* raises an error whose line number is the reader's line counter plus the position of the  *)
(* entry inside the chunk (parser.py:150-153,166-168; npdataclassreader.py:80-91;            *)
(* lazybnpdataclass.py:37-42).  ErrLineRight says that this is the zero-based line of the    *)
(* offending record in the file for every chunk size and both carry-over modes.              *)
EXTENDS ChunkReader, Json

VARIABLES bad, errLine
varsE == <<vars, bad, errLine>>

ShapesDelim   == << <<5>>, <<6>>, <<9>> >>
ShapesTwoLine == << <<2, 1>>, <<3, 4>> >>
ShapesFastq   == << <<2, 1, 1, 1>>, <<3, 2, 1, 2>> >>

InitE == Init /\ bad \in DOMAIN es /\ errLine = -1

EntriesDone == NL(delivered) \div E
ChunkEntries == NL(SubSeq(temp, 1, CutPoint(temp))) \div E
HitsBad == pc = "cut" /\ EntriesDone < bad /\ bad <= EntriesDone + ChunkEntries

ErrorAtCut == /\ HitsBad
              /\ pc' = "error"
              /\ errLine' = linesRead + (bad - EntriesDone - 1) * E
              /\ UNCHANGED <<es, crlf, finalnl, K, mode, file, pos, carry, finished, temp, padded, delivered, linesRead, sizes, reads, bad>>
Normal == ~HitsBad /\ Next /\ UNCHANGED <<bad, errLine>>
NextE == Normal \/ ErrorAtCut
SpecE == InitE /\ [][NextE]_varsE

ErrLineRight   == pc = "error" => errLine = (bad - 1) * E
NeverDelivered == EntriesDone < bad                     \* no table is ever yielded from the affected data
NeverCompletes == pc # "done"                           \* the read cannot finish normally
EmitE == pc = "error" =>
           PrintT(ToJson([cfg |-> [es |-> es, crlf |-> crlf, finalnl |-> finalnl, K |-> K, mode |-> mode, flen |-> Len(file)],
                          bad |-> bad, line |-> errLine, delivered_entries |-> EntriesDone]))
==============================================================================
