----------------------------- MODULE MC_Signature -----------------------------
EXTENDS Signature, Json
\* A C G T N = 0 1 2 3 4
R1 == <<<<1, 1, 0, 1, 1, 1, 2, 3>>, <<2, 0, 3, 3, 0, 1, 0>>>>          \* CCACCCGT, GATTACA
R2 == <<<<0, 4, 1, 2, 3, 0>>, <<3, 3, 2, 4, 1>>, <<1, 0, 2>>>>          \* ANCGTA, TTGNC, CAG
Emit == PrintT(ToJson([refs |-> Refs, flank |-> Flank, snps |-> snps, counts |-> Counts]))
==============================================================================
