---------------------------------- MODULE Csv ----------------------------------
(* Delimited files with a header line read into a user-defined table type                          *)
(* (bionumpy/io/delimited_buffers.py: get_bufferclass_for_datatype(..., has_header=True);            *)
(* specification growth, run by ./check EXT).                                                        *)
(* The header names the columns; the columns of the table are found BY NAME, in whatever order the   *)
(* file lists them, and a column the table type does not have is carried along but is not a field.   *)
(* Lines starting with the comment character before the header are skipped.                          *)
EXTENDS Text, TLC

CONSTANTS Sep, MaxRows,
          Headers,        \* the column orders a file may use: sequences of column names (byte strings), incl. names that are not fields
          WithComment,    \* a comment line before the header
          WithHeader      \* FALSE: the file has no header line; its columns are the fields of the type, in their order

\* the table type: name (text), count (integer), score (decimal number with one fraction digit, kept as text tenths)
FName == <<110, 97, 109, 101>>          \* "name"
FCount == <<99, 111, 117, 110, 116>>    \* "count"
FScore == <<115, 99, 111, 114, 101>>    \* "score"
Fields == <<FName, FCount, FScore>>
NameVals == {<<97, 98>>, <<99>>}                \* "ab", "c"
CountVals == {5, 12}
ScoreVals == {<<49, 46, 53>>, <<50, 46, 48>>}   \* "1.5", "2.0"
ExtraVal == <<122, 122>>                        \* what a column that is not a field holds

VARIABLES header, rows
vars == <<header, rows>>
Init == header \in (IF WithHeader THEN Headers ELSE {Fields}) /\ rows = <<>>
AddRow(r) == Len(rows) < MaxRows /\ rows' = Append(rows, r) /\ UNCHANGED header
Next == \E n \in NameVals : \E c \in CountVals : \E s \in ScoreVals : AddRow([name |-> n, count |-> c, score |-> s])
Spec == Init /\ [][Next]_vars

Cell(r, col) == IF col = FName THEN r.name ELSE IF col = FCount THEN IntText(r.count) ELSE IF col = FScore THEN r.score ELSE ExtraVal
LineOf(r, cols) == JoinWith([k \in DOMAIN cols |-> Cell(r, cols[k])], Sep) \o <<LF>>
Comment == IF WithComment THEN <<HASH, 120, LF>> ELSE <<>>
HeaderLine(cols) == IF WithHeader THEN JoinWith(cols, Sep) \o <<LF>> ELSE <<>>
FileText == Comment \o HeaderLine(header) \o Concat([i \in DOMAIN rows |-> LineOf(rows[i], header)])
\* what writing the table (as a table of its own type) gives: the fields in the order of the type, nothing else
CanonText == HeaderLine(Fields) \o Concat([i \in DOMAIN rows |-> LineOf(rows[i], Fields)])

\* meaning of the text: the cells under the header cell that equals the field's name
ColumnOf(text, field) ==
  LET ls == SelectSeq(Lines(text), LAMBDA l : l = <<>> \/ l[1] # HASH)
      hdr == IF WithHeader THEN SplitOn(ls[1], Sep) ELSE Fields
      k == CHOOSE k \in DOMAIN hdr : hdr[k] = field
      skip == IF WithHeader THEN 1 ELSE 0
  IN [i \in 1..(Len(ls) - skip) |-> SplitOn(ls[i + skip], Sep)[k]]
ByName == /\ ColumnOf(FileText, FName) = [i \in DOMAIN rows |-> rows[i].name]
          /\ ColumnOf(FileText, FCount) = [i \in DOMAIN rows |-> IntText(rows[i].count)]
          /\ ColumnOf(FileText, FScore) = [i \in DOMAIN rows |-> rows[i].score]
\* the order of the columns in the file does not matter: the canonical text holds the same columns
OrderIrrelevant == \A f \in {FName, FCount, FScore} : ColumnOf(CanonText, f) = ColumnOf(FileText, f)
==============================================================================
