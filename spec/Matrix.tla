-------------------------------- MODULE Matrix --------------------------------
(* Numeric matrices as delimited text (bionumpy/io/matrix_dump.py: parse_matrix, matrix_to_csv; *)
(* specification growth beyond the listed properties, run by ./check EXT).                     *)
(* A matrix file is a header line of column names followed by one line per row: an optional    *)
(* row name, then the numbers, all separated by one separator byte; every line ends in LF.     *)
(* With row names the header has one more cell (the corner) than there are number columns.     *)
EXTENDS Text, TLC

CONSTANTS MaxRows, MaxCols, Values, Names, Sep

VARIABLES data,      \* sequence of rows, each a sequence of integers
          rowNames,  \* sequence of names, or <<>> when the file has no row names
          colNames
vars == <<data, rowNames, colNames>>

Init == \E r \in 1..MaxRows : \E c \in 1..MaxCols : \E withRows \in BOOLEAN :
          /\ data \in [1..r -> [1..c -> Values]]
          /\ colNames \in [1..c -> Names]
          /\ rowNames \in (IF withRows THEN [1..r -> Names] ELSE {<<>>})
Next == UNCHANGED vars
Spec == Init /\ [][Next]_vars

HasRowNames == rowNames # <<>>
Corner == <<120>>       \* "x": the header cell above the row names
HeaderCells == (IF HasRowNames THEN <<Corner>> ELSE <<>>) \o colNames
RowCells(i) == (IF HasRowNames THEN <<rowNames[i]>> ELSE <<>>) \o [j \in DOMAIN data[i] |-> IntText(data[i][j])]
FileText == JoinWith(HeaderCells, Sep) \o <<LF>> \o Concat([i \in DOMAIN data |-> JoinWith(RowCells(i), Sep) \o <<LF>>])
\* what matrix_to_csv writes: the header and the numbers, no row names
CsvText == JoinWith(colNames, Sep) \o <<LF>> \o Concat([i \in DOMAIN data |-> JoinWith([j \in DOMAIN data[i] |-> IntText(data[i][j])], Sep) \o <<LF>>])

\* The matrix handed to matrix_to_csv is a function (row, column) -> value; how an implementation lays it out in memory
\* (row-major, column-major, a strided window of a larger array) is not part of the state, so CsvText cannot depend on it.
Layouts == {"row-major", "column-major", "strided"}
\* meaning of a matrix text: split into lines and cells, numbers by value
Parse(text, withRows) ==
  LET ls == Lines(text)
      cells == [i \in DOMAIN ls |-> SplitOn(ls[i], Sep)]
      skip == IF withRows THEN 1 ELSE 0
  IN [cols |-> SubSeq(cells[1], 1 + skip, Len(cells[1])),
      rows |-> IF withRows THEN [i \in 1..(Len(ls) - 1) |-> cells[i + 1][1]] ELSE <<>>,
      data |-> [i \in 1..(Len(ls) - 1) |-> [j \in 1..(Len(cells[i + 1]) - skip) |-> IntValue(cells[i + 1][j + skip])]]]
RoundTrip == LET p == Parse(FileText, HasRowNames) IN p.cols = colNames /\ p.rows = rowNames /\ p.data = data
CsvRoundTrip == LET p == Parse(CsvText, FALSE) IN p.cols = colNames /\ p.data = data
==============================================================================
