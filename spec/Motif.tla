--------------------------------- MODULE Motif ---------------------------------
(* Motif files (bionumpy/io/jaspar.py, io/motifs.py: read_motif for .jaspar and .csv; specification  *)
(* growth, run by ./check EXT).  A motif is, for every letter of its alphabet (in the order of the    *)
(* file), one count per position.  Counts are powers of two here (count = 2^e) so that the log odds    *)
(* against the uniform background 1/|alphabet| are integers in units of ln 2:                          *)
(*      weight(letter, position) = e + log2 |alphabet|.                                                *)
(*   .jaspar: a header line ('>' id name), then one line per letter:  A  [ c1 c2 ... ]                 *)
(*   .csv:    a header line of the letters joined by commas, then one line per POSITION with the       *)
(*            counts of the letters in header order.                                                   *)
(* The score of a window is the sum of the weights of its letters (Windows.tla!Scores).               *)
EXTENDS Text, TLC

CONSTANTS Orders,      \* the letter orders a file may use: sequences of distinct letter codes (byte values)
          W, Exps      \* motif width, the exponents counts may have

VARIABLES order, e      \* e[l][p]: exponent of the count of letter order[l] at position p
vars == <<order, e>>
Init == order \in Orders /\ e \in [1..Len(order) -> [1..W -> Exps]]
Next == UNCHANGED vars
Spec == Init /\ [][Next]_vars

Pow2(n) == LET RECURSIVE P(_) P(k) == IF k = 0 THEN 1 ELSE 2 * P(k - 1) IN P(n)
CountText(l, p) == IntText(Pow2(e[l][p]))
JasparText == <<GT>> \o <<77, 49, 32, 109>> \o <<LF>>                                        \* ">M1 m"
              \o Concat([l \in DOMAIN order |-> <<order[l], SPACE, 91, SPACE>> \o JoinWith([p \in 1..W |-> CountText(l, p)], SPACE) \o <<SPACE, 93, LF>>])
CsvText == JoinWith([l \in DOMAIN order |-> <<order[l]>>], COMMA) \o <<LF>>
           \o Concat([p \in 1..W |-> JoinWith([l \in DOMAIN order |-> CountText(l, p)], COMMA) \o <<LF>>])
Log2N == CHOOSE k \in 0..8 : Pow2(k) = Len(order)         \* alphabets of 2 or 4 letters
\* weight in units of ln 2, by letter (byte value) and position
Weight(c, p) == LET l == CHOOSE l \in DOMAIN order : order[l] = c IN e[l][p] + Log2N
WeightRows == [l \in DOMAIN order |-> [p \in 1..W |-> e[l][p] + Log2N]]

\* the two file forms carry the same motif: parsing either gives back the counts by letter
JasparParse == LET ls == Lines(JasparText) IN
               [l \in 1..(Len(ls) - 1) |-> LET cells == SplitOn(ls[l + 1], SPACE) IN
                  [letter |-> cells[1][1], counts |-> [p \in 1..W |-> IntValue(cells[p + 2])]]]
CsvParse == LET ls == Lines(CsvText)
                hdr == SplitOn(ls[1], COMMA) IN
            [l \in DOMAIN hdr |-> [letter |-> hdr[l][1], counts |-> [p \in 1..W |-> IntValue(SplitOn(ls[p + 1], COMMA)[l])]]]
SameMotif == JasparParse = CsvParse /\ \A l \in DOMAIN order : JasparParse[l].letter = order[l] /\ \A p \in 1..W : JasparParse[l].counts[p] = Pow2(e[l][p])
==============================================================================
