------------------------------- MODULE Records -------------------------------
(* Tables of entries behave like column-aligned NumPy records (property C19).                *)
(* A table is a function column -> sequence of cell tokens.  Source rows are 1..NRows; the   *)
(* cell of source row r in column c is <<"v", r, c>>; replaced / added columns hold fresh    *)
(* cells <<"n", k, j>>.  The sort key of a cell is given by KeyOf (with ties).                *)
(* Every operation acts on all columns simultaneously; operands are never changed.           *)
EXTENDS Integers, Sequences, FiniteSets, TLC

CONSTANTS NRows, Cols, SortCol, RepCol, MaxPool, MaxDepth, Ops

Sel(kind, n) ==
  CASE kind = "tail" -> [j \in 1..(IF n > 0 THEN n - 1 ELSE 0) |-> j + 1]
    [] kind = "step" -> [j \in 1..((n + 1) \div 2) |-> 2 * j - 1]
    [] kind = "rev"  -> [j \in 1..n |-> n + 1 - j]
    [] kind \in {"mask", "lmask"} -> [j \in 1..(n \div 2) |-> 2 * j]
    [] kind = "list" -> IF n = 0 THEN <<>> ELSE <<n, 1, 1>>
    [] kind = "empty" -> <<>>
Pick(s, idx) == [j \in DOMAIN idx |-> s[idx[j]]]
\* sort key of a cell: source row r has key (r mod NRows) + 1, so sorting really permutes; fresh cells sort by their row position,
\* descending.  Keys of distinct source rows are distinct: the order among equal keys is not prescribed by the property, and equal
\* keys only arise from repeated rows, which are equal as rows.
KeyOf(cell) == IF cell[1] = "v" THEN (cell[2] % NRows) + 1 ELSE 100 - cell[3]

VARIABLES pool, prog, obs, nfresh
vars == <<pool, prog, obs, nfresh>>
NRowsOf(t) == Len(t[SortCol])
Source == [c \in Cols |-> [r \in 1..NRows |-> <<"v", r, c>>]]
Init == pool = <<Source>> /\ prog = <<[op |-> "create"]>> /\ obs = [kind |-> "none"] /\ nfresh = 0

Room == Len(pool) < MaxPool /\ Len(prog) < MaxDepth
CanDo == Len(prog) < MaxDepth
New(t, op) == pool' = Append(pool, t) /\ prog' = Append(prog, op) /\ obs' = [kind |-> "table"]

Index_   == "index" \in Ops /\ \E i \in DOMAIN pool : \E kind \in {"tail", "step", "rev", "mask", "lmask", "list", "empty"} : Room /\
              LET idx == Sel(kind, NRowsOf(pool[i])) IN
              New([c \in DOMAIN pool[i] |-> Pick(pool[i][c], idx)], [op |-> "index", t |-> i, sel |-> kind]) /\ UNCHANGED nfresh
Concat_  == "concat" \in Ops /\ \E i, k \in DOMAIN pool : Room /\ DOMAIN pool[i] = DOMAIN pool[k] /\
              New([c \in DOMAIN pool[i] |-> pool[i][c] \o pool[k][c]], [op |-> "concat", t |-> i, u |-> k]) /\ UNCHANGED nfresh
Replace_ == "replace" \in Ops /\ \E i \in DOMAIN pool : Room /\
              New([pool[i] EXCEPT ![RepCol] = [j \in 1..NRowsOf(pool[i]) |-> <<"n", nfresh + 1, j>>]], [op |-> "replace", t |-> i, k |-> nfresh + 1])
              /\ nfresh' = nfresh + 1
AddField_ == "addfield" \in Ops /\ \E i \in DOMAIN pool : Room /\ "extra" \notin DOMAIN pool[i] /\
              New([c \in DOMAIN pool[i] \cup {"extra"} |-> IF c = "extra" THEN [j \in 1..NRowsOf(pool[i]) |-> <<"n", nfresh + 1, j>>] ELSE pool[i][c]],
                  [op |-> "addfield", t |-> i, k |-> nfresh + 1]) /\ nfresh' = nfresh + 1
\* add_fields with the name of a column the table already has: that column takes the given values (a replacement by another route)
AddExisting_ == "addexisting" \in Ops /\ \E i \in DOMAIN pool : Room /\
              New([pool[i] EXCEPT ![RepCol] = [j \in 1..NRowsOf(pool[i]) |-> <<"n", nfresh + 1, j>>]], [op |-> "addexisting", t |-> i, k |-> nfresh + 1])
              /\ nfresh' = nfresh + 1
\* sort_by: the rows in non-decreasing key order; the order among equal keys is not prescribed, so the model records
\* only WHICH rows (as a bag, through their positions) and the sorted key sequence; a stable witness is kept in the pool
SortIdx(t) == LET n == NRowsOf(t)
                  RECURSIVE S(_)
                  S(I) == IF I = {} THEN <<>>
                          ELSE LET m == CHOOSE i \in I : \A j \in I : KeyOf(t[SortCol][i]) < KeyOf(t[SortCol][j]) \/ (KeyOf(t[SortCol][i]) = KeyOf(t[SortCol][j]) /\ i <= j)
                               IN <<m>> \o S(I \ {m})
              IN S(1..n)
Sort_    == "sort" \in Ops /\ \E i \in DOMAIN pool : Room /\
              LET idx == SortIdx(pool[i]) IN
              New([c \in DOMAIN pool[i] |-> Pick(pool[i][c], idx)], [op |-> "sort", t |-> i]) /\ UNCHANGED nfresh
\* observations: conversions are mutually inverse, iteration yields the rows
Obs(kind) == \E i \in DOMAIN pool : CanDo /\ prog' = Append(prog, [op |-> kind, t |-> i]) /\ obs' = [kind |-> "rows", t |-> i] /\ UNCHANGED <<pool, nfresh>>
Rows_    == "rows" \in Ops /\ Obs("rows")           \* tolist / from_entry_tuples round trip
Dict_    == "dict" \in Ops /\ Obs("dict")           \* todict / from_dict round trip
Pandas_  == "pandas" \in Ops /\ Obs("pandas")       \* topandas / from_data_frame round trip; the frame handed out is the caller's own:
                                                    \* the driver writes into it afterwards and the pool must stay as it is (UNCHANGED pool in Obs)
Iter_    == "iter" \in Ops /\ Obs("iter")           \* iteration over entries
Len_     == "len" \in Ops /\ Obs("len")
Narrow_  == "narrow" \in Ops /\ Obs("narrow")      \* a table TYPE with one column narrowed is derived from the type of table t (narrow_type, as the VCF
                                                    \* reader does for typed INFO); the type of t is as before: rebuilding t from its own rows gives the same rows
Row_     == "row" \in Ops /\ Obs("row")            \* t[j] for every single position j (and -1): the row itself, all columns at once

\* construction converts each column to its declared type or raises: the table is rebuilt from the columns of table i, presented as
\*   "strings"   rows of plain Python values                      -> the same rows
\*   "columns"   the typed columns themselves                      -> the same rows
\*   "as-id"     an identifier column fed from the encoded column  -> the same text, or an error
\*   "other"     the encoded column in another, compatible-looking alphabet -> the same text, or an error (never other letters)
\*   "bad"       text in a numeric column                          -> an error
Construct_ == "construct" \in Ops /\ \E i \in DOMAIN pool : \E fm \in {"strings", "columns", "as-id", "other", "bad"} : CanDo /\
                prog' = Append(prog, [op |-> "construct", t |-> i, form |-> fm]) /\
                obs' = [kind |-> "construct", t |-> i, must_raise |-> (fm = "bad"), may_raise |-> (fm \in {"as-id", "other", "bad"})] /\
                UNCHANGED <<pool, nfresh>>

Next == Construct_ \/ Index_ \/ Concat_ \/ Replace_ \/ AddField_ \/ AddExisting_ \/ Sort_ \/ Rows_ \/ Dict_ \/ Pandas_ \/ Iter_ \/ Len_ \/ Row_ \/ Narrow_
Spec == Init /\ [][Next]_vars

\* ---- properties
AllColumnsEqualLen == \A i \in DOMAIN pool : \A c, d \in DOMAIN pool[i] : Len(pool[i][c]) = Len(pool[i][d])
\* rows stay together: whatever happened, position j of every original column refers to one source row
RowsIntact == \A i \in DOMAIN pool : \A j \in 1..NRowsOf(pool[i]) :
                 \A c, d \in (DOMAIN pool[i]) \ {RepCol, "extra"} : pool[i][c][j][2] = pool[i][d][j][2]
OperandsUnchanged == [][\A i \in DOMAIN pool : pool'[i] = pool[i]]_vars
==============================================================================
