------------------------------- MODULE MC_C16 -------------------------------
(* A BAM file grows record by record from a family of templates that covers: unmapped record,  *)
(* all nine CIGAR kinds, 0-3 operations, odd and even (and empty) sequences over several of   *)
(* the sixteen base codes, qualities 0/10/93, tag bytes (also ending in 0x0A), long names.    *)
EXTENDS Bam, Json
CONSTANTS MaxRecs,
          Pick       \* the templates in use (indices into T)
VARIABLES recs
vars == <<recs>>
Name(n) == [i \in 1..n |-> 96 + ((i - 1) % 26) + 1]     \* a, b, c, ...
T == <<
  [ref |-> 0,  pos |-> 0,   name |-> Name(1), mapq |-> 60, flag |-> 0,  cigar |-> <<<<0, 3>>>>,                         seq |-> <<1, 2, 4>>,       qual |-> <<30, 0, 93>>, tags |-> <<>>],
  [ref |-> 1,  pos |-> 7,   name |-> Name(2), mapq |-> 0,  flag |-> 16, cigar |-> <<<<4, 1>>, <<0, 2>>, <<1, 1>>>>,     seq |-> <<8, 15, 1, 2>>,   qual |-> <<1, 2, 3, 10>>, tags |-> <<>>],
  [ref |-> -1, pos |-> -1,  name |-> Name(1), mapq |-> 0,  flag |-> 4,  cigar |-> <<>>,                                 seq |-> <<2>>,             qual |-> <<93>>,       tags |-> <<>>],
  [ref |-> 0,  pos |-> 300, name |-> Name(3), mapq |-> 255, flag |-> 99, cigar |-> <<<<0, 1>>, <<2, 2>>, <<3, 5>>>>,     seq |-> <<>>,              qual |-> <<>>,          tags |-> <<78, 77, 67, 0>>],
  [ref |-> 1,  pos |-> 70000, name |-> Name(2), mapq |-> 7, flag |-> 147, cigar |-> <<<<5, 2>>, <<7, 4>>, <<8, 1>>, <<6, 1>>>>, seq |-> <<1, 1, 1, 1, 1>>, qual |-> <<10, 10, 10, 10, 10>>, tags |-> <<>>],
  [ref |-> 0,  pos |-> 5,   name |-> Name(1), mapq |-> 1,  flag |-> 16, cigar |-> <<<<0, 300>>>>,                       seq |-> <<4, 8>>,          qual |-> <<0, 10>>,     tags |-> <<88, 88, 65, 10>>],
  [ref |-> 1,  pos |-> 9,   name |-> Name(254), mapq |-> 3, flag |-> 0,  cigar |-> <<<<0, 2>>>>,                        seq |-> <<1, 2>>,          qual |-> <<20, 21>>,    tags |-> <<>>],
  [ref |-> 0,  pos |-> 11,  name |-> Name(220), mapq |-> 4, flag |-> 16, cigar |-> <<<<4, 1>>, <<0, 1>>>>,              seq |-> <<8, 4, 2>>,       qual |-> <<1, 1, 1>>,   tags |-> <<>>],
  \* a skip of more than 2^27 reference bases (the top bit of the 28-bit length field) and the largest length 2^28 - 1
  [ref |-> 0,  pos |-> 100, name |-> Name(2), mapq |-> 9,  flag |-> 0,  cigar |-> <<<<0, 2>>, <<3, 134217733>>, <<0, 1>>>>, seq |-> <<1, 2, 4>>,     qual |-> <<5, 6, 7>>,   tags |-> <<>>],
  [ref |-> 1,  pos |-> 3,   name |-> Name(1), mapq |-> 2,  flag |-> 16, cigar |-> <<<<2, 268435455>>, <<0, 1>>>>,       seq |-> <<8>>,             qual |-> <<40>>,        tags |-> <<>>],
  \* 300 CIGAR operations (the count needs the second byte of its 16-bit field): 150 x (1M 1I), 300 bases
  [ref |-> 0,  pos |-> 20,  name |-> Name(2), mapq |-> 30, flag |-> 0,  cigar |-> [k \in 1..300 |-> <<(k + 1) % 2, 1>>],
   seq |-> [k \in 1..300 |-> <<1, 2, 4, 8>>[(k % 4) + 1]], qual |-> [k \in 1..300 |-> k % 41], tags |-> <<>>],
  \* a read of 65 537 bases (the length needs the upper half of its 32-bit field), odd length
  [ref |-> 1,  pos |-> 1,   name |-> Name(3), mapq |-> 11, flag |-> 16, cigar |-> <<<<0, 65537>>>>,
   seq |-> [k \in 1..65537 |-> <<1, 2, 4, 8, 15>>[(k % 5) + 1]], qual |-> [k \in 1..65537 |-> k % 41], tags |-> <<>>],
  \* 16 400 CIGAR operations: four bytes each, more than 65 535 bytes of CIGAR (the byte count does not fit the 16 bits of the operation count)
  [ref |-> 0,  pos |-> 2,   name |-> Name(1), mapq |-> 12, flag |-> 0,  cigar |-> [k \in 1..16400 |-> <<(k + 1) % 2, 1>>],
   seq |-> [k \in 1..16400 |-> <<1, 2, 4, 8>>[(k % 4) + 1]], qual |-> [k \in 1..16400 |-> k % 41], tags |-> <<>>]
>>
Init == recs = <<>>
Add == Len(recs) < MaxRecs /\ \E i \in Pick : recs' = Append(recs, T[i])
Next == Add
Spec == Init /\ [][Next]_vars

RECURSIVE Offsets(_, _)
Offsets(rs, o) == IF rs = <<>> THEN <<>> ELSE <<o>> \o Offsets(Tail(rs), o + Len(EncodeRecord(rs[1])))
RoundTrip == LET b == EncodeAll(recs)
                 os == Offsets(recs, 0)
             IN \A i \in DOMAIN recs : Decode(b, os[i]) = recs[i]
SizesAdd == Len(EncodeAll(recs)) = (IF recs = <<>> THEN 0 ELSE Offsets(recs, 0)[Len(recs)] + Len(EncodeRecord(recs[Len(recs)])))
Emit == recs # <<>> => PrintT(ToJson([recs |-> recs, bytes |-> EncodeAll(recs), sizes |-> [i \in DOMAIN recs |-> Len(EncodeRecord(recs[i]))],
                                       intervals |-> [i \in DOMAIN recs |-> RefInterval(recs[i])]]))
==============================================================================
