------------------------------ MODULE Intervals ------------------------------
(* Per-base meaning of interval-set operations on one contig (property C08, reused by C09,  *)
(* C10, C11).  An interval is a record [s |-> start, e |-> stop], half open, 0-based.       *)
(* A contig of size n has bases 0..n-1.  Dense arrays are 1-based TLA+ sequences:            *)
(* element p+1 is base p (so that ToJson prints a JSON array).                               *)
EXTENDS Integers, Sequences, FiniteSets

Min2(a, b) == IF a <= b THEN a ELSE b
Max2(a, b) == IF a >= b THEN a ELSE b

SumSeq(f) == LET RECURSIVE S(_)
                 S(i) == IF i = 0 THEN 0 ELSE f[i] + S(i - 1)
             IN S(Len(f))

Covers(iv, p) == iv.s <= p /\ p < iv.e

\* number of intervals of the sequence ivs that cover base p
Cov(ivs, p) == Cardinality({i \in DOMAIN ivs : Covers(ivs[i], p)})

Pileup(ivs, size) == [p \in 1..size |-> Cov(ivs, p - 1)]
Mask(ivs, size)   == [p \in 1..size |-> Cov(ivs, p - 1) > 0]

\* maximal runs of TRUE of a boolean dense array, as a sorted sequence of intervals
RunSet(B, size) == {r \in (0..size) \X (0..size) :
                      /\ r[1] < r[2]
                      /\ \A p \in r[1]..(r[2] - 1) : B[p + 1]
                      /\ (r[1] = 0 \/ ~B[r[1]])
                      /\ (r[2] = size \/ ~B[r[2] + 1])}

\* a set of pairwise disjoint <<s,e>> pairs -> sequence ordered by start
SortRuns(R) == LET RECURSIVE Srt(_)
                   Srt(X) == IF X = {} THEN <<>>
                             ELSE LET m == CHOOSE x \in X : \A y \in X : x[1] <= y[1]
                                  IN <<[s |-> m[1], e |-> m[2]]>> \o Srt(X \ {m})
               IN Srt(R)

\* base p is covered, or lies in a gap of at most d uncovered bases between two covered bases
\* (declarative form)
BridgedDecl(ivs, size, d) ==
  [q \in 1..size |->
     LET p == q - 1 IN
       \/ Cov(ivs, p) > 0
       \/ \E x \in 0..(p - 1) : \E y \in (p + 1)..(size - 1) :
            Cov(ivs, x) > 0 /\ Cov(ivs, y) > 0 /\ y - x - 1 <= d]

\* the same, with the search window narrowed to what d allows (used for long recorded traces;
\* MC_C08 checks BridgedDecl = Bridged and RunSet = FastRunSet on the whole small scope)
Bridged(ivs, size, d) ==
  LET C == [p \in 0..(size - 1) |-> Cov(ivs, p) > 0] IN
  [q \in 1..size |->
     LET p == q - 1 IN
       \/ C[p]
       \/ \E x \in Max2(0, p - d)..(p - 1) : \E y \in (p + 1)..Min2(size - 1, p + d) :
            C[x] /\ C[y] /\ y - x - 1 <= d]

FastRunSet(B, size) ==
  LET starts == {s \in 0..(size - 1) : B[s + 1] /\ (s = 0 \/ ~B[s])}
      End(s)  == CHOOSE e \in (s + 1)..size : (e = size \/ ~B[e + 1]) /\ \A p \in s..(e - 1) : B[p + 1]
  IN {<<s, End(s)>> : s \in starts}

\* merging = the maximal runs of the union after bridging gaps of length <= d
\* (touching intervals have a gap of 0 bases and are therefore merged for every d >= 0)
MergeDecl(ivs, size, d) == SortRuns(RunSet(BridgedDecl(ivs, size, d), size))
Merge(ivs, size, d) == LET B == Bridged(ivs, size, d) IN SortRuns(FastRunSet(B, size))

\* sorting: the ordered permutation by (start, stop); ties are equal rows, so the result is unique
LessEq(x, y) == x.s < y.s \/ (x.s = y.s /\ x.e <= y.e)
SortIvs(ivs) == LET RECURSIVE Srt(_)
                    Srt(I) == IF I = {} THEN <<>>
                              ELSE LET m == CHOOSE i \in I : \A j \in I : LessEq(ivs[i], ivs[j])
                                   IN <<[s |-> ivs[m].s, e |-> ivs[m].e]>> \o Srt(I \ {m})
                IN Srt(DOMAIN ivs)

IsSortedDisjoint(ivs) == \A i \in 1..(Len(ivs) - 1) : ivs[i].e <= ivs[i + 1].s

\* --- pair operations, from per-base coverage ---
OverlapCount(a, b, size)  == SumSeq([p \in 1..size |-> Cov(a, p - 1) * Cov(b, p - 1)])
IntersectCov(a, b, size)  == [p \in 1..size |-> Cov(a, p - 1) * Cov(b, p - 1)]
\* rows of a touching the mask of b, in the order of a
UniqueIntersect(a, b) == LET keep == {i \in DOMAIN a : \E p \in a[i].s..(a[i].e - 1) : Cov(b, p) > 0}
                             RECURSIVE Sel(_)
                             Sel(i) == IF i > Len(a) THEN <<>>
                                       ELSE (IF i \in keep THEN <<a[i]>> ELSE <<>>) \o Sel(i + 1)
                         IN Sel(1)
\* contingency table of the two masks: <<both, only a, only b, neither>>
Contingency(a, b, size) ==
  LET n(fa, fb) == Cardinality({p \in 0..(size - 1) : (Cov(a, p) > 0) = fa /\ (Cov(b, p) > 0) = fb})
  IN <<n(TRUE, TRUE), n(TRUE, FALSE), n(FALSE, TRUE), n(FALSE, FALSE)>>
\* Jaccard and Forbes as exact rationals <<numerator, denominator>>
Jaccard(a, b, size) == LET c == Contingency(a, b, size) IN <<c[1], c[1] + c[2] + c[3]>>
Forbes(a, b, size)  == LET c == Contingency(a, b, size)
                       IN <<c[1] * (c[1] + c[2] + c[3] + c[4]), (c[1] + c[2]) * (c[1] + c[3])>>

\* --- clipping and strand-aware extension ---
Clip(iv, size) == [s |-> Max2(0, iv.s), e |-> Min2(size, iv.e)]
ExtendToSize(iv, strand, len, size) ==
  IF strand = "+" THEN [s |-> iv.s, e |-> Min2(iv.s + len, size)]
                  ELSE [s |-> Max2(iv.e - len, 0), e |-> iv.e]
Inside(iv, size) == 0 <= iv.s /\ iv.s <= iv.e /\ iv.e <= size

TotalLen(ivs) == SumSeq([i \in DOMAIN ivs |-> ivs[i].e - ivs[i].s])
==============================================================================
