-------------------------------- MODULE MC_Csv --------------------------------
EXTENDS Csv, Json
X == <<101, 120, 116, 114, 97>>       \* "extra": a column that is not a field of the table type
Hdrs == {<<FName, FCount, FScore>>, <<FCount, FName, FScore>>, <<FScore, FCount, FName>>,
         <<FScore, X, FCount, FName>>, <<X, FName, FCount, FScore>>, <<FName, FCount, FScore, X>>}
Emit == PrintT(ToJson([header |-> header, rows |-> rows, sep |-> Sep, text |-> FileText, canon |-> CanonText, withheader |-> WithHeader]))
==============================================================================
