----------------------------- MODULE ChunkReader -----------------------------
(* Chunked reading of a text file of entries (properties C01, C15, C16).                    *)
(*                                                                                          *)
(* L0 (meaning): a reader delivers the entries of the file in order, each exactly once, in  *)
(* non-empty runs, and may stop only when every entry has been delivered.                   *)
(* L1 (mechanism): transcription of bionumpy/io/parser.py NumpyFileReader.read_chunk /      *)
(* _get_buffer and of the per-format cut rules, one action per critical section:            *)
(*   Start    a read_chunk call begins: temp := carried tail            parser.py:126-129   *)
(*   RawRead  file.read(K); end-of-file inference; terminator appended  parser.py:131-145,  *)
(*            only at end of file                                       183-201             *)
(*   Cut      from_raw_buffer cuts at the last complete entry, the rest parser.py:147-171   *)
(*            is given back by seek (plain) or kept as carry (gzip)                         *)
(* Bytes are abstracted to classes: "c" ordinary, "n" newline, "r" carriage return,         *)
(* "h" the new-entry marker of wrapped FASTA at a line start.                               *)
(* AsBuilt = TRUE transcribes the pinned tree, where end of file is inferred from a short   *)
(* read only (TLC refutes Complete: finding F1); AsBuilt = FALSE is the repaired rule.      *)
EXTENDS Integers, Sequences, FiniteSets, TLC

CONSTANTS E,          \* lines per entry (1 delimited, 2 two-line FASTA, 4 FASTQ); 0 = wrapped FASTA
          Shapes,     \* sequence of entry shapes; a shape is the sequence of its line lengths
          MaxEntries,
          AsBuilt,
          Modes       \* subset of {"seek", "prepend"}

Wrapped == E = 0
Min2(a, b) == IF a <= b THEN a ELSE b

\* ---------------------------------------------------------------- files
Rep(ch, k) == [i \in 1..k |-> ch]
Line(len, first, crlf) == <<first>> \o Rep("c", len - 1) \o (IF crlf THEN <<"r">> ELSE <<>>) \o <<"n">>
RECURSIVE Lines(_, _, _)
Lines(shape, i, crlf) == IF i > Len(shape) THEN <<>>
                         ELSE Line(shape[i], IF i = 1 /\ Wrapped THEN "h" ELSE "c", crlf) \o Lines(shape, i + 1, crlf)
RECURSIVE RenderEntries(_, _, _)
RenderEntries(es, i, crlf) == IF i > Len(es) THEN <<>> ELSE Lines(Shapes[es[i]], 1, crlf) \o RenderEntries(es, i + 1, crlf)
\* the complete, newline-terminated text; a file without final newline lacks the last line end
FullText(es, crlf) == RenderEntries(es, 1, crlf)
FileOf(es, crlf, finalnl) == LET t == FullText(es, crlf) IN
                             IF finalnl THEN t ELSE SubSeq(t, 1, Len(t) - (IF crlf THEN 2 ELSE 1))
\* what a complete read must deliver: the file, newline-terminated
NormOf(f) == IF f[Len(f)] = "n" THEN f ELSE f \o <<"n">>

NL(s) == Cardinality({i \in DOMAIN s : s[i] = "n"})
EntrySeqs == UNION {[1..n -> DOMAIN Shapes] : n \in 1..MaxEntries}

\* ---------------------------------------------------------------- per-format rules
\* contains_complete_entry: file_buffers.py:265-267, one_line_buffer.py:36-42, multiline_buffer.py:33-44
ContainsCompleteEntry(t) == IF Wrapped THEN \E i \in 1..(Len(t) - 1) : t[i] = "n" /\ t[i + 1] = "h"
                            ELSE NL(t) >= E
\* from_raw_buffer: delimited_buffers.py:52-83 (last newline), one_line_buffer.py:45-71 (last
\* multiple of E lines), multiline_buffer.py:89-103 (start of the last entry marker)
CutPoint(t) == IF Wrapped
               THEN LET I == {i \in 1..(Len(t) - 1) : t[i] = "n" /\ t[i + 1] = "h"} IN
                    CHOOSE i \in I : \A j \in I : j <= i
               ELSE LET n    == NL(t)
                        keep == n - (n % E)
                    IN CHOOSE i \in DOMAIN t : t[i] = "n" /\ NL(SubSeq(t, 1, i)) = keep
\* __add_newline_to_end: parser.py:183-190
Terminator(last) == (IF last # "n" THEN <<"n">> ELSE <<>>) \o (IF Wrapped THEN <<"h">> ELSE <<>>)

\* ---------------------------------------------------------------- state
VARIABLES es, crlf, finalnl, K, mode,     \* the configuration (fixed by Init)
          file,
          pos, carry, finished,            \* mechanism state surviving between read_chunk calls
          temp, padded, pc,                \* state of the current call
          delivered, linesRead,            \* observables
          sizes, reads                     \* history: byte size of each delivered chunk, raw read sizes

cfgv == <<es, crlf, finalnl, K, mode, file>>
vars == <<es, crlf, finalnl, K, mode, file, pos, carry, finished, temp, padded, pc, delivered, linesRead, sizes, reads>>

Init == /\ es \in EntrySeqs /\ crlf \in BOOLEAN /\ finalnl \in BOOLEAN /\ mode \in Modes
        /\ file = FileOf(es, crlf, finalnl)
        /\ K \in 1..(Len(FileOf(es, crlf, finalnl)) + 2)
        /\ pos = 0 /\ carry = <<>> /\ finished = FALSE
        /\ temp = <<>> /\ padded = FALSE /\ pc = "start"
        /\ delivered = <<>> /\ linesRead = 0 /\ sizes = <<>> /\ reads = <<>>

Start == /\ pc = "start"
         /\ temp' = carry /\ padded' = FALSE /\ pc' = "read"
         /\ UNCHANGED <<cfgv, pos, carry, finished, delivered, linesRead, sizes, reads>>

AfterAppend(t) == IF ContainsCompleteEntry(t) THEN "cut" ELSE "read"

RawRead ==
  /\ pc = "read"
  /\ LET b   == SubSeq(file, pos + 1, Min2(pos + K, Len(file)))      \* file_obj.read(min_chunk_size)
         fin == Len(b) < K                                            \* parser.py:194
     IN /\ pos' = pos + Len(b) /\ finished' = fin /\ reads' = Append(reads, Len(b))
        /\ IF Len(b) = 0
           THEN IF AsBuilt \/ temp = <<>> \/ padded
                THEN pc' = "done" /\ UNCHANGED <<temp, padded>>        \* read_chunk returns None
                ELSE LET p == Terminator(temp[Len(temp)]) IN           \* repaired: pending bytes at EOF
                     IF p = <<>> THEN pc' = "done" /\ UNCHANGED <<temp, padded>>
                     ELSE temp' = temp \o p /\ padded' = TRUE /\ pc' = AfterAppend(temp \o p)
           ELSE LET t == temp \o (IF fin THEN b \o Terminator(b[Len(b)]) ELSE b) IN
                temp' = t /\ pc' = AfterAppend(t) /\ UNCHANGED padded
  /\ UNCHANGED <<cfgv, carry, delivered, linesRead, sizes>>

Cut ==
  /\ pc = "cut"
  /\ LET size == CutPoint(temp)
         out  == SubSeq(temp, 1, size)
     IN /\ delivered' = delivered \o out
        /\ linesRead' = linesRead + NL(out)
        /\ sizes' = Append(sizes, size)
        /\ IF ~finished
           THEN IF mode = "seek"
                THEN pos' = pos - (Len(temp) - size) /\ carry' = <<>>              \* parser.py:163
                ELSE carry' = SubSeq(temp, size + 1, Len(temp)) /\ pos' = pos      \* parser.py:165
           ELSE carry' = <<>> /\ pos' = pos
        /\ pc' = "start"
  /\ UNCHANGED <<cfgv, finished, temp, padded, reads>>

Next == Start \/ RawRead \/ Cut
Spec == Init /\ [][Next]_vars /\ WF_vars(Next)

\* ---------------------------------------------------------------- properties
IsPrefix(s, t) == Len(s) <= Len(t) /\ SubSeq(t, 1, Len(s)) = s
Norm == NormOf(file)

NoDupOrReorder == IsPrefix(delivered, Norm)
Complete       == pc = "done" => delivered = Norm
LinesCounted   == linesRead = NL(delivered)
\* between calls, what was delivered, what is carried and what is still unread make up the file
CarryIsSuffix  == (pc = "start" /\ ~finished) =>
                     delivered \o carry \o SubSeq(file, pos + 1, Len(file)) = file
\* every delivered chunk holds whole entries only
WholeEntries   == IF Wrapped THEN (delivered = <<>> \/ delivered[Len(delivered)] = "n")
                  ELSE NL(delivered) % E = 0 /\ (delivered = <<>> \/ delivered[Len(delivered)] = "n")
TypeOK == /\ pos \in 0..Len(file) /\ pc \in {"start", "read", "cut", "done"}
          /\ finished \in BOOLEAN /\ padded \in BOOLEAN
Terminates == <>(pc = "done")
\* the observables only grow (action property)
DeliveredGrows == [][IsPrefix(delivered, delivered') /\ linesRead' >= linesRead]_vars
==============================================================================
