------------------------------- MODULE MC_C06 -------------------------------
EXTENDS Encoding, Json
\* byte table of an alphabet: for every byte 0..255 its code, or -1 when it does not belong
ByteTable(A) == [b \in 1..256 |-> IF Member(A, b - 1) THEN CodeOf(A, b - 1) ELSE -1]
\* states of the value machine
Emit == PrintT(ToJson([kind |-> "value", text |-> text, enc |-> enc, codes |-> codes, status |-> status, hist |-> hist,
                       decoded |-> IF status = "ok" THEN Decode(enc, codes) ELSE <<>>]))
\* foreign-character vectors: a text over the alphabet with one foreign byte at every position
ForeignBytes(A) == ({b + 32 : b \in Chars(A)} \cup {b - 32 : b \in {x \in Chars(A) : x >= 32}} \cup {0, 10, 32, 64, 91, 96, 123, 127, 128, 255})
                   \ {b \in 0..255 : Member(A, b)}
EmitTables == TLCGet("distinct") >= 0 /\ \A A \in Names : PrintT(ToJson([kind |-> "table", enc |-> A, table |-> ByteTable(A),
                                                foreign |-> ForeignBytes(A) \cap (0..255)]))
==============================================================================
