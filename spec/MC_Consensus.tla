----------------------------- MODULE MC_Consensus -----------------------------
EXTENDS Consensus, Json
\* A C G T = 0 1 2 3
R1 == <<<<0, 1, 2, 3, 0, 1>>, <<2, 2, 3, 3>>>>            \* ACGTAC, GGTT
R2 == <<<<3>>, <<0, 0, 0>>, <<1, 2>>>>                     \* T, AAA, CG   (a one-letter contig; names c1, c11, c2 in the driver)
Emit == PrintT(ToJson([refs |-> Refs, variants |-> vars_, consensus |-> Consensus]))
==============================================================================
