------------------------------- MODULE MC_Motif -------------------------------
EXTENDS Motif, Json
\* A C G T = 65 67 71 84
Ord4 == {<<65, 67, 71, 84>>, <<84, 71, 67, 65>>, <<65, 67, 84, 71>>}
Ord2 == {<<65, 67>>, <<67, 65>>}
OrdAll == Ord4 \cup Ord2
Emit == PrintT(ToJson([order |-> order, e |-> e, jaspar |-> JasparText, csv |-> CsvText, weights |-> WeightRows]))
==============================================================================
