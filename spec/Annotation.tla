------------------------------- MODULE Annotation -------------------------------
(* Gene / transcript / exon tables from GTF and GFF entries (bionumpy/datatypes/gtf.py;        *)
(* specification growth beyond the listed properties, run by ./check EXT).                      *)
(* An entry has a feature type and an attribute list of <<key, value>> pairs.  get_genes()      *)
(* keeps the entries of type gene and gives each its gene_id; get_transcripts() the entries of  *)
(* type transcript with transcript_id and gene_id; get_exons() those of type exon with all      *)
(* three.  An attribute is found by its whole key: a key that merely ends in the wanted name    *)
(* (ref_gene_id) or an attribute of another entry must never be taken for it.                    *)
EXTENDS Integers, Sequences, FiniteSets, TLC

CONSTANTS MaxEntries

VARIABLES entries
vars == <<entries>>

\* keys: 1 gene_id, 2 transcript_id, 3 exon_id, 4 gene_name, 5 ref_gene_id      values: small tokens, concretised by the driver
Required(ft) == CASE ft = "gene" -> <<1>> [] ft = "transcript" -> <<1, 2>> [] ft = "exon" -> <<1, 2, 3>> [] OTHER -> <<1>>
Extras == {<<>>, <<<<4, 4>>>>, <<<<5, 5>>>>}            \* nothing, gene_name "a b", ref_gene_id "x"
Entries == {[ft |-> ft, attrs |-> (IF front THEN ex ELSE <<>>) \o [i \in DOMAIN Required(ft) |-> <<Required(ft)[i], vals[i]>>] \o (IF front THEN <<>> ELSE ex)] :
              ft \in {"gene", "transcript", "exon", "CDS"}, vals \in [1..3 -> {1, 2}], ex \in Extras, front \in BOOLEAN}

Init == entries = <<>>
Add(e) == Len(entries) < MaxEntries /\ entries' = Append(entries, e)
Next == \E e \in Entries : Add(e)
Spec == Init /\ [][Next]_vars

Attr(e, k) == LET hit == {i \in DOMAIN e.attrs : e.attrs[i][1] = k} IN e.attrs[CHOOSE i \in hit : TRUE][2]
OfType(ft) == LET F[i \in 0..Len(entries)] == IF i = 0 THEN <<>> ELSE IF entries[i].ft = ft THEN Append(F[i - 1], i) ELSE F[i - 1]
              IN F[Len(entries)]
Table(ft, keys) == [j \in DOMAIN OfType(ft) |-> [row |-> OfType(ft)[j], ids |-> [k \in DOMAIN keys |-> Attr(entries[OfType(ft)[j]], keys[k])]]]
Genes == Table("gene", <<1>>)
Transcripts == Table("transcript", <<2, 1>>)           \* transcript_id, gene_id
Exons == Table("exon", <<2, 1, 3>>)                    \* transcript_id, gene_id, exon_id

\* every selected entry has exactly one attribute with each wanted key (so Attr is well defined), and rows stay aligned
WellDefined == \A i \in DOMAIN entries : \A k \in {Required(entries[i].ft)[q] : q \in DOMAIN Required(entries[i].ft)} :
                  Cardinality({a \in DOMAIN entries[i].attrs : entries[i].attrs[a][1] = k}) = 1
Aligned == Len(Genes) + Len(Transcripts) + Len(Exons) <= Len(entries)
==============================================================================
