------------------------------- MODULE MC_C07 -------------------------------
EXTENDS CharArray, Json
AllArrays == Arrays
DeepStart == {<<<<0, 1>>, <<1>>, <<0, 0>>>>, <<<<1, 1>>, <<>>, <<0>>>>}
Emit == Len(prog) > 1 => PrintT(ToJson([prog |-> prog, obs |-> obs, pool |-> pool]))
==============================================================================
