------------------------------ MODULE MC_Regex ------------------------------
EXTENDS Regex, Json
\* letters: 1 = A, 2 = C, 3 = T (rendered by the driver)
PatSet == { <<Lit(1)>>,
            <<Lit(1), Lit(2)>>,
            <<Lit(1), Dot>>,
            <<Dot, Lit(2)>>,
            <<Cls({1, 3}), Dot, Cls({1, 2})>>,
            \* the same class twice: the two positions take their letters independently
            <<Cls({1, 2}), Lit(3), Cls({1, 2})>>,
            <<Cls({1, 3}), Cls({1, 3})>>,
            <<Lit(1), Lit(1), Gap(0, 1), Cls({2, 3})>>,
            <<Lit(1), Gap(1, 2), Lit(2)>>,
            \* something before the run of letters that precedes the gap, and two gaps
            <<Lit(1), Dot, Lit(2), Gap(0, 1), Lit(3)>>,
            <<Dot, Lit(1), Gap(1, 2), Lit(3)>>,
            <<Cls({1, 3}), Dot, Lit(3), Gap(0, 2), Lit(1)>>,
            <<Lit(1), Gap(1, 2), Lit(2), Gap(0, 1), Lit(3)>> }
PatSmall == { <<Lit(1), Dot>>, <<Cls({1, 2}), Lit(3), Cls({1, 2})>>, <<Cls({1, 3}), Cls({1, 3})>>, <<Cls({1, 3}), Dot, Cls({1, 2})>>, <<Lit(1), Gap(1, 2), Lit(2)>>, <<Lit(1), Lit(2)>>,
              <<Lit(1), Dot, Lit(2), Gap(0, 1), Lit(3)>>, <<Dot, Lit(1), Gap(1, 2), Lit(3)>>, <<Lit(1), Gap(1, 2), Lit(2), Gap(0, 1), Lit(3)>> }
Emit == PrintT(ToJson([rows |-> rows, pat |-> [j \in DOMAIN pat |-> [kind |-> pat[j].kind, c |-> pat[j].c, set |-> pat[j].set, lo |-> pat[j].lo, hi |-> pat[j].hi]],
                       result |-> Result(rows, pat)]))
==============================================================================
