------------------------------- MODULE MC_C17 -------------------------------
EXTENDS Faidx, Json
Emit == (last.op = "open" /\ gen = 0) =>
          PrintT(ToJson([recs |-> recs, finalnl |-> FinalNL, blankend |-> BlankEnd, crlf |-> CRLF, flen |-> Len(File(recs)),
                         index |-> [r \in DOMAIN recs |-> IndexRow(recs, r)]]))
==============================================================================
