------------------------------ MODULE Trace_C01 ------------------------------
(* Binding B for C01/C15/C16: recorded executions of the real chunked reader (one event per  *)
(* read_chunk return: Deliver(ids, intact, lines), and a final Stop or Fail) are validated   *)
(* against the L0 guards of ChunkL0.tla.  One TLC step consumes one event; a rejected event  *)
(* is printed with the failing clause and validation continues with the next trace.          *)
EXTENDS Integers, Sequences, TLC, TLCExt, Json, IOUtils

L0 == INSTANCE ChunkL0 WITH N <- 0, EntryLines <- <<>>, K <- 0, MaxEntryLen <- 0,
                            next <- 0, lines <- 0, status <- ""

Traces == JsonDeserialize(IOEnv.TRACE_FILE)

VARIABLES t, l, nxt, lns
vars == <<t, l, nxt, lns>>

Init == t = 1 /\ l = 1 /\ nxt = 1 /\ lns = 0 /\ TLCSet(1, 0)

Tr == Traces[t]
Ev == Tr.events[l]

NextTrace == t' = t + 1 /\ l' = 1 /\ nxt' = 1 /\ lns' = 0
Reject(clause) == PrintT(<<"REJECT", Tr.tid, l, clause>>) /\ NextTrace
Accept == TLCSet(1, TLCGet(1) + 1) /\ NextTrace

DeliverClause == IF ~L0!CanDeliver(nxt, Tr.n, Ev.ids) THEN "Deliver: not the next entries in order"
                 ELSE IF Tr.bad > 0 /\ nxt + Len(Ev.ids) - 1 >= Tr.bad THEN "Deliver: a table was yielded from malformed data"
                 ELSE IF ~Ev.intact THEN "Deliver: an entry differs from the file's"
                 ELSE "ok"

\* The reader's line counter is mechanism state (it only becomes observable through the line numbers of
\* format errors, property C15): a mismatch is reported as drift, never as a rejection.
LinesAgree == Ev.lines = lns + L0!SumLines(Tr.entryLines, nxt, nxt + Len(Ev.ids) - 1)

Step == /\ t <= Len(Traces)
        /\ IF l > Len(Tr.events) THEN Reject("trace ends without Stop or Fail")
           ELSE CASE Ev.ev = "Deliver" ->
                       IF DeliverClause = "ok"
                       THEN /\ (LinesAgree \/ PrintT(<<"DRIFT", Tr.tid, l, "line counter">>))
                            /\ nxt' = nxt + Len(Ev.ids) /\ lns' = Ev.lines /\ l' = l + 1 /\ t' = t
                       ELSE Reject(DeliverClause)
                  [] Ev.ev = "Count" ->          \* count_entries(file): the number of entries of the file, whatever the chunking
                       IF Ev.n = Tr.n THEN nxt' = nxt /\ lns' = lns /\ l' = l + 1 /\ t' = t
                       ELSE Reject("Count: count_entries differs from the number of entries of the file")
                  [] Ev.ev = "Stop" ->
                       IF Tr.bad > 0 THEN Reject("Stop: malformed input read to the end without an error")
                       ELSE IF L0!CanStop(nxt, Tr.n) THEN Accept ELSE Reject("Stop: entries undelivered")
                  [] Ev.ev = "Error" ->
                       IF ~L0!CanError(nxt, Tr.bad) THEN Reject("Error: nothing is wrong with the data read so far")
                       ELSE IF Ev.diagnosed /\ ~L0!LineInEntry(Tr.entryLines, Tr.bad, Ev.line)
                            THEN Reject("Error: reported line is not a line of the offending record")
                       ELSE Accept
                  [] Ev.ev = "Fail" ->
                       IF L0!CanFail(Tr.K, Tr.maxlen) THEN Accept
                       ELSE Reject("Fail: error although the chunk size holds every entry")
                  [] OTHER -> Reject("unknown event")

Next == Step
Post == PrintT(<<"ACCEPTED", TLCGet(1)>>)
==============================================================================
