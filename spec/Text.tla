-------------------------------- MODULE Text --------------------------------
(* Bytes, lines and fields (used by Formats.tla and Writer.tla for C02, C03).                *)
(* Text is a sequence of byte codes 0..255.                                                  *)
EXTENDS Integers, Sequences, FiniteSets

LF == 10
CR == 13
TAB == 9
COMMA == 44
SEMI == 59
EQUALS == 61
DOT == 46
MINUS == 45
PLUS == 43
HASH == 35
GT == 62
AT == 64
SPACE == 32
LOWER_E == 101
COLON == 58

\* split s on byte sep: sequence of (possibly empty) pieces; n separators give n+1 pieces
SplitOn(s, sep) ==
  LET idx == {i \in DOMAIN s : s[i] = sep}
      RECURSIVE Pieces(_)
      \* pieces of s starting at position from (1-based)
      Pieces(from) == LET nxt == {i \in idx : i >= from} IN
                      IF nxt = {} THEN <<SubSeq(s, from, Len(s))>>
                      ELSE LET j == CHOOSE i \in nxt : \A k \in nxt : i <= k
                           IN <<SubSeq(s, from, j - 1)>> \o Pieces(j + 1)
  IN Pieces(1)

StripCR(l) == IF l # <<>> /\ l[Len(l)] = CR THEN SubSeq(l, 1, Len(l) - 1) ELSE l
\* the lines of a text: a final newline terminates the last line (it does not start an empty one); CR before LF is dropped
Lines(t) == IF t = <<>> THEN <<>>
            ELSE LET p == SplitOn(t, LF)
                     q == IF t[Len(t)] = LF THEN SubSeq(p, 1, Len(p) - 1) ELSE p
                 IN [i \in DOMAIN q |-> StripCR(q[i])]

SelectSeq2(s, Keep(_)) == LET F[i \in 0..Len(s)] == IF i = 0 THEN <<>> ELSE IF Keep(s[i]) THEN Append(F[i - 1], s[i]) ELSE F[i - 1]
                          IN F[Len(s)]

IsDigit(b) == b >= 48 /\ b <= 57
\* value of an unsigned digit string (must stay below 2^31: larger numbers are the subject of C18)
RECURSIVE DigitsValue(_)
DigitsValue(d) == IF d = <<>> THEN 0 ELSE 10 * DigitsValue(SubSeq(d, 1, Len(d) - 1)) + (d[Len(d)] - 48)
\* decimal integer text: optional sign, digits (leading zeros allowed)
IntValue(t) == IF t[1] = MINUS THEN -DigitsValue(Tail(t))
               ELSE IF t[1] = PLUS THEN DigitsValue(Tail(t)) ELSE DigitsValue(t)
IsIntText(t) == LET d == IF t # <<>> /\ t[1] \in {MINUS, PLUS} THEN Tail(t) ELSE t IN d # <<>> /\ \A i \in DOMAIN d : IsDigit(d[i])

Pow10(n) == LET RECURSIVE P(_)
                P(k) == IF k = 0 THEN 1 ELSE 10 * P(k - 1)
            IN P(n)
\* decimal / lower-case scientific float text as an exact rational <<numerator, denominator>> (denominator a power of ten)
FloatValue(t) ==
  LET neg  == t[1] = MINUS
      u    == IF t[1] \in {MINUS, PLUS} THEN Tail(t) ELSE t
      ep   == {i \in DOMAIN u : u[i] = LOWER_E}
      mant == IF ep = {} THEN u ELSE SubSeq(u, 1, (CHOOSE i \in ep : TRUE) - 1)
      expo == IF ep = {} THEN 0 ELSE IntValue(SubSeq(u, (CHOOSE i \in ep : TRUE) + 1, Len(u)))
      dp   == {i \in DOMAIN mant : mant[i] = DOT}
      ip   == IF dp = {} THEN mant ELSE SubSeq(mant, 1, (CHOOSE i \in dp : TRUE) - 1)
      fp   == IF dp = {} THEN <<>> ELSE SubSeq(mant, (CHOOSE i \in dp : TRUE) + 1, Len(mant))
      num  == DigitsValue(ip \o fp)
      sc   == expo - Len(fp)                     \* value = num * 10^sc
      n2   == IF sc >= 0 THEN num * Pow10(sc) ELSE num
      d2   == IF sc >= 0 THEN 1 ELSE Pow10(-sc)
  IN <<IF neg THEN -n2 ELSE n2, d2>>

\* canonical decimal text of an integer
RECURSIVE NatText(_)
NatText(n) == IF n < 10 THEN <<48 + n>> ELSE NatText(n \div 10) \o <<48 + (n % 10)>>
IntText(n) == IF n < 0 THEN <<MINUS>> \o NatText(-n) ELSE NatText(n)

RECURSIVE JoinWith(_, _)
JoinWith(pieces, sep) == IF pieces = <<>> THEN <<>>
                         ELSE IF Len(pieces) = 1 THEN pieces[1] ELSE pieces[1] \o <<sep>> \o JoinWith(Tail(pieces), sep)
RECURSIVE Concat(_)
Concat(ss) == IF ss = <<>> THEN <<>> ELSE Head(ss) \o Concat(Tail(ss))
==============================================================================
