------------------------------- MODULE ChunkL0 -------------------------------
(* L0 of chunked reading: the meaning C01 states.  A reader of a file with N entries        *)
(* delivers non-empty runs of the next undelivered entries, unchanged, and may stop only    *)
(* when all are delivered.  It may fail only under the escape clause: the chunk size is     *)
(* smaller than the largest entry.  The line counter (needed by C15) always equals the      *)
(* number of lines of the entries delivered so far.                                         *)
EXTENDS Integers, Sequences

\* guards, shared by the abstract actions below and by the trace specification
CanDeliver(next, N, ids) == /\ ids # <<>>
                            /\ next + Len(ids) - 1 <= N
                            /\ \A k \in 1..Len(ids) : ids[k] = next + k - 1
CanStop(next, N)         == next = N + 1
CanFail(K, maxEntryLen)  == K < maxEntryLen
\* C15: a file whose entry `bad` violates the format (bad = 0: well-formed).  A format error may only be raised
\* while the offending entry is still undelivered, and a diagnosed line number lies within that entry's lines
\* (zero-based, counted from the start of the data)
RECURSIVE FirstLineOf(_, _)
FirstLineOf(entryLines, e) == IF e <= 1 THEN 0 ELSE entryLines[e - 1] + FirstLineOf(entryLines, e - 1)
CanError(next, bad) == bad > 0 /\ next <= bad
LineInEntry(entryLines, bad, line) == line >= FirstLineOf(entryLines, bad) /\ line < FirstLineOf(entryLines, bad) + entryLines[bad]

RECURSIVE SumLines(_, _, _)
SumLines(entryLines, from, to) == IF from > to THEN 0 ELSE entryLines[from] + SumLines(entryLines, from + 1, to)

CONSTANTS N, EntryLines, K, MaxEntryLen
VARIABLES next, lines, status
vars == <<next, lines, status>>

Init == next = 1 /\ lines = 0 /\ status = "reading"
Deliver(m) == /\ status = "reading" /\ CanDeliver(next, N, [k \in 1..m |-> next + k - 1])
              /\ next' = next + m /\ lines' = lines + SumLines(EntryLines, next, next + m - 1)
              /\ UNCHANGED status
Stop == status = "reading" /\ CanStop(next, N) /\ status' = "stopped" /\ UNCHANGED <<next, lines>>
Fail == status = "reading" /\ CanFail(K, MaxEntryLen) /\ status' = "failed" /\ UNCHANGED <<next, lines>>
Next == (\E m \in 1..N : Deliver(m)) \/ Stop \/ Fail
Spec == Init /\ [][Next]_vars

\* what the property says, as invariants of L0 (trivially true of L0; the content is in the guards)
NothingLost == status = "stopped" => next = N + 1
LinesOK     == lines = SumLines(EntryLines, 1, next - 1)
==============================================================================
