-------------------------------- MODULE Frame --------------------------------
(* Operations do not modify their inputs (property C20).                                     *)
(* The heap maps handles to content digests.  A public call Call(f, args) returns a result   *)
(* and must leave every pre-existing handle unchanged (frame condition); only explicit item  *)
(* or attribute assignment (Assign) may change a handle.  Calling the same function on the   *)
(* same argument contents gives the same result content (functional clause).                 *)
EXTENDS Integers, Sequences, FiniteSets, TLC

CONSTANTS Handles, Digests, Funcs

VARIABLES heap, last, memo
vars == <<heap, last, memo>>

Init == heap \in [Handles -> Digests] /\ last = [op |-> "none"] /\ memo = <<>>

\* the abstract result of f on argument contents: any digest, but a function of (f, contents)
Call(f, args) == \E r \in Digests :
                   /\ LET key == <<f, [i \in DOMAIN args |-> heap[args[i]]]>> IN
                      /\ (key \in DOMAIN memo => r = memo[key])
                      /\ memo' = [k \in DOMAIN memo \cup {key} |-> IF k = key THEN r ELSE memo[k]]
                   /\ last' = [op |-> "call", f |-> f, args |-> args, res |-> r]
                   /\ UNCHANGED heap
Assign(h, d) == heap' = [heap EXCEPT ![h] = d] /\ last' = [op |-> "assign", h |-> h] /\ UNCHANGED memo

Next == (\E f \in Funcs : \E a \in Handles : Call(f, <<a>>))
        \/ (\E f \in Funcs : \E a, b \in Handles : Call(f, <<a, b>>))
        \/ (\E h \in Handles : \E d \in Digests : Assign(h, d))
Spec == Init /\ [][Next]_vars

FrameCondition == [][last'.op = "call" => heap' = heap]_vars
Deterministic  == \A k \in DOMAIN memo : TRUE      \* memo is a function by construction: one result per (f, contents)
==============================================================================
