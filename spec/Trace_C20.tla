------------------------------ MODULE Trace_C20 ------------------------------
(* Binding B for C20: one event per call of a public bionumpy function made by the harness:   *)
(* digests of every argument before and after the call, digests of the results of two calls   *)
(* on the same arguments and, for chunks read lazily from a file, the bytes the chunk would   *)
(* write before and after its fields were inspected.  An event is a behaviour step of         *)
(* Frame.tla iff the heap is unchanged (FrameCondition) and the result is a function of the   *)
(* argument contents.                                                                          *)
EXTENDS Integers, Sequences, TLC, TLCExt, Json, IOUtils
Traces == JsonDeserialize(IOEnv.TRACE_FILE)
VARIABLE i
Init == i = 1 /\ TLCSet(1, 0)
Clause(t) == IF t.before # t.after THEN "argument changed"
             ELSE IF t.res1 # t.res2 THEN "second call gives a different result"
             ELSE "ok"
Next == /\ i <= Len(Traces)
        /\ IF Clause(Traces[i]) = "ok" THEN TLCSet(1, TLCGet(1) + 1) ELSE PrintT(<<"REJECT", Traces[i].tid, Clause(Traces[i])>>)
        /\ i' = i + 1
Post == PrintT(<<"ACCEPTED", TLCGet(1)>>)
==============================================================================
