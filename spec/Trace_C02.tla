------------------------------ MODULE Trace_C02 ------------------------------
(* Binding B for C02: files generated from a per-format grammar are read by the implementation;  *)
(* the observed entries and the file text are given to TLC, which decides whether the entries   *)
(* are the ones Formats.tla assigns to the text.  Floats are compared as exact rationals.       *)
EXTENDS Formats, TLCExt, Json, IOUtils
Traces == JsonDeserialize(IOEnv.TRACE_FILE)
VARIABLE i
Init == i = 1 /\ TLCSet(1, 0)
KindsOf(fmt) == IF fmt \in {"fasta", "fastq"} THEN <<>> ELSE SelectSeq2(Kinds[fmt], LAMBDA k : k # "skip")
CellEq(kind, o, s) == CASE kind = "float" -> o[1] * s[2] = s[1] * o[2]
                        [] kind = "optint" -> IF s[1] = "missing" THEN o = <<"int", 0>> \/ o = s ELSE o = s
                        [] OTHER -> o = s
RowEq(fmt, o, s) == IF fmt \in {"fasta", "fastq"} THEN o = s
                    ELSE Len(o) = Len(s) /\ \A c \in DOMAIN s : CellEq(KindsOf(fmt)[c], o[c], s[c])
Ok(t) == LET want == Parse(t.fmt, t.text) IN Len(t.obs) = Len(want) /\ \A r \in DOMAIN want : RowEq(t.fmt, t.obs[r], want[r])
FirstBad(t) == LET want == Parse(t.fmt, t.text) IN
               IF Len(t.obs) # Len(want) THEN <<"count", Len(t.obs), Len(want)>>
               ELSE LET r == CHOOSE r \in DOMAIN want : ~RowEq(t.fmt, t.obs[r], want[r]) IN <<"row", r>>
Next == /\ i <= Len(Traces)
        /\ IF Ok(Traces[i]) THEN TLCSet(1, TLCGet(1) + 1) ELSE PrintT(<<"REJECT", Traces[i].tid, FirstBad(Traces[i])>>)
        /\ i' = i + 1
Post == PrintT(<<"ACCEPTED", TLCGet(1)>>)
==============================================================================
