------------------------------- MODULE MC_C03 -------------------------------
EXTENDS Writer, Json
Emit == (done = Len(rows) /\ pieces # <<>> /\ pieces[Len(pieces)] >= 0) =>
          PrintT(ToJson([fmt |-> Fmt, picks |-> rows, table |-> Table(rows), pieces |-> pieces, header |-> WithHeader, width |-> Width,
                         bytes |-> file]))
==============================================================================
