------------------------------- MODULE MC_C13 -------------------------------
(* The collection grows one letter or one (empty) row at a time, so every ragged list with   *)
(* at most NRows rows of at most MaxLen letters over Letters is a reachable state, including  *)
(* empty rows, rows of length w-1, w, w+1 and a short last row.                               *)
EXTENDS Windows, TLC, Json
CONSTANTS NRows, MaxLen, W, Letters
VARIABLES rows
vars == <<rows>>
Init == rows = <<<<>>>>
NewRow == Len(rows) < NRows /\ rows' = Append(rows, <<>>)
AddLetter(c) == /\ Len(rows[Len(rows)]) < MaxLen
                /\ rows' = [rows EXCEPT ![Len(rows)] = Append(@, c)]
Next == NewRow \/ \E c \in Letters : AddLetter(c)
Spec == Init /\ [][Next]_vars

Pat(w) == [j \in 1..w |-> IF j % 2 = 1 THEN 1 ELSE 0]            \* pattern 1,0,1,0,...
Mat(w) == [l \in 1..2 |-> [p \in 1..w |-> ((l * 3 + p * p) % 7) - 2]]   \* small signed integer motif matrix
Mat0(w) == [l \in 1..2 |-> [p \in 1..w |-> IF p = 2 THEN 0 ELSE Mat(w)[l][p]]]

\* a motif given as probabilities with an explicit background: probability of letter l at position p is 2^-PExp, the background
\* probability of letter l is 2^-BExp[l]; the score of a letter is log(probability / background OF THAT LETTER) = (BExp - PExp) ln 2
PExp(w) == [l \in 1..2 |-> [p \in 1..w |-> (l + p) % 3]]
BExp == <<1, 3>>
LogOdds(w) == [l \in 1..2 |-> [p \in 1..w |-> BExp[l] - PExp(w)[l][p]]]
\* a motif given as counts per letter and position (PWM.from_counts): count + 1 of letter l at position p is 2^PExp, and the counts of
\* the other letters bring every column total (with the pseudo counts) to 2^4; the score of a letter is log((count + 1) / total)
CountLog(w) == [l \in 1..2 |-> [p \in 1..w |-> PExp(w)[l][p] - 4]]

\* --- design invariants (row locality and window counts), checked on every state
RowLocal == \A k \in 1..W : \A j \in DOMAIN rows :
               /\ Kmers(rows, k)[j] = Kmers(<<rows[j]>>, k)[1]
               /\ Match(rows, Pat(k))[j] = Match(<<rows[j]>>, Pat(k))[1]
               /\ \A w \in k..W : Minimizers(rows, k, w)[j] = Minimizers(<<rows[j]>>, k, w)[1]
WindowCount == \A w \in 1..W : \A j \in DOMAIN rows : Len(Kmers(rows, w)[j]) = NWin(rows[j], w)
CountsSum == \A k \in 1..W : LET c == Counts(rows, k)
                                 RECURSIVE Sum(_)
                                 Sum(S) == IF S = {} THEN 0 ELSE LET x == CHOOSE x \in S : TRUE IN x[2] + Sum(S \ {x})
                             IN Sum(c) = TotalWindows(rows, k)
\* counting is additive over the rows: the collection repeated m times has m times the counts (this lets a small state stand for an
\* input of millions of windows)
RepRows(m) == [q \in 1..(m * Len(rows)) |-> rows[((q - 1) % Len(rows)) + 1]]
CountsOfRepeat == \A k \in 1..W : \A m \in {2, 3} :
                     rows # <<>> => Counts(RepRows(m), k) = {<<c[1], m * c[2]>> : c \in Counts(rows, k)}
\* the index lists exactly the rows in which the k-mer is counted at least once
IndexAgreesWithCounts == \A k \in 1..W : \A e \in Index(rows, k) :
                            e[2] = {j \in DOMAIN rows : \E c \in Counts(<<rows[j]>>, k) : c[1] = e[1]} /\ e[2] # {}
MinimizerIsAKmer == \A k \in 1..W : \A w \in k..W : \A j \in DOMAIN rows : \A i \in 1..NWin(rows[j], w) :
                       \E q \in i..(i + w - k) : Minimizers(rows, k, w)[j][i] = Window(rows[j], q, k)
\* action property: extending the last row never changes what the earlier rows yield, and only appends to its own
Local == [][\A k \in 1..W : \A j \in 1..(Len(rows) - 1) : Kmers(rows', k)[j] = Kmers(rows, k)[j]]_vars

Emit == PrintT(ToJson([rows |-> rows,
                       kmers |-> [k \in 1..W |-> Kmers(rows, k)],
                       match |-> [k \in 1..W |-> Match(rows, Pat(k))],
                       pats  |-> [k \in 1..W |-> Pat(k)],
                       scores |-> [k \in 1..W |-> Scores(rows, Mat(k), k)],
                       mats  |-> [k \in 1..W |-> Mat(k)],
                       \* the same motif with a neutral second position (every letter scores 0 there)
                       mats0 |-> [k \in 1..W |-> Mat0(k)],
                       scores0 |-> [k \in 1..W |-> Scores(rows, Mat0(k), k)],
                       pexp |-> [k \in 1..W |-> PExp(k)], bexp |-> BExp,
                       scoresLO |-> [k \in 1..W |-> Scores(rows, LogOdds(k), k)],
                       scoresFC |-> [k \in 1..W |-> Scores(rows, CountLog(k), k)],
                       minim |-> [k \in 1..W |-> [w \in 1..W |-> IF w >= k THEN Minimizers(rows, k, w) ELSE <<>>]],
                       index |-> [k \in 1..W |-> Index(rows, k)],
                       rowcounts |-> [k \in 1..W |-> RowCounts(rows, k)],
                       counts |-> [k \in 1..W |-> Counts(rows, k)]]))
==============================================================================
