-------------------------------- MODULE Faidx --------------------------------
(* Indexed FASTA random access (property C17).                                               *)
(* A file is a sequence of records; record r has a header of hdr[r] bytes (without '>' and   *)
(* newline), L[r] bases wrapped at W[r] bases per line.  Bytes are tokens: <<"h", r>> header *)
(* bytes, "nl", and <<"b", r, p>> = base p (0-based) of record r.                            *)
(* Meaning: the index row of r is (L, offset of base 0, W, W+1); fetching [a, b) of r gives  *)
(* bases a..b-1.  Mechanism (L1): the row/modulo byte arithmetic and newline deletion of     *)
(* bionumpy/io/indexed_fasta.py:132-206.                                                     *)
EXTENDS Integers, Sequences, FiniteSets, TLC

CONSTANTS MaxRecs, MaxL, MaxW, FinalNL,
          MaxFetch,     \* intervals fetched one after the other in one batch
          CRLF,         \* lines end in CR LF (two bytes) instead of LF
          BlankEnd      \* an empty line after the last record (a file that ends in two newlines)

Rep(x, n) == [i \in 1..n |-> x]
EOL == IF CRLF THEN <<<<"cr">>, <<"nl">>>> ELSE <<<<"nl">>>>
RECURSIVE SeqLines(_, _, _, _)
SeqLines(r, L, W, p) == IF p >= L THEN <<>>
                        ELSE [i \in 1..(IF L - p < W THEN L - p ELSE W) |-> <<"b", r, p + i - 1>>] \o EOL
                             \o SeqLines(r, L, W, p + W)
RecordBytes(r, rec) == <<<<"gt">>>> \o Rep(<<"h", r>>, rec.hdr) \o EOL \o SeqLines(r, rec.L, rec.W, 0)
RECURSIVE FileBytes(_, _)
FileBytes(recs, r) == IF r > Len(recs) THEN <<>> ELSE RecordBytes(r, recs[r]) \o FileBytes(recs, r + 1)
File(recs) == LET f == FileBytes(recs, 1) IN IF FinalNL THEN (IF BlankEnd THEN f \o EOL ELSE f) ELSE SubSeq(f, 1, Len(f) - Len(EOL))

\* ---- L0: the index and the substring
OffsetOf(recs, r) == CHOOSE o \in 0..Len(File(recs)) : File(recs)[o + 1] = <<"b", r, 0>>
IndexRow(recs, r) == [length |-> recs[r].L, offset |-> OffsetOf(recs, r), lenc |-> recs[r].W, lenb |-> recs[r].W + Len(EOL)]
Substring(r, a, b) == [i \in 1..(b - a) |-> <<"b", r, a + i - 1>>]

\* the same offsets by arithmetic on the record descriptors alone (no bytes): usable for files of any size;
\* TLC checks OffsetsAgree against the byte-level definition on every small configuration
RecSize(rec) == 1 + rec.hdr + Len(EOL) + rec.L + Len(EOL) * ((rec.L + rec.W - 1) \div rec.W)        \* '>' header line end, bases, one line end per line
RECURSIVE SizeBefore(_, _)
SizeBefore(rs, r) == IF r = 1 THEN 0 ELSE SizeBefore(rs, r - 1) + RecSize(rs[r - 1])
OffsetArith(rs, r) == SizeBefore(rs, r) + 1 + rs[r].hdr + Len(EOL)
IndexRowArith(rs, r) == [length |-> rs[r].L, offset |-> OffsetArith(rs, r), lenc |-> rs[r].W, lenb |-> rs[r].W + Len(EOL)]

\* ---- L1: byte arithmetic of get_interval_sequences (:176-200) and _get_interval_sequences_fast (:132-160)
Read(f, from, n) == SubSeq(f, from + 1, IF from + n <= Len(f) THEN from + n ELSE Len(f))     \* seek + read
DeleteAt(s, D) == LET keep == {i \in DOMAIN s : (i - 1) \notin D}
                      RECURSIVE Build(_)
                      Build(i) == IF i > Len(s) THEN <<>> ELSE (IF i \in keep THEN <<s[i]>> ELSE <<>>) \o Build(i + 1)
                  IN Build(1)
FetchL1(recs, r, a, b) ==
  LET row     == IndexRow(recs, r)
      lenc    == row.lenc
      lenb    == row.lenb
      srow    == a \div lenc
      smod    == a % lenc
      soff    == srow * lenb + smod
      trow    == b \div lenc
      toff    == trow * lenb + (b % lenc)
      raw     == Read(File(recs), row.offset + soff, toff - soff)
      dels    == {lenb * (j + 1) - 1 - smod : j \in 0..(trow - srow - 1)}
  IN IF \E d \in dels : d >= Len(raw) THEN <<"IndexError">>          \* np.delete with an index out of bounds
     ELSE DeleteAt(raw, dels)
\* whole contig, __getitem__ (:101-123)
WholeL1(recs, r) ==
  LET row  == IndexRow(recs, r)
      n    == (row.length + row.lenc - 1) \div row.lenc
      nb   == (n - 1) * row.lenb + (row.length - (n - 1) * row.lenc)
      raw  == Read(File(recs), row.offset, nb)
      dels == {k \in 0..(Len(raw) - 1) : k % row.lenb >= row.lenc}
  IN DeleteAt(raw, dels)

\* where the handle is put and how much is read for [a, b) of record r (the seek and the read of :190-197)
FetchPlan(recs, r, a, b) ==
  LET row == IndexRow(recs, r)
      soff == (a \div row.lenc) * row.lenb + (a % row.lenc)
      toff == (b \div row.lenc) * row.lenb + (b % row.lenc)
  IN [from |-> row.offset + soff, n |-> toff - soff]

\* ---- state machine: open a file, fetch a batch of intervals one after the other through ONE file handle,
\* and (once) replace the file under the same path and open it again.
Recs == UNION {[1..n -> [hdr : {2, 7}, L : 1..MaxL, W : 1..MaxW]] : n \in 1..MaxRecs}
VARIABLES recs, last,
          pos,          \* position of the object's file handle
          nf,           \* fetches done in the current batch
          gen           \* 0 = the first file under this path, 1 = its replacement
vars == <<recs, last, pos, nf, gen>>
Init == recs \in Recs /\ last = [op |-> "open"] /\ pos = 0 /\ nf = 0 /\ gen = 0
Min2(x, y) == IF x < y THEN x ELSE y
\* every fetch positions the handle itself: the result does not depend on where the previous fetch left it
Fetch(r, a, b) == /\ last.op \in {"open", "fetch"} /\ nf < MaxFetch
                  /\ LET p == FetchPlan(recs, r, a, b) IN
                     /\ last' = [op |-> "fetch", r |-> r, a |-> a, b |-> b, from |-> p.from, got |-> FetchL1(recs, r, a, b)]
                     /\ pos' = Min2(p.from + p.n, Len(File(recs)))
                  /\ nf' = nf + 1 /\ UNCHANGED <<recs, gen>>
Whole(r) == /\ last.op = "open" /\ last' = [op |-> "whole", r |-> r, got |-> WholeL1(recs, r)]
            /\ pos' = IndexRow(recs, r).offset /\ UNCHANGED <<recs, nf, gen>>
WholeAny == \E r \in DOMAIN recs : Whole(r)
FetchAny == \E r \in DOMAIN recs : \E a \in 0..(recs[r].L - 1) : \E b \in (a + 1)..recs[r].L : Fetch(r, a, b)
\* the file is replaced by another one under the same path and indexed again: a deterministic other file
\* (records in reverse order, line width moved on) so that the scope stays small; the index is a function of the
\* CURRENT file (IndexRow(recs, .)), nothing of the first one survives
Other(rs) == [k \in DOMAIN rs |-> [rs[Len(rs) + 1 - k] EXCEPT !.W = (@ % MaxW) + 1, !.L = (@ % MaxL) + 1]]
Replace == /\ gen = 0 /\ last.op = "whole" /\ last.r = 1
           /\ recs' = Other(recs) /\ last' = [op |-> "open"] /\ pos' = 0 /\ nf' = 0 /\ gen' = 1
Next == WholeAny \/ FetchAny \/ Replace
Spec == Init /\ [][Next]_vars

OffsetsAgree == \A r \in DOMAIN recs : IndexRowArith(recs, r) = IndexRow(recs, r)
WholeCorrect == last.op = "whole" => last.got = Substring(last.r, 0, recs[last.r].L)
FetchCorrect == /\ last.op = "fetch" => last.got = Substring(last.r, last.a, last.b)
                /\ WholeCorrect
\* a fetch starts where its own plan says, wherever the handle was
SeeksItself == last.op = "fetch" => last.from = FetchPlan(recs, last.r, last.a, last.b).from
\* the property restricted to what can be fetched without touching the unterminated end of the file
FetchCorrectUnlessAtRaggedEnd ==
   (last.op = "fetch" /\ ~(~FinalNL /\ last.r = Len(recs) /\ last.b = recs[last.r].L /\ last.b % recs[last.r].W = 0))
      => last.got = Substring(last.r, last.a, last.b)
==============================================================================
