------------------------------ MODULE CharArray ------------------------------
(* Encoded (ragged) arrays behave like NumPy arrays of characters (property C07).            *)
(* An array is a sequence of rows, a row a sequence of symbols; its meaning is the Python    *)
(* list of strings.  The state is a pool of arrays; operations create arrays from arrays (so *)
(* views of views occur) or assign into one.  `obs` is what the last operation returns.      *)
EXTENDS Integers, Sequences, FiniteSets, TLC

CONSTANTS Symbols, MaxRows, MaxLen, MaxPool, MaxDepth,
          Ops,            \* operation alphabet of this run
          StartArrays,    \* the arrays a program may start from
          Matrix          \* the arrays are rectangular character matrices (2-D): columns may also be picked by an index list or a mask

RECURSIVE Strs(_)
Strs(n) == IF n = 0 THEN {<<>>} ELSE LET R == Strs(n - 1) IN R \cup {Append(r, x) : r \in {q \in R : Len(q) = n - 1}, x \in Symbols}
Rows == Strs(MaxLen)
Arrays == UNION {[1..n -> Rows] : n \in 0..MaxRows}

\* NumPy-style row selections of an array with n rows -> sequence of row positions
RowIdx(kind, n) ==
  CASE kind = "1:"    -> [j \in 1..(IF n > 0 THEN n - 1 ELSE 0) |-> j + 1]
    [] kind = "::2"   -> [j \in 1..((n + 1) \div 2) |-> 2 * j - 1]
    [] kind = "::-1"  -> [j \in 1..n |-> n + 1 - j]
    [] kind \in {"mask", "listmask"} -> [j \in 1..(n \div 2) |-> 2 * j]          \* [False, True, False, ...] as a NumPy array / as a plain Python list
    [] kind = "fancy" -> IF n = 0 THEN <<>> ELSE <<n, 1, 1>>      \* [-1, 0, 0]
    [] kind = "0:0"   -> <<>>
\* column selections applied to every row
ColSel(kind, r) ==
  CASE kind = "1:"   -> SubSeq(r, 2, Len(r))
    [] kind = "::-1" -> [j \in DOMAIN r |-> r[Len(r) + 1 - j]]
    [] kind = ":-1"  -> SubSeq(r, 1, Len(r) - 1)
    [] kind = "0:1"  -> SubSeq(r, 1, IF Len(r) >= 1 THEN 1 ELSE 0)
    [] kind = "cfancy" -> IF r = <<>> THEN <<>> ELSE <<r[Len(r)], r[1]>>                     \* [:, [-1, 0]]
    [] kind = "cmask"  -> [j \in 1..((Len(r) + 1) \div 2) |-> r[2 * j - 1]]               \* [:, [True, False, True, ...]]
RECURSIVE Flat(_)
Flat(a) == IF a = <<>> THEN <<>> ELSE Head(a) \o Flat(Tail(a))

VARIABLES pool, prog, obs
vars == <<pool, prog, obs>>

\* the program remembers what it was created from (the first array of the pool may be assigned to later)
Init == \E a \in StartArrays : pool = <<a>> /\ prog = <<[op |-> "create", start |-> a]>> /\ obs = [kind |-> "none"]

Room == Len(pool) < MaxPool /\ Len(prog) < MaxDepth
CanDo == Len(prog) < MaxDepth
New(a, op, o) == pool' = Append(pool, a) /\ prog' = Append(prog, op) /\ obs' = o
Same(op, o) == prog' = Append(prog, op) /\ obs' = o /\ UNCHANGED pool

RowSelect == "rows" \in Ops /\ \E i \in DOMAIN pool : \E kind \in {"1:", "::2", "::-1", "mask", "listmask", "fancy", "0:0"} :
               Room /\ LET a == pool[i] IN LET idx == RowIdx(kind, Len(a)) IN
               New([j \in DOMAIN idx |-> a[idx[j]]], [op |-> "rows", t |-> i, sel |-> kind], [kind |-> "array"])
ColSelect == "cols" \in Ops /\ \E i \in DOMAIN pool : \E kind \in {"1:", "::-1", ":-1", "0:1"} \cup (IF Matrix THEN {"cfancy", "cmask"} ELSE {}) :
               Room /\ New([j \in DOMAIN pool[i] |-> ColSel(kind, pool[i][j])], [op |-> "cols", t |-> i, sel |-> kind], [kind |-> "array"])
Concat    == "concat" \in Ops /\ \E i, k \in DOMAIN pool : Room /\ New(pool[i] \o pool[k], [op |-> "concat", t |-> i, u |-> k], [kind |-> "array"])
\* np.concatenate of ONE operand: a new array equal to it (an assignment into either leaves the other alone, AssignLocal)
Concat1   == "concat1" \in Ops /\ \E i \in DOMAIN pool : Room /\ New(pool[i], [op |-> "concat1", t |-> i], [kind |-> "array"])
Copy      == "copy" \in Ops /\ \E i \in DOMAIN pool : Room /\ New(pool[i], [op |-> "copy", t |-> i], [kind |-> "array"])
\* observations
\* (integer row access is only driven on arrays that own their buffer: in the installed numpy/npstructures pair it fails on
\*  lazily indexed views on the unchanged tree, see DESIGN.md section 5)
Owns(i) == LET made == IF i = 1 THEN "create" ELSE (CHOOSE k \in DOMAIN prog : prog[k].op \in {"rows", "cols", "concat", "concat1", "copy"} /\
                         Cardinality({q \in 1..k : prog[q].op \in {"rows", "cols", "concat", "concat1", "copy"}}) = i - 1) IN
           IF i = 1 THEN TRUE ELSE prog[made].op \in {"concat", "concat1", "copy"}
RowInt    == "row" \in Ops /\ \E i \in DOMAIN pool : \E r \in {1, -1} : CanDo /\ Len(pool[i]) > 0 /\ Owns(i) /\
               Same([op |-> "row", t |-> i, r |-> r], [kind |-> "str", val |-> pool[i][IF r = 1 THEN 1 ELSE Len(pool[i])]])
ColInt    == "col" \in Ops /\ \E i \in DOMAIN pool : \E c \in {1, -1} : CanDo /\ Len(pool[i]) > 0 /\ (\A j \in DOMAIN pool[i] : pool[i][j] # <<>>) /\
               Same([op |-> "col", t |-> i, c |-> c], [kind |-> "str", val |-> [j \in DOMAIN pool[i] |-> pool[i][j][IF c = 1 THEN 1 ELSE Len(pool[i][j])]]])
EqChar    == "eq" \in Ops /\ \E i \in DOMAIN pool : \E x \in Symbols : CanDo /\
               Same([op |-> "eq", t |-> i, x |-> x], [kind |-> "bools", val |-> [j \in DOMAIN pool[i] |-> [q \in DOMAIN pool[i][j] |-> pool[i][j][q] = x]]])
\* str_equal(array, s): which rows spell s (s taken from the rows of the array itself, so that matches occur)
EqStr     == "streq" \in Ops /\ \E i \in DOMAIN pool : \E s \in {pool[i][j] : j \in DOMAIN pool[i]} : CanDo /\ s # <<>> /\
               Same([op |-> "streq", t |-> i, s |-> s], [kind |-> "flags", val |-> [j \in DOMAIN pool[i] |-> pool[i][j] = s]])
\* bnp.ragged_slice(array, starts, ends): row j from its own position starts[j] up to ends[j] (util/ragged_slice.py)
Min2c(x, y) == IF x < y THEN x ELSE y
RStart(kind, j, r) == IF kind = "alt" THEN Min2c(Len(r), (j + 1) % 2) ELSE Min2c(Len(r), 1)        \* 0-based, first row from 0 ("alt") or every row from 1
REnd(kind, j, r) == IF kind = "alt" THEN Min2c(Len(r), RStart(kind, j, r) + 1) ELSE Len(r)
RSlice    == "rslice" \in Ops /\ \E i \in DOMAIN pool : \E kind \in {"alt", "from1"} : CanDo /\ Len(pool[i]) > 0 /\
               Same([op |-> "rslice", t |-> i, sel |-> kind,
                     starts |-> [j \in DOMAIN pool[i] |-> RStart(kind, j, pool[i][j])], ends |-> [j \in DOMAIN pool[i] |-> REnd(kind, j, pool[i][j])]],
                    [kind |-> "rows", val |-> [j \in DOMAIN pool[i] |-> SubSeq(pool[i][j], RStart(kind, j, pool[i][j]) + 1, REnd(kind, j, pool[i][j]))]])
\* str_equal(array, other array with as many rows): which rows spell the same string
EqArr     == "streq2" \in Ops /\ \E i, k \in DOMAIN pool : CanDo /\ Len(pool[i]) = Len(pool[k]) /\ Len(pool[i]) > 0 /\
               Same([op |-> "streq2", t |-> i, u |-> k], [kind |-> "flags", val |-> [j \in DOMAIN pool[i] |-> pool[i][j] = pool[k][j]]])
\* decoding / converting to a string array gives the rows back, whatever view the array is
Decode_   == "decode" \in Ops /\ \E i \in DOMAIN pool : CanDo /\ Same([op |-> "decode", t |-> i], [kind |-> "rows", val |-> pool[i]])
Ravel     == "ravel" \in Ops /\ \E i \in DOMAIN pool : CanDo /\ Same([op |-> "ravel", t |-> i], [kind |-> "str", val |-> Flat(pool[i])])
\* assignments change the target array only (copies are independent; what views of it show is not prescribed by the list model)
Fill(r, x) == [q \in DOMAIN r |-> x]
\* the assigned value is given as a Python string or as an already encoded (base-encoded) array: `form`
AssignRow  == "setrow" \in Ops /\ \E i \in DOMAIN pool : \E x \in Symbols : \E fm \in {"str", "enc"} : CanDo /\ Len(pool[i]) > 0 /\ prog[Len(prog)].op \in {"copy", "create", "concat1"} /\ i = Len(pool) /\
               pool' = [pool EXCEPT ![i][1] = Fill(@, x)] /\ prog' = Append(prog, [op |-> "setrow", t |-> i, x |-> x, form |-> fm]) /\ obs' = [kind |-> "array"]
AssignMask == "setmask" \in Ops /\ \E i \in DOMAIN pool : \E x, y \in Symbols : \E fm \in {"str", "enc"} : CanDo /\ x # y /\ prog[Len(prog)].op \in {"copy", "create", "concat1"} /\ i = Len(pool) /\
               pool' = [pool EXCEPT ![i] = [j \in DOMAIN @ |-> [q \in DOMAIN @[j] |-> IF @[j][q] = x THEN y ELSE @[j][q]]]]
               /\ prog' = Append(prog, [op |-> "setmask", t |-> i, x |-> x, y |-> y, form |-> fm]) /\ obs' = [kind |-> "array"]

Next == RowSelect \/ ColSelect \/ Concat \/ Concat1 \/ Copy \/ RowInt \/ ColInt \/ EqChar \/ EqStr \/ EqArr \/ RSlice \/ Decode_ \/ Ravel \/ AssignRow \/ AssignMask
Spec == Init /\ [][Next]_vars

\* design invariants: shapes are preserved where NumPy preserves them
TypeOK == \A i \in DOMAIN pool : \A j \in DOMAIN pool[i] : \A q \in DOMAIN pool[i][j] : pool[i][j][q] \in Symbols
\* an assignment changes exactly one array of the pool (its copies and sources stay as they were)
AssignLocal == [][prog'[Len(prog')].op \in {"setrow", "setmask"} =>
                    \A i \in DOMAIN pool : i # prog'[Len(prog')].t => pool'[i] = pool[i]]_vars
==============================================================================
