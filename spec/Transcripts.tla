------------------------------ MODULE Transcripts ------------------------------
(* Spliced transcript sequences (bionumpy/sequence/genes.py: get_transcript_sequences), an      *)
(* application of strand-aware extraction (property C14).                                         *)
(* A transcript is a strand and a list of exons [start, stop) on one reference sequence, listed   *)
(* in increasing position, the exons of one transcript next to each other.  Its sequence is the    *)
(* concatenation of the exon subsequences, reverse-complemented AS A WHOLE on the minus strand     *)
(* (not exon by exon).                                                                             *)
EXTENDS Integers, Sequences, FiniteSets, TLC

CONSTANTS Ref,          \* the reference (letters 0..3 = A C G T, 4 = N)
          MaxTranscripts, MaxExons, ExonLens

VARIABLES trs           \* sequence of transcripts: [strand |-> "+" / "-", exons |-> sequence of <<start, stop>>]
vars == <<trs>>

Comp(x) == IF x = 4 THEN 4 ELSE 3 - x
RevComp(s) == [i \in DOMAIN s |-> Comp(s[Len(s) + 1 - i])]
Sub(a, b) == SubSeq(Ref, a + 1, b)
RECURSIVE Join(_)
Join(es) == IF es = <<>> THEN <<>> ELSE Sub(es[1][1], es[1][2]) \o Join(Tail(es))
SeqOf(t) == IF t.strand = "-" THEN RevComp(Join(t.exons)) ELSE Join(t.exons)
Sequences_ == [i \in DOMAIN trs |-> SeqOf(trs[i])]

Init == trs = <<>>
NewTranscript(sd) == /\ Len(trs) < MaxTranscripts /\ (IF trs = <<>> THEN TRUE ELSE trs[Len(trs)].exons # <<>>)
                     /\ trs' = Append(trs, [strand |-> sd, exons |-> <<>>])
LastStop == LET t == trs[Len(trs)] IN IF t.exons = <<>> THEN 0 ELSE t.exons[Len(t.exons)][2]
AddExon(a, n) == /\ trs # <<>>
                 /\ IF trs = <<>> THEN FALSE ELSE (Len(trs[Len(trs)].exons) < MaxExons /\ a >= LastStop)
                 /\ a + n <= Len(Ref)
                 /\ trs' = [trs EXCEPT ![Len(trs)].exons = Append(@, <<a, a + n>>)]
Next == (\E sd \in {"+", "-"} : NewTranscript(sd)) \/ (\E a \in 0..(Len(Ref) - 1) : \E n \in ExonLens : AddExon(a, n))
Spec == Init /\ [][Next]_vars

Complete == trs # <<>> /\ \A i \in DOMAIN trs : trs[i].exons # <<>>
\* ---- properties of the definition
RECURSIVE SumLens(_)
SumLens(es) == IF es = <<>> THEN 0 ELSE (es[1][2] - es[1][1]) + SumLens(Tail(es))
LengthIsSum == \A i \in DOMAIN trs : Len(Sequences_[i]) = SumLens(trs[i].exons)
\* the minus-strand sequence read backwards and complemented is the plus-strand sequence of the same exons
StrandInvolution == \A i \in DOMAIN trs : RevComp(SeqOf(trs[i])) = SeqOf([trs[i] EXCEPT !.strand = IF @ = "-" THEN "+" ELSE "-"])
\* adding an exon to the last transcript never changes the sequences of the earlier ones
Local == [][\A i \in 1..(Len(trs) - 1) : Sequences_'[i] = Sequences_[i]]_vars
==============================================================================
