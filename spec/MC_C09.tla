------------------------------- MODULE MC_C09 -------------------------------
(* The bedGraph grows run by run in genome order (so every sorted, non-overlapping bedGraph   *)
(* with or without gaps, starting at 0 or later, ending at or before the size, is a state);   *)
(* then an expression tree is chosen and evaluated.  B is the pile-up of the same runs read   *)
(* as intervals shifted by one contig position pattern (a second array on the same genome).   *)
EXTENDS GenomicArray, Json
CONSTANTS G, MaxRuns, Values, Depth2
G1 == <<3>>
G2 == <<2, 3>>
G3 == <<2, 1, 2>>
G4 == <<1, 2, 1, 2>>
VARIABLES bg, tree
vars == <<bg, tree>>

Arith == {"+", "-", "*"}
Cmp == {"<", ">", "=="}
LA == <<"A">>
LB == <<"B">>
K(n) == <<"k", n>>
D1Arith == {<<op, l, r>> : op \in Arith, l \in {LA, LB}, r \in {LA, LB, K(1), K(2)}} \cup {<<op, K(k), LA>> : op \in Arith, k \in {1, 2}}
D1Cmp   == {<<op, l, r>> : op \in Cmp, l \in {LA, LB}, r \in {LA, LB, K(0), K(1)}} \cup {<<op, K(1), LA>> : op \in Cmp}
Inner   == {x \in D1Arith : x[2] = LA /\ x[3] \in {LB, K(2)}}
D2Arith == IF Depth2 THEN {<<op, t, r>> : op \in Arith, t \in Inner, r \in {LB, K(1)}} ELSE {}
D2Cmp   == IF Depth2 THEN {<<op, t, r>> : op \in Cmp, t \in Inner, r \in {LB, K(1)}} ELSE {}
CmpA    == {x \in D1Cmp : x[2] = LA /\ x[3] \in {LB, K(0), K(1)}}
Logic   == {<<"~", c>> : c \in CmpA} \cup (IF Depth2 THEN {<<op, c, d>> : op \in {"&", "|"}, c \in CmpA, d \in {x \in CmpA : x[1] = "<"}} ELSE {})
Trees == {LA} \cup D1Arith \cup D1Cmp \cup D2Arith \cup D2Cmp \cup Logic
IsBoolTree(t) == t[1] \in Cmp \cup {"~", "&", "|"}
None == <<"none">>

Init == bg = <<>> /\ tree = None
AddRun == /\ tree = None /\ Len(bg) < MaxRuns
          /\ \E c \in DOMAIN G : \E s \in 0..(G[c] - 1) : \E e \in (s + 1)..G[c] : \E v \in Values :
               /\ (IF bg = <<>> THEN TRUE ELSE bg[Len(bg)].c < c \/ (bg[Len(bg)].c = c /\ bg[Len(bg)].e <= s))
               /\ bg' = Append(bg, [c |-> c, s |-> s, e |-> e, v |-> v])
          /\ UNCHANGED tree
Choose == tree = None /\ tree' \in Trees /\ UNCHANGED bg
Next == AddRun \/ Choose
Spec == Init /\ [][Next]_vars

A == Dense(bg, G)
B == Pile(bg, G)
Res == Eval(tree, A, B, G)
\* design invariants
WF == WellFormed(bg, G)
Lossless == LET d == Dense(bg, G) IN Dense(ToRuns(d, G), G) = d /\ \A c \in DOMAIN G : Len(d[c]) = G[c]
RunsOrdered == WellFormed(ToRuns(A, G), G)
ResLossless == tree # None => (IF IsBoolTree(tree) THEN TRUE ELSE Dense(ToRuns(Res, G), G) = Res)

Emit == tree # None =>
         PrintT(ToJson([G |-> G, bg |-> bg, tree |-> tree, A |-> A, B |-> B, res |-> Res, bool |-> IsBoolTree(tree),
                        total |-> IF IsBoolTree(tree) THEN Cardinality({<<c, q>> \in (DOMAIN G) \X (1..4) : q <= G[c] /\ Res[c][q]}) ELSE Total(Res, G),
                        runs |-> IF IsBoolTree(tree) THEN TrueRuns(Res, G) ELSE ToRuns(Res, G),
                        hist |-> IF IsBoolTree(tree) THEN <<>> ELSE Histogram(Res, G, -2, 8)]))
==============================================================================
