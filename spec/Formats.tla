------------------------------- MODULE Formats -------------------------------
(* What the text of a file means, per format (property C02), and its canonical serialisation  *)
(* (property C03).  Written from the format definitions (UCSC BED/bedGraph/narrowPeak, VCFv4.2, *)
(* SAMv1, GTF/GFF3, FASTA/FASTQ, GFA1 S-lines, 4DN pairs), not from the implementation.        *)
(*                                                                                            *)
(* A delimited format is described by its column kinds:                                        *)
(*   "str"     text kept verbatim                 "int"    decimal integer, kept as written     *)
(*   "int1"    1-based position stored 0-based    "optint" integer, or missing when "."         *)
(*   "float"   decimal / lower-case scientific number, as exact rational <<num, den>>           *)
(*   "strand"  one of + - .                       "ints"   comma separated integers (a trailing *)
(*   "rest"    the rest of the line (tab separated optional fields), "" when absent   comma ok) *)
(* Lines starting with the comment character and - where the format has one - the header line  *)
(* never become entries.                                                                       *)
EXTENDS Text, TLC

Kinds ==
  "bed3"       :> <<"str", "int", "int">> @@
  "bed6"       :> <<"str", "int", "int", "str", "optint", "strand">> @@
  "bed12"      :> <<"str", "int", "int", "str", "optint", "strand", "int", "int", "str", "int", "ints", "ints">> @@
  "bedgraph"   :> <<"str", "int", "int", "float">> @@
  "narrowpeak" :> <<"str", "int", "int", "str", "optint", "strand", "float", "float", "float", "int">> @@
  "chromsizes" :> <<"str", "int">> @@
  "vcf"        :> <<"str", "int1", "str", "str", "str", "str", "str", "str">> @@
  "sam"        :> <<"str", "int", "str", "int", "int", "str", "str", "int", "int", "str", "str", "rest">> @@
  "gtf"        :> <<"str", "str", "str", "int", "int", "str", "strand", "str", "str">> @@
  "gff"        :> <<"str", "str", "str", "int", "int", "str", "strand", "str", "str">> @@
  "pairs"      :> <<"str", "str", "int", "str", "int", "strand", "strand">> @@
  "wig"        :> <<"str", "int", "int", "float">> @@
  "gfa"        :> <<"skip", "str", "str">>

CommentChar == [f \in DOMAIN Kinds |-> IF f = "sam" THEN AT ELSE HASH]

\* ---------------------------------------------------------------- parsing (C02)
ParseInts(t) == LET p == SplitOn(t, COMMA)
                    q == IF p[Len(p)] = <<>> THEN SubSeq(p, 1, Len(p) - 1) ELSE p      \* trailing comma allowed (BED12)
                IN [i \in DOMAIN q |-> IntValue(q[i])]
Cell(kind, t) == CASE kind = "str"    -> t
                   [] kind = "int"    -> IntValue(t)
                   [] kind = "int1"   -> IntValue(t) - 1
                   [] kind = "optint" -> IF t = <<DOT>> THEN <<"missing">> ELSE <<"int", IntValue(t)>>
                   [] kind = "float"  -> FloatValue(t)
                   [] kind = "strand" -> t
                   [] kind = "ints"   -> ParseInts(t)
                   [] kind = "rest"   -> t
IsData(fmt, line) == line # <<>> /\ line[1] # CommentChar[fmt]
DataLines(fmt, text) == SelectSeq2(Lines(text), LAMBDA l : IsData(fmt, l))
\* one record: the entry's columns in the order of the entry type ("skip" columns are not part of it);
\* a "rest" column takes everything after the preceding tab, or is empty
ParseLine(fmt, line) ==
  LET ks == Kinds[fmt]
      cols == SplitOn(line, TAB)
      n == Len(ks)
      hasRest == ks[n] = "rest"
      val(i) == IF ks[i] = "rest" THEN (IF Len(cols) >= n THEN JoinWith(SubSeq(cols, n, Len(cols)), TAB) ELSE <<>>)
                ELSE Cell(ks[i], cols[i])
      keep == SelectSeq2([i \in 1..n |-> i], LAMBDA i : ks[i] # "skip")
  IN [j \in DOMAIN keep |-> val(keep[j])]
ParseDelimited(fmt, text) == LET ls == DataLines(fmt, text) IN [i \in DOMAIN ls |-> ParseLine(fmt, ls[i])]

\* FASTA (sequence wrapped over any number of lines): name = header text after '>', sequence = the lines joined
ParseFasta(text) ==
  LET ls == Lines(text)
      heads == SelectSeq2([i \in DOMAIN ls |-> i], LAMBDA i : ls[i] # <<>> /\ ls[i][1] = GT)
  IN [k \in DOMAIN heads |->
        LET from == heads[k] + 1
            to == IF k < Len(heads) THEN heads[k + 1] - 1 ELSE Len(ls)
        IN <<Tail(ls[heads[k]]), Concat(SubSeq(ls, from, to))>>]
\* FASTQ: four lines per record: @name, sequence, +anything, qualities (Phred+33)
ParseFastq(text) ==
  LET ls == Lines(text) IN
  [k \in 1..(Len(ls) \div 4) |-> <<Tail(ls[4 * k - 3]), ls[4 * k - 2], [i \in DOMAIN ls[4 * k] |-> ls[4 * k][i] - 33]>>]

\* ---- VCF: typed INFO keys (by the header's ##INFO declarations) and per-sample genotype strings
\* declaration = sequence of <<key, type>> with type in {"Integer", "Float", "Flag", "String", "Integers"}
InfoItems(t) == IF t = <<DOT>> THEN <<>> ELSE SplitOn(t, SEMI)
ItemKey(item) == LET eq == {i \in DOMAIN item : item[i] = EQUALS} IN
                 IF eq = {} THEN item ELSE SubSeq(item, 1, (CHOOSE i \in eq : \A j \in eq : i <= j) - 1)
ItemValue(item) == LET eq == {i \in DOMAIN item : item[i] = EQUALS} IN
                   IF eq = {} THEN <<>> ELSE SubSeq(item, (CHOOSE i \in eq : \A j \in eq : i <= j) + 1, Len(item))
InfoValue(t, key, type) ==
  LET items == InfoItems(t)
      hit == {i \in DOMAIN items : ItemKey(items[i]) = key}          \* the key must match exactly, not as a prefix
      val == IF hit = {} THEN <<>> ELSE ItemValue(items[CHOOSE i \in hit : TRUE])
  IN CASE type = "Flag"     -> hit # {}
       [] type = "Integer"  -> IF hit = {} THEN <<"missing">> ELSE <<"int", IntValue(val)>>
       [] type = "Float"    -> IF hit = {} THEN <<"missing">> ELSE <<"float", FloatValue(val)>>
       [] type = "String"   -> val
       [] type = "Integers" -> IF hit = {} THEN <<>> ELSE ParseInts(val)
\* genotype string of a sample column: the GT sub-field, i.e. the text before the first ':' (trailing sub-fields may be dropped)
FirstSub(t) == LET c == {i \in DOMAIN t : t[i] = COLON} IN IF c = {} THEN t ELSE SubSeq(t, 1, (CHOOSE i \in c : \A j \in c : i <= j) - 1)
ParseVcfTyped(text, decl) ==
  LET ls == DataLines("vcf", text) IN
  [i \in DOMAIN ls |->
     LET cols == SplitOn(ls[i], TAB) IN
     [base |-> ParseLine("vcf", JoinWith(SubSeq(cols, 1, 8), TAB)),
      info |-> [k \in DOMAIN decl |-> InfoValue(cols[8], decl[k][1], decl[k][2])],
      gt   |-> [c \in 1..(Len(cols) - 9) |-> FirstSub(cols[9 + c])]]]

\* genotype matrices of files whose genotypes are all phased and biallelic ('a|b', a, b in {0, 1}):
\*   one code per sample, 2a + b (PhasedVCFMatrixBuffer), or the two alleles of each sample side by side (PhasedHaplotypeVCFMatrixBuffer)
PhasedCode(g) == 2 * (g[1] - 48) + (g[3] - 48)
PhasedText(c) == <<48 + (c \div 2), 124, 48 + (c % 2)>>
ParseVcfPhased(text) ==
  LET rows == ParseVcfTyped(text, <<>>) IN
  [i \in DOMAIN rows |-> [base |-> rows[i].base, gt |-> rows[i].gt,
                          phased |-> [c \in DOMAIN rows[i].gt |-> PhasedCode(rows[i].gt[c])],
                          haplo |-> [k \in 1..(2 * Len(rows[i].gt)) |-> rows[i].gt[(k + 1) \div 2][IF k % 2 = 1 THEN 1 ELSE 3] - 48]]]

Parse(fmt, text) == CASE fmt = "fasta" -> ParseFasta(text)
                      [] fmt = "fastq" -> ParseFastq(text)
                      [] OTHER -> ParseDelimited(fmt, text)

\* ---------------------------------------------------------------- canonical serialisation (C03)
\* floats are written with at least one fraction digit; only values num/den with den in {1, 2, 4, 10, 100} are modelled
FloatText(q) ==
  LET neg == q[1] < 0
      n == IF neg THEN -q[1] ELSE q[1]
      d == q[2]
      ip == n \div d
      r == n - ip * d
      \* fraction digits of r/d for d in {1,2,4,10,100}
      frac == CASE d = 1 -> <<48>>
                [] d = 2 -> <<48 + (5 * r)>>
                [] d = 4 -> (IF r = 0 THEN <<48>> ELSE IF r = 2 THEN <<53>> ELSE IF r = 1 THEN <<50, 53>> ELSE <<55, 53>>)
                [] d = 10 -> <<48 + r>>
                [] OTHER -> (IF (r % 10) = 0 THEN <<48 + (r \div 10)>> ELSE <<48 + (r \div 10), 48 + (r % 10)>>)
  IN (IF neg THEN <<MINUS>> ELSE <<>>) \o NatText(ip) \o <<DOT>> \o frac
IntsText(xs) == JoinWith([i \in DOMAIN xs |-> IntText(xs[i])], COMMA)
CellText(kind, v) == CASE kind = "str" -> v
                       [] kind = "int" -> IntText(v)
                       [] kind = "int1" -> IntText(v + 1)
                       [] kind = "optint" -> IF v[1] = "missing" THEN <<DOT>> ELSE IntText(v[2])
                       [] kind = "float" -> FloatText(v)
                       [] kind = "strand" -> v
                       [] kind = "ints" -> IntsText(v)
                       [] kind = "rest" -> v
\* one record per line, tab separated, LF terminated; an empty "rest" column leaves no trailing tab
SerialiseRow(fmt, row) ==
  LET ks == SelectSeq2(Kinds[fmt], LAMBDA k : k # "skip")
      cells == [i \in DOMAIN row |-> CellText(ks[i], row[i])]
      used == IF ks[Len(ks)] = "rest" /\ row[Len(row)] = <<>> THEN SubSeq(cells, 1, Len(cells) - 1) ELSE cells
      lead == IF fmt = "gfa" THEN <<<<83>>>> ELSE <<>>        \* GFA S-line
  IN JoinWith(lead \o used, TAB) \o <<LF>>
SerialiseDelimited(fmt, rows) == Concat([i \in DOMAIN rows |-> SerialiseRow(fmt, rows[i])])
\* FASTA: '>' name, then the sequence in lines of Width (the last line 1..Width; an empty sequence has no sequence line)
RECURSIVE Wrap(_, _)
Wrap(s, w) == IF s = <<>> THEN <<>> ELSE SubSeq(s, 1, IF Len(s) < w THEN Len(s) ELSE w) \o <<LF>> \o Wrap(SubSeq(s, w + 1, Len(s)), w)
SerialiseFasta(rows, w) == Concat([i \in DOMAIN rows |-> <<GT>> \o rows[i][1] \o <<LF>> \o Wrap(rows[i][2], w)])
SerialiseFastq(rows) == Concat([i \in DOMAIN rows |-> <<AT>> \o rows[i][1] \o <<LF>> \o rows[i][2] \o <<LF, PLUS, LF>>
                                                       \o [j \in DOMAIN rows[i][3] |-> rows[i][3][j] + 33] \o <<LF>>])
Serialise(fmt, rows, w) == CASE fmt = "fasta" -> SerialiseFasta(rows, w)
                             [] fmt = "fastq" -> SerialiseFastq(rows)
                             [] OTHER -> SerialiseDelimited(fmt, rows)
==============================================================================
