------------------------------ MODULE MC_Matrix ------------------------------
EXTENDS Matrix, Json
Vals == {0, 7, -12, 100}
Vals2 == {0, -12, 100}
NameSet2 == {<<97>>, <<65, 91, 67, 62, 84, 93, 71>>}
NameSet == {<<97>>, <<98, 98>>, <<65, 91, 67, 62, 84, 93, 71>>}      \* "a", "bb", "A[C>T]G"
Emit == PrintT(ToJson([data |-> data, rows |-> rowNames, cols |-> colNames, sep |-> Sep, text |-> FileText, csv |-> CsvText]))
==============================================================================
