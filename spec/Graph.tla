-------------------------------- MODULE Graph --------------------------------
(* The computation graph behind stream=True pipelines and bnp.compute (property C11,           *)
(* bionumpy/computation_graph.py:48-232).                                                      *)
(*                                                                                             *)
(* A graph is a sequence of nodes in construction order.  Stream nodes deliver the chunks of   *)
(* one column of a dataset; computation nodes apply a function to the current buffers of       *)
(* their arguments; the last node is the root that compute() iterates (a single node, or the   *)
(* tuple node compute() builds over several outputs).  Every node holds a buffer index and a   *)
(* current buffer; _get_buffer(i) either returns the current buffer (index already i) or       *)
(* advances by exactly one (index i-1), pulling buffer i from its arguments first.             *)
(*                                                                                             *)
(* L1 (mechanism): one action per step of that recursion, with the call stack explicit:        *)
(*   Construct  - a node's constructor calls its own _get_buffer(0)           (:88, :139)      *)
(*   PullArg    - the node on top of the stack asks its next argument for buffer i (:161-164)  *)
(*   Advance    - a stream node takes the next chunk, or raises StopIteration  (:90-95)        *)
(*   Eval       - all arguments are at i: apply the function, index += 1       (:165-175)      *)
(*   IssuePull / Collect - get_iter: for i in count(): yield root._get_buffer(i) (:75-80)      *)
(*   Finish     - StopIteration ends the iteration; buffers are concatenated / folded          *)
(* L0 (meaning): the result is the function applied to the whole columns.                      *)
(*                                                                                             *)
(* Memo = FALSE is a regression witness: a computation node that re-evaluates when asked twice *)
(* for the same buffer (a node shared by two consumers, "diamond") breaks lock step; TLC must  *)
(* refute NoAssert for it.                                                                     *)
EXTENDS Integers, Sequences, FiniteSets, TLC

CONSTANTS Shapes,     \* sequence of graphs: [name, nodes, roots]; nodes: sequence of [op, args, c]; roots: sequence of [node, red]
          MaxN,       \* datasets of 1..MaxN rows
          Vals,       \* column values
          Memo

VARIABLES g,          \* index of the graph shape
          data,       \* sequence of rows <<a, b>>
          cuts,       \* chunk sizes (positive, summing to Len(data))
          idx, cur,   \* per node: buffer index, current buffer
          pos,        \* per column (1, 2): chunks consumed
          stack,      \* call stack of _get_buffer frames [n, i, k]: node, buffer wanted, next argument to pull
          built,      \* nodes constructed so far
          it, got,    \* root pulls issued / buffers collected
          out,        \* collected root buffers
          status,     \* "run", "stop" (StopIteration reached get_iter), "assert" (the index assertion failed), "done"
          idxlog      \* history: the index vector after every collected buffer (compared with the code as drift)
vars == <<g, data, cuts, idx, cur, pos, stack, built, it, got, out, status, idxlog>>

Nodes == Shapes[g].nodes
Roots == Shapes[g].roots
N == Len(Nodes)
Root == N
IsStream(n) == Nodes[n].op \in {"s1", "s2"}
Col(n) == IF Nodes[n].op = "s1" THEN 1 ELSE 2

RECURSIVE SumSeq(_)
SumSeq(s) == IF s = <<>> THEN 0 ELSE Head(s) + SumSeq(Tail(s))
RECURSIVE Compositions(_)
Compositions(n) == IF n = 0 THEN {<<>>} ELSE UNION {{<<k>> \o r : r \in Compositions(n - k)} : k \in 1..n}
\* chunk j (1-based) of column c
ChunkStart(j) == SumSeq(SubSeq(cuts, 1, j - 1))
Chunk(c, j) == [i \in 1..cuts[j] |-> data[ChunkStart(j) + i][c]]
Column(c) == [i \in DOMAIN data |-> data[i][c]]

Select(a, m) == LET F[i \in 0..Len(a)] == IF i = 0 THEN <<>> ELSE IF m[i] = 1 THEN Append(F[i - 1], a[i]) ELSE F[i - 1] IN F[Len(a)]
\* the function of a computation node applied to argument buffers (or whole columns)
Apply(node, a) ==
  CASE node.op = "addc"   -> [i \in DOMAIN a[1] |-> a[1][i] + node.c]
    [] node.op = "add"    -> [i \in DOMAIN a[1] |-> a[1][i] + a[2][i]]
    [] node.op = "mul"    -> [i \in DOMAIN a[1] |-> a[1][i] * a[2][i]]
    [] node.op = "gtc"    -> [i \in DOMAIN a[1] |-> IF a[1][i] > node.c THEN 1 ELSE 0]
    [] node.op = "select" -> Select(a[1], a[2])
    [] node.op = "sum"    -> <<SumSeq(a[1])>>                 \* np.sum of one buffer
    [] node.op = "sumn"   -> <<SumSeq(a[1]), Len(a[1])>>      \* sum_and_n of one buffer (np.mean)
    [] node.op = "tuple"  -> a                                \* compute() of several outputs

\* ---------------------------------------------------------------- L0: the meaning
RECURSIVE Whole(_)
Whole(n) == IF IsStream(n) THEN Column(Col(n))
            ELSE Apply(Nodes[n], [k \in DOMAIN Nodes[n].args |-> Whole(Nodes[n].args[k])])
\* what compute() returns: per output, the concatenated buffers, the sum, or the mean as <<sum, n>>
Meaning == [r \in DOMAIN Roots |->
              CASE Roots[r].red = "none" -> Whole(Roots[r].node)
                [] Roots[r].red = "sum"  -> <<SumSeq(Whole(Nodes[Roots[r].node].args[1]))>>
                [] Roots[r].red = "mean" -> <<SumSeq(Whole(Nodes[Roots[r].node].args[1])), Len(Whole(Nodes[Roots[r].node].args[1]))>>]

\* ---------------------------------------------------------------- L1: the mechanism
Init == /\ g \in DOMAIN Shapes
        /\ \E n \in 1..MaxN : data \in [1..n -> Vals \X Vals] /\ cuts \in Compositions(n)
        /\ idx = [n \in 1..N |-> -1] /\ cur = [n \in 1..N |-> <<>>] /\ pos = <<0, 0>>
        /\ stack = <<>> /\ built = 0 /\ it = 0 /\ got = 0 /\ out = <<>> /\ status = "run" /\ idxlog = <<>>

Top == stack[Len(stack)]
Pop == SubSeq(stack, 1, Len(stack) - 1)
\* a call n._get_buffer(i) made with the stack stk below it: assertion, early return, or a new frame
Demand(n, i, stk) ==
  IF idx[n] \notin {i, i - 1} THEN [stack |-> <<>>, status |-> "assert"]                       \* :91, :159
  ELSE IF i <= idx[n] /\ (Memo \/ IsStream(n)) THEN [stack |-> stk, status |-> "run"]          \* :92 / :160-161
  ELSE [stack |-> Append(stk, [n |-> n, i |-> i, k |-> 1]), status |-> "run"]

Construct == /\ status = "run" /\ stack = <<>> /\ built < N
             /\ LET d == Demand(built + 1, 0, <<>>) IN stack' = d.stack /\ status' = d.status
             /\ built' = built + 1
             /\ UNCHANGED <<g, data, cuts, idx, cur, pos, it, got, out, idxlog>>
PullArg == /\ status = "run" /\ stack # <<>> /\ ~IsStream(Top.n) /\ Top.k <= Len(Nodes[Top.n].args)
           /\ LET f == Top
                  d == Demand(Nodes[f.n].args[f.k], f.i, Append(Pop, [f EXCEPT !.k = f.k + 1]))
              IN stack' = d.stack /\ status' = d.status
           /\ UNCHANGED <<g, data, cuts, idx, cur, pos, built, it, got, out, idxlog>>
Advance == /\ status = "run" /\ stack # <<>> /\ IsStream(Top.n)
           /\ LET n == Top.n
                  c == Col(n)
              IN IF pos[c] = Len(cuts)
                 THEN /\ status' = "stop" /\ stack' = <<>> /\ UNCHANGED <<idx, cur, pos>>      \* next(stream) raises StopIteration
                 ELSE /\ cur' = [cur EXCEPT ![n] = Chunk(c, pos[c] + 1)]
                      /\ idx' = [idx EXCEPT ![n] = @ + 1] /\ pos' = [pos EXCEPT ![c] = @ + 1]
                      /\ stack' = Pop /\ UNCHANGED status
           /\ UNCHANGED <<g, data, cuts, built, it, got, out, idxlog>>
ArgsAt(n, i) == \A k \in DOMAIN Nodes[n].args : idx[Nodes[n].args[k]] = i
Eval == /\ status = "run" /\ stack # <<>> /\ ~IsStream(Top.n) /\ Top.k > Len(Nodes[Top.n].args)
        /\ LET n == Top.n IN
           /\ cur' = [cur EXCEPT ![n] = Apply(Nodes[n], [k \in DOMAIN Nodes[n].args |-> cur[Nodes[n].args[k]]])]
           /\ idx' = [idx EXCEPT ![n] = @ + 1]
        /\ stack' = Pop
        /\ UNCHANGED <<g, data, cuts, pos, built, it, got, out, status, idxlog>>
IssuePull == /\ status = "run" /\ stack = <<>> /\ built = N /\ got = it
             /\ LET d == Demand(Root, it, <<>>) IN stack' = d.stack /\ status' = d.status
             /\ it' = it + 1
             /\ UNCHANGED <<g, data, cuts, idx, cur, pos, built, got, out, idxlog>>
Collect == /\ status = "run" /\ stack = <<>> /\ built = N /\ got < it
           /\ out' = Append(out, cur[Root]) /\ got' = got + 1 /\ idxlog' = Append(idxlog, idx)
           /\ UNCHANGED <<g, data, cuts, idx, cur, pos, stack, built, it, status>>
Finish == /\ status = "stop" /\ status' = "done"
          /\ UNCHANGED <<g, data, cuts, idx, cur, pos, stack, built, it, got, out, idxlog>>
Next == Construct \/ PullArg \/ Advance \/ Eval \/ IssuePull \/ Collect \/ Finish
Spec == Init /\ [][Next]_vars

\* ---------------------------------------------------------------- what compute() makes of the collected buffers
RECURSIVE ConcatAll(_)
ConcatAll(ss) == IF ss = <<>> THEN <<>> ELSE Head(ss) \o ConcatAll(Tail(ss))
RECURSIVE AddAll(_)
AddAll(ss) == IF Len(ss) = 1 THEN ss[1] ELSE LET r == AddAll(Tail(ss)) IN [i \in DOMAIN ss[1] |-> ss[1][i] + r[i]]
Single == Len(Roots) = 1 /\ Nodes[Root].op # "tuple"
\* the buffers of output r
Buffers(r) == IF Single THEN out ELSE [j \in DOMAIN out |-> out[j][r]]
Result == [r \in DOMAIN Roots |-> IF Roots[r].red = "none" THEN ConcatAll(Buffers(r)) ELSE AddAll(Buffers(r))]

\* ---------------------------------------------------------------- properties
NoAssert == status # "assert"
\* a computation node only ever evaluates buffer i from arguments that are all at buffer i
LockStep == (status = "run" /\ stack # <<>> /\ ~IsStream(Top.n) /\ Top.k > Len(Nodes[Top.n].args)) => ArgsAt(Top.n, Top.i)
\* every stream is consumed chunk by chunk, in step with its node's index
\* (a graph has at most one stream node per column)
InStep == \A n \in 1..N : IsStream(n) => idx[n] = pos[Col(n)] - 1
\* after every collected buffer all nodes are at the same index
AllLevel == (stack = <<>> /\ built = N /\ got = it /\ it > 0 /\ status = "run") => \A n \in 1..N : idx[n] = it - 1
\* the streamed result is the in-memory result, whatever the cuts
Final == status = "done" => /\ got = Len(cuts) /\ Result = Meaning
Terminates == <>(status \in {"done", "assert"})
==============================================================================
