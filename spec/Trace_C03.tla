------------------------------ MODULE Trace_C03 ------------------------------
(* Binding B for C03: a file generated from its format's grammar (non-canonical spellings allowed) is read   *)
(* eagerly by the implementation and the table is written to a new file; the text read and the bytes written  *)
(* are given to TLC, which decides whether the bytes are the canonical serialisation of what the text means:  *)
(*      written = Serialise(fmt, Parse(fmt, text), 80)                                                        *)
(* Both functions are those of Formats.tla; values stay below 2^31 and floats have short exact expansions.     *)
EXTENDS Formats, TLCExt, Json, IOUtils
Traces == JsonDeserialize(IOEnv.TRACE_FILE)
VARIABLE i
Init == i = 1 /\ TLCSet(1, 0)
\* a FASTQ file may also be written to a FASTA target: name and sequence of every record, no qualities
Want(t) == IF t.to = t.fmt THEN Serialise(t.fmt, Parse(t.fmt, t.text), 80)
           ELSE LET rs == Parse(t.fmt, t.text) IN Serialise(t.to, [q \in DOMAIN rs |-> <<rs[q][1], rs[q][2]>>], 80)
RECURSIVE FirstDiff(_, _, _)
FirstDiff(a, b, k) == IF k > Len(a) \/ k > Len(b) THEN k ELSE IF a[k] # b[k] THEN k ELSE FirstDiff(a, b, k + 1)
Next == /\ i <= Len(Traces)
        /\ LET t == Traces[i] IN
           IF t.written = Want(t) THEN TLCSet(1, TLCGet(1) + 1)
           ELSE PrintT(<<"REJECT", t.tid, FirstDiff(t.written, Want(t), 1), Len(t.written), Len(Want(t))>>)
        /\ i' = i + 1
Post == PrintT(<<"ACCEPTED", TLCGet(1)>>)
==============================================================================
