------------------------------- MODULE Streams -------------------------------
(* Streamed evaluation equals in-memory evaluation for every chunking (property C11).         *)
(* A dataset is a sequence of entries [k |-> key, v |-> value] sorted by key.  A stream       *)
(* delivers it in consecutive chunks of arbitrary positive sizes: the action Consume(m) takes  *)
(* the next m entries, so the behaviours of this specification are exactly the 2^(n-1) ways    *)
(* of cutting the data, including single-entry chunks and cuts inside a group.                 *)
(* Every streamable computation is a fold: acc' = Reduce(acc, Map(chunk)).                     *)
(*   sum-and-n (mean), bincount with padded addition, histogram addition   streams/reductions.py *)
(*   group-by on the sorted key with groups joined across chunk borders      streams/groupby_func.py:38-47 *)
(*   re-chunking to N entries                                                streams/chunk_entries.py     *)
(* Invariant FoldRight: after any number of chunks the accumulator equals the in-memory result *)
(* on the prefix consumed so far - hence the final value is independent of the cuts.           *)
EXTENDS Integers, Sequences, FiniteSets, TLC

CONSTANTS MaxN, Keys, Vals, NChunk, FixedVals

RECURSIVE SumV(_)
SumV(s) == IF s = <<>> THEN 0 ELSE Head(s).v + SumV(Tail(s))
Count(s, x) == Cardinality({i \in DOMAIN s : s[i].v = x})
MaxV == CHOOSE m \in Vals : \A x \in Vals : x <= m
BinCount(s) == [b \in 1..(MaxV + 1) |-> Count(s, b - 1)]              \* index b = value b-1
\* groups of a key-sorted sequence: sequence of <<key, sequence of positions>>
RECURSIVE GroupsFrom(_, _)
GroupsFrom(s, i) == IF i > Len(s) THEN <<>>
                    ELSE LET j == CHOOSE j \in i..Len(s) : (\A q \in i..j : s[q].k = s[i].k) /\ (j = Len(s) \/ s[j + 1].k # s[i].k)
                         IN <<<<s[i].k, [q \in 1..(j - i + 1) |-> i + q - 1]>>>> \o GroupsFrom(s, j + 1)
Groups(s) == GroupsFrom(s, 1)

SortedKeySeqs(n) == {f \in [1..n -> Keys] : \A i \in 1..(n - 1) : f[i] <= f[i + 1]}
Datasets == UNION {{[i \in 1..n |-> [k |-> ks[i], v |-> IF FixedVals THEN (i * 2) % (MaxV + 1) ELSE vs[i]]] :
                        ks \in SortedKeySeqs(n), vs \in (IF FixedVals THEN {[i \in 1..n |-> 0]} ELSE [1..n -> Vals])} : n \in 1..MaxN}

VARIABLES data, pos, cuts,
          sum, cnt, bins,            \* reductions
          closed, open,              \* group-by: finished groups, group still open at the chunk border
          buf, out, done,
          lbuf, lout                 \* chunk_lines: buffer and emitted chunks (io/parser.py:292-318)

vars == <<data, pos, cuts, sum, cnt, bins, closed, open, buf, out, done, lbuf, lout>>

Init == /\ data \in Datasets /\ pos = 0 /\ cuts = <<>>
        /\ sum = 0 /\ cnt = 0 /\ bins = [b \in 1..(MaxV + 1) |-> 0]
        /\ closed = <<>> /\ open = <<>>
        /\ buf = <<>> /\ out = <<>> /\ done = FALSE
        /\ lbuf = <<>> /\ lout = <<>>

\* join_groupbys: the first group of a chunk continues the open group when the key is the same
JoinGroups(cl, op, g) ==
  LET first == g[1]
      merged == IF op # <<>> /\ op[1] = first[1] THEN <<op[1], op[2] \o first[2]>> ELSE first
      pre    == IF op # <<>> /\ op[1] # first[1] THEN <<op>> ELSE <<>>
      all    == cl \o pre \o <<merged>> \o SubSeq(g, 2, Len(g))
  IN <<SubSeq(all, 1, Len(all) - 1), all[Len(all)]>>

Shift(g, off) == [i \in DOMAIN g |-> <<g[i][1], [q \in DOMAIN g[i][2] |-> g[i][2][q] + off]>>]

\* chunk_lines emits as many full chunks as the buffer holds (a while loop), chunk_entries at most one per incoming chunk
RECURSIVE Emit_(_, _)
Emit_(b, o) == IF Len(b) >= NChunk THEN Emit_(SubSeq(b, NChunk + 1, Len(b)), Append(o, SubSeq(b, 1, NChunk))) ELSE <<b, o>>

Consume(m) ==
  /\ ~done /\ pos + m <= Len(data)
  /\ LET chunk == SubSeq(data, pos + 1, pos + m)
         g     == JoinGroups(closed, open, Shift(Groups(chunk), pos))
         b     == buf \o [q \in 1..m |-> pos + q]                   \* chunk_entries: buffer of entry positions
     IN /\ sum' = sum + SumV(chunk) /\ cnt' = cnt + m
        /\ bins' = [x \in 1..(MaxV + 1) |-> bins[x] + BinCount(chunk)[x]]
        /\ closed' = g[1] /\ open' = g[2]
        /\ IF Len(b) >= NChunk THEN out' = Append(out, SubSeq(b, 1, NChunk)) /\ buf' = SubSeq(b, NChunk + 1, Len(b))
                               ELSE out' = out /\ buf' = b
  /\ LET r == Emit_(lbuf \o [q \in 1..m |-> pos + q], lout) IN lbuf' = r[1] /\ lout' = r[2]
  /\ pos' = pos + m /\ cuts' = Append(cuts, pos + m)
  /\ UNCHANGED <<data, done>>

Finish == /\ ~done /\ pos = Len(data)
          /\ done' = TRUE
          /\ closed' = (IF open = <<>> THEN closed ELSE Append(closed, open)) /\ open' = <<>>
          /\ out' = (IF buf = <<>> THEN out ELSE Append(out, buf)) /\ buf' = <<>>
          /\ lout' = (IF lbuf = <<>> THEN lout ELSE Append(lout, lbuf)) /\ lbuf' = <<>>
          /\ UNCHANGED <<data, pos, cuts, sum, cnt, bins>>

Next == (\E m \in 1..MaxN : Consume(m)) \/ Finish
Spec == Init /\ [][Next]_vars

\* ---------------------------------------------------------------- properties
Prefix == SubSeq(data, 1, pos)
FoldRight == /\ sum = SumV(Prefix) /\ cnt = pos /\ bins = BinCount(Prefix)
             /\ (closed \o (IF open = <<>> THEN <<>> ELSE <<open>>)) = Groups(Prefix)
RECURSIVE Flatten(_)
Flatten(cs) == IF cs = <<>> THEN <<>> ELSE Head(cs) \o Flatten(Tail(cs))
RechunkRight == /\ Flatten(out) \o buf = [q \in 1..pos |-> q]                            \* order preserved, nothing lost
                /\ \A i \in 1..(Len(out) - (IF done THEN 1 ELSE 0)) : Len(out[i]) = NChunk  \* exactly N except possibly the last
LinesRight == /\ Flatten(lout) \o lbuf = [q \in 1..pos |-> q]
              /\ \A i \in 1..(Len(lout) - (IF done THEN 1 ELSE 0)) : Len(lout[i]) = NChunk
              /\ (done /\ lout # <<>>) => Len(lout[Len(lout)]) <= NChunk
\* the fold is additive: the data repeated m times has m times the counts (a small dataset stands for one of millions of entries,
\* see the big-count part of the C11 driver)
RepData(m) == [q \in 1..(m * Len(data)) |-> data[((q - 1) % Len(data)) + 1]]
BinsOfRepeat == \A m \in {2, 3} : data # <<>> => BinCount(RepData(m)) = [b \in DOMAIN BinCount(data) |-> m * BinCount(data)[b]]
Final == done => /\ sum = SumV(data) /\ cnt = Len(data) /\ bins = BinCount(data) /\ closed = Groups(data)
==============================================================================
