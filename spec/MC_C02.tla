------------------------------- MODULE MC_C02 -------------------------------
(* A file of format Fmt is assembled line by line: optional header/comment lines first, then   *)
(* sample records in any order and multiplicity (an interior comment line for the formats that  *)
(* allow it), with LF or CRLF line ends and with or without a final newline.  Every state is a   *)
(* well-formed file; it is printed with the entries Formats.tla assigns to its text.            *)
EXTENDS Formats, FormatSamples, Json
CONSTANTS Fmt, MaxRecords, WrapWidths
VARIABLES lines, picks, crlf, finalnl, withHeader, phase, width
vars == <<lines, picks, crlf, finalnl, withHeader, phase, width>>

BaseFmt == IF Fmt = "bed6dot" THEN "bed6" ELSE IF Fmt \in {"vcfinfo", "vcfphased"} THEN "vcf" ELSE Fmt
InteriorComments == Fmt \in {"wig", "gff"}
IsSeqFmt == Fmt \in {"fasta", "fastq"}
Hdr == IF IsSeqFmt THEN <<>> ELSE HeaderLines[Fmt]
Init == /\ lines = <<>> /\ picks = <<>> /\ phase = "build"
        /\ crlf \in BOOLEAN /\ finalnl \in BOOLEAN /\ withHeader \in (IF Hdr = <<>> THEN {FALSE} ELSE IF Fmt \in {"vcfinfo", "vcfphased"} THEN {TRUE} ELSE BOOLEAN)
        /\ width \in (IF Fmt = "fasta" THEN WrapWidths ELSE {0})
\* sequence split into lines of `width` (the last one shorter or full)
RECURSIVE WrapLines(_, _)
WrapLines(sq, w) == IF sq = <<>> THEN <<>> ELSE <<SubSeq(sq, 1, IF Len(sq) < w THEN Len(sq) ELSE w)>> \o WrapLines(SubSeq(sq, w + 1, Len(sq)), w)
Picks == IF Fmt = "fasta" THEN {<<i, j>> : i \in DOMAIN FastaNames, j \in {k \in DOMAIN FastaSeqs : FastaSeqs[k] # <<>>}}
         ELSE IF Fmt = "fastq" THEN DOMAIN FastqRecords ELSE DOMAIN SampleLines[Fmt]
RecordLines(p) == IF Fmt = "fasta" THEN <<<<GT>> \o FastaNames[p[1]]>> \o WrapLines(FastaSeqs[p[2]], width)
                  ELSE IF Fmt = "fastq" THEN <<<<AT>> \o FastqRecords[p][1], FastqRecords[p][2], FastqRecords[p][3], FastqRecords[p][4]>>
                  ELSE <<SampleLines[Fmt][p]>>
RecordMeaning(p) == IF Fmt = "fasta" THEN <<FastaNames[p[1]], FastaSeqs[p[2]]>>
                    ELSE IF Fmt = "fastq" THEN <<FastqRecords[p][1], FastqRecords[p][2], [i \in DOMAIN FastqRecords[p][4] |-> FastqRecords[p][4][i] - 33]>>
                    ELSE IF Fmt = "vcfinfo" THEN ParseVcfTyped(SampleLines[Fmt][p] \o <<LF>>, InfoDecl)[1]
                    ELSE IF Fmt = "vcfphased" THEN ParseVcfPhased(SampleLines[Fmt][p] \o <<LF>>)[1]
                    ELSE ParseLine(BaseFmt, SampleLines[Fmt][p])
AddRecord == /\ phase = "build" /\ Len(picks) < MaxRecords
             /\ \E p \in Picks : lines' = lines \o RecordLines(p) /\ picks' = Append(picks, p)
             /\ UNCHANGED <<crlf, finalnl, withHeader, phase, width>>
AddComment == /\ phase = "build" /\ InteriorComments /\ picks # <<>> /\ Len(lines) = Len(picks)     \* at most one, after a record
              /\ lines' = Append(lines, HeaderLines[Fmt][1]) /\ UNCHANGED <<picks, crlf, finalnl, withHeader, phase, width>>
Close == phase = "build" /\ picks # <<>> /\ phase' = "file" /\ UNCHANGED <<lines, picks, crlf, finalnl, withHeader, width>>
Next == AddRecord \/ AddComment \/ Close
Spec == Init /\ [][Next]_vars

EOL == IF crlf THEN <<CR, LF>> ELSE <<LF>>
AllLines == (IF withHeader THEN Hdr ELSE <<>>) \o lines
Text == LET t == Concat([i \in DOMAIN AllLines |-> AllLines[i] \o EOL]) IN
        IF finalnl THEN t ELSE SubSeq(t, 1, Len(t) - Len(EOL))
Expected == IF Fmt = "vcfinfo" THEN ParseVcfTyped(Text, InfoDecl) ELSE IF Fmt = "vcfphased" THEN ParseVcfPhased(Text) ELSE Parse(BaseFmt, Text)
\* the phased code of a genotype determines its text
PhasedInverse == (phase = "file" /\ Fmt = "vcfphased") => \A i \in DOMAIN Expected : \A c \in DOMAIN Expected[i].gt : PhasedText(Expected[i].phased[c]) = Expected[i].gt[c]
\* design invariants: comment/header lines never become entries; the entries are those of the chosen sample lines, whatever
\* the line ends, the final newline and the header are
EntriesAreRecords == phase = "file" => /\ Len(Expected) = Len(picks)
                                       /\ \A k \in DOMAIN picks : Expected[k] = RecordMeaning(picks[k])
\* what the same data lines mean in a file whose header declares the same INFO keys with other types
ExpectedAlt == IF Fmt = "vcfinfo" THEN ParseVcfTyped(Text, AltInfoDecl) ELSE <<>>
Emit == phase = "file" => PrintT(ToJson([fmt |-> Fmt, text |-> Text, expected |-> Expected, expectedAlt |-> ExpectedAlt, picks |-> picks,
                                         crlf |-> crlf, finalnl |-> finalnl, header |-> withHeader, width |-> width,
                                         ncomments |-> IF IsSeqFmt THEN 0 ELSE Len(lines) - Len(picks)]))
==============================================================================
