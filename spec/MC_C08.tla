------------------------------- MODULE MC_C08 -------------------------------
(* C08: interval-set operations equal their per-base definitions.                           *)
(* State machine: two interval collections a and b on one contig of size S grow by one      *)
(* interval per step (AddA in any order: nested, duplicated, touching, unsorted; AddB keeps  *)
(* b sorted and internally disjoint, the documented precondition of the pair operations).   *)
(* Every reachable state is printed with the values the definitions of Intervals.tla assign *)
(* to every operation; the driver replays the state into bionumpy and compares.             *)
EXTENDS Intervals, TLC, Json

CONSTANTS S,        \* contig size
          NA,       \* max intervals in a
          NB,       \* max intervals in b
          LO, HI    \* extra room outside the contig for Clip inputs: starts from -LO, stops to S+HI

VARIABLES a, b

vars == <<a, b>>

AllIvs == {iv \in [s : 0..S, e : 0..S] : iv.s < iv.e}

Init == a = <<>> /\ b = <<>>

AddA(iv) == /\ Len(a) < NA /\ b = <<>>
            /\ a' = Append(a, iv) /\ UNCHANGED b

\* b is built after a is complete (any length), sorted and disjoint; pair vectors need a sorted/disjoint too
AddB(iv) == /\ Len(b) < NB
            /\ (IF b = <<>> THEN TRUE ELSE b[Len(b)].e <= iv.s)
            /\ b' = Append(b, iv) /\ UNCHANGED a

Next == \E iv \in AllIvs : AddA(iv) \/ AddB(iv)

Spec == Init /\ [][Next]_vars

-----------------------------------------------------------------------------
\* sanity of the transcription (checked by TLC on every state; a failure here is my mistake)
SumIsLength      == SumSeq(Pileup(a, S)) = TotalLen(a)
MaskIsMergeMask  == Mask(Merge(a, S, 0), S) = Mask(a, S)
MergeIdempotent  == \A d \in 0..S : Merge(Merge(a, S, d), S, d) = Merge(a, S, d)
MergeDisjoint    == \A d \in 0..S : LET m == Merge(a, S, d) IN
                       \A i \in 1..(Len(m) - 1) : m[i].e + d < m[i + 1].s
SortIsPermutation == LET so == SortIvs(a) IN
                       /\ Len(so) = Len(a)
                       /\ \A iv \in AllIvs : Cardinality({i \in DOMAIN a : a[i].s = iv.s /\ a[i].e = iv.e})
                                           = Cardinality({i \in DOMAIN so : so[i] = iv})
                       /\ \A i \in 1..(Len(so) - 1) : LessEq(so[i], so[i + 1])
FastFormsAgree   == \A d \in 0..S : MergeDecl(a, S, d) = Merge(a, S, d)
\* coverage is additive: the collection listed m times has m times the pile-up (a small state stands for a depth above any counter width)
RepA(m) == [q \in 1..(m * Len(a)) |-> a[((q - 1) % Len(a)) + 1]]
PileupOfRepeat == \A m \in {2, 3} : a # <<>> => Pileup(RepA(m), S) = [p \in 1..S |-> m * Pileup(a, S)[p]]
OverlapSymmetric == OverlapCount(a, b, S) = OverlapCount(b, a, S)
ExtendInside     == \A i \in DOMAIN a : \A l \in 1..S : \A st \in {"+", "-"} :
                       Inside(ExtendToSize(a[i], st, l, S), S)
\* an empty interval [p, p) inserted anywhere in the collection covers nothing
EmptyCoversNothing == \A k \in 1..(Len(a) + 1) : \A p \in 0..S :
                        LET a2 == SubSeq(a, 1, k - 1) \o <<[s |-> p, e |-> p]>> \o SubSeq(a, k, Len(a))
                        IN Mask(a2, S) = Mask(a, S) /\ Pileup(a2, S) = Pileup(a, S)
\* action property: adding an interval never lowers the pile-up anywhere
PileupMonotone   == [][\A p \in 1..S : Pileup(a', S)[p] >= Pileup(a, S)[p]]_vars

-----------------------------------------------------------------------------
Strand(k, i) == CASE k = 1 -> "+" [] k = 2 -> "-"
                  [] k = 3 -> (IF i % 2 = 1 THEN "+" ELSE "-")
                  [] OTHER -> (IF i % 2 = 1 THEN "-" ELSE "+")

\* Clip inputs: the intervals of a shifted so that some stick out of the contig on either side
Shift(iv, i) == CASE i % 3 = 0 -> [s |-> iv.s - LO, e |-> iv.e]
                  [] i % 3 = 1 -> [s |-> iv.s, e |-> iv.e + HI]
                  [] OTHER     -> [s |-> iv.s - LO, e |-> iv.e + HI]

Single == [kind   |-> "single", size |-> S, a |-> a,
           pileup |-> Pileup(a, S),
           mask   |-> Mask(a, S),
           sorted |-> SortIvs(a),
           merge  |-> [k \in 1..(S + 1) |-> Merge(a, S, k - 1)],   \* distance k-1, input SortIvs(a)
           extend |-> [k \in 1..4 |-> [l \in 1..S |->
                          [i \in DOMAIN a |-> ExtendToSize(a[i], Strand(k, i), l, S)]]],
           \* the same intervals on three contigs of sizes S, S + 1, S + 2 (strand pattern 3): each is clipped at the end of ITS OWN contig
           extend3 |-> [j \in 1..3 |-> [l \in 1..S |-> [i \in DOMAIN a |-> ExtendToSize(a[i], Strand(3, i), l, S + j - 1)]]],
           strands |-> [k \in 1..4 |-> [i \in DOMAIN a |-> Strand(k, i)]],
           clipin |-> [i \in DOMAIN a |-> Shift(a[i], i)],
           clip   |-> [i \in DOMAIN a |-> Clip(Shift(a[i], i), S)]]

Pair == [kind |-> "pair", size |-> S, a |-> a, b |-> b,
         apre      |-> IsSortedDisjoint(a),
         overlap   |-> OverlapCount(a, b, S),
         intersect |-> IntersectCov(a, b, S),
         unique    |-> UniqueIntersect(a, b),
         cont      |-> Contingency(a, b, S),
         jaccard   |-> Jaccard(a, b, S),
         forbes    |-> Forbes(a, b, S),
         \* a genome of three contigs: contig 1 holds a and b, contig 2 holds a only, contig 3 holds nothing.
         \* The table of the genome is the sum of the tables of its contigs (no contig may be skipped, an empty one counts as "neither").
         \* (the contigs have the sizes S, S + 1 and S + 2, so that pairing a contig with another contig's size changes the table)
         genome3   |-> LET t == <<Contingency(a, b, S), Contingency(a, <<>>, S + 1), Contingency(<<>>, <<>>, S + 2)>>
                           c == [k \in 1..4 |-> t[1][k] + t[2][k] + t[3][k]]
                       IN [cont |-> c, jaccard |-> <<c[1], c[1] + c[2] + c[3]>>,
                           forbes |-> <<c[1] * (c[1] + c[2] + c[3] + c[4]), (c[1] + c[2]) * (c[1] + c[3])>>],
         \* all-against-all similarity of three sets: a, b and the maximal runs of their union
         third     |-> Merge(a \o b, S, 0),
         jaccardAll |-> LET sets == <<a, b, Merge(a \o b, S, 0)>> IN [i \in 1..3 |-> [j \in 1..3 |-> Jaccard(sets[i], sets[j], S)]]]

Emit == PrintT(ToJson(IF b = <<>> THEN Single ELSE Pair))
==============================================================================
