------------------------------- MODULE Consensus -------------------------------
(* Applying single-base variants to reference sequences (bionumpy/variants/consensus.py:          *)
(* apply_variants, apply_variants_to_sequence; specification growth, run by ./check EXT).          *)
(* A variant is <<contig, position (0-based), alternative base>> at a position where the reference *)
(* holds another base; positions are distinct.  The consensus of a contig is its reference with    *)
(* the alternative base at every variant position of THAT contig and the reference base elsewhere. *)
EXTENDS Integers, Sequences, FiniteSets, TLC

CONSTANTS Refs,        \* sequence of reference sequences (letters 0..3 = A C G T)
          MaxVars

VARIABLES vars_       \* sequence of variants, in the order given (a VCF lists them in genome order; any order is allowed here)
vars == <<vars_>>

Candidates == {<<c, p, a>> \in (DOMAIN Refs) \X (0..7) \X (0..3) : p < Len(Refs[c]) /\ a # Refs[c][p + 1]}
Taken == {<<vars_[i][1], vars_[i][2]>> : i \in DOMAIN vars_}
Init == vars_ = <<>>
Add(s) == Len(vars_) < MaxVars /\ <<s[1], s[2]>> \notin Taken /\ vars_' = Append(vars_, s)
Next == \E s \in Candidates : Add(s)
Spec == Init /\ [][Next]_vars

AltAt(c, p) == LET S == {i \in DOMAIN vars_ : vars_[i][1] = c /\ vars_[i][2] = p} IN
               IF S = {} THEN Refs[c][p + 1] ELSE vars_[CHOOSE i \in S : TRUE][3]
Consensus == [c \in DOMAIN Refs |-> [q \in DOMAIN Refs[c] |-> AltAt(c, q - 1)]]

\* ---- properties of the definition
LengthKept == \A c \in DOMAIN Refs : Len(Consensus[c]) = Len(Refs[c])
OnlyVariantPositionsChange == \A c \in DOMAIN Refs : \A q \in DOMAIN Refs[c] :
                                 (Consensus[c][q] # Refs[c][q]) <=> (<<c, q - 1>> \in Taken)
\* a contig without variants is untouched, and adding a variant changes one letter of one contig only
OneLetter == [][\A c \in DOMAIN Refs : \A q \in DOMAIN Refs[c] :
                   (<<c, q - 1>> # <<vars_'[Len(vars_')][1], vars_'[Len(vars_')][2]>>) => Consensus'[c][q] = Consensus[c][q]]_vars
==============================================================================
