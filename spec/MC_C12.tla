------------------------------- MODULE MC_C12 -------------------------------
EXTENDS Synchronise, Json
G1 == <<"a">>
G2 == <<"a", "b">>
G3 == <<"a", "b", "c">>
G4 == <<"a", "b", "c", "d">>
G3u == <<"a", "b_u", "c">>            \* an included contig whose name contains an underscore
G3p == <<"chr1", "chr11", "chr2">>      \* one name is a prefix of another
G3r == <<"a", "b", "aa">>                 \* a one-letter name and a name made of repetitions of that letter, another contig between them
Emit == status \in {"error", "completed"} =>
          PrintT(ToJson([genome |-> Genome, groups |-> groups, consumer |-> consumer, mech |-> Mechanism,
                         status |-> status, out |-> out, pulls |-> pulls, derived |-> (derived # {}),
                         compatible |-> Compatible(groups), slots |-> Slots(groups)]))
==============================================================================
