----------------------------- MODULE Synchronise -----------------------------
(* Per-chromosome synchronisation of grouped, streamed data with a genome (property C12).   *)
(*                                                                                          *)
(* Data = a sequence of contig groups (each name once, entries of one contig contiguous).   *)
(* L0 (meaning): if the non-ignored groups are all contigs of the genome and appear in the  *)
(* genome's order, every contig slot receives exactly its own group (or "empty"); otherwise *)
(* an error is raised.  Evaluation never completes with a group left out or misplaced.      *)
(*                                                                                          *)
(* L1a: GenomeContext.iter_chromosomes  (bionumpy/genomic_data/genome_context.py:106-135):  *)
(*   a generator with one-group look-ahead; one Step per consumer pull.  The CONSUMER is    *)
(*   part of the model: pipelines zipped with the contig-size / contig-name stream pull     *)
(*   exactly |Genome| times ("exact"), reductions and plain iteration pull once more        *)
(*   ("exhaust") and so resume the generator after its last yield.                          *)
(*   AsBuilt = TRUE: the order check sits after the yield (pinned tree);                    *)
(*   AsBuilt = FALSE: look-ahead and check before the yield (repaired).                     *)
(* L1b: SynchedStream.__iter__ (bionumpy/streams/multistream.py:63-106): driven by the      *)
(*   groups, fills missing contigs with defaults; no ignored names.                         *)
EXTENDS Integers, Sequences, FiniteSets, TLC

CONSTANTS Genome,        \* sequence of contig names
          Unknown,       \* a name that is neither in the genome nor ignored
          Ignored,       \* a name that is ignored (dropped silently by design); "" = none
          Ignored2,      \* a second ignored name ("" = none): two ignored contigs can follow each other in the data
          AsBuilt,
          Mechanism      \* "iter_chromosomes" | "synched_stream"

GSet == {Genome[i] : i \in DOMAIN Genome}
IgnSet == {x \in {Ignored, Ignored2} : x # ""}
Names == GSet \cup {Unknown} \cup (IF Mechanism = "synched_stream" THEN {} ELSE IgnSet)

\* all sequences of distinct names
RECURSIVE Arr(_, _)
Arr(S, k) == IF k = 0 THEN {<<>>}
             ELSE UNION {{<<x>> \o t : t \in Arr(S \ {x}, k - 1)} : x \in S}
GroupSeqs == UNION {Arr(Names, k) : k \in 0..Cardinality(Names)}

Pos(name) == CHOOSE i \in DOMAIN Genome : Genome[i] = name

\* ---------------------------------------------------------------- L0
RECURSIVE Filter(_, _)
Filter(s, drop) == IF s = <<>> THEN <<>>
                   ELSE (IF Head(s) \in drop THEN <<>> ELSE <<Head(s)>>) \o Filter(Tail(s), drop)
Compatible(groups) == LET g == Filter(groups, IgnSet) IN
                      /\ \A i \in DOMAIN g : g[i] \in GSet
                      /\ \A i, j \in DOMAIN g : i < j => Pos(g[i]) < Pos(g[j])
Slots(groups) == [i \in DOMAIN Genome |-> IF \E k \in DOMAIN groups : groups[k] = Genome[i] THEN Genome[i] ELSE "empty"]

\* ---------------------------------------------------------------- state
VARIABLES groups, consumer,                \* configuration
          ci, gi, nextName, seen,          \* generator state
          out, status, pulls,
          ctxIgnored,                      \* the ignored names of THIS genome context (state of the object, not of the call)
          derived                          \* contexts derived from this one with with_ignored_added: set of their ignored sets

vars == <<groups, consumer, ci, gi, nextName, seen, out, status, pulls, ctxIgnored, derived>>

\* fetch the next non-ignored group name from position g on: <<name or "none" or "unknown!", next index>>
RECURSIVE Fetch(_, _)
Fetch(gs, g) == IF g > Len(gs) THEN <<"none", g>>
                ELSE IF gs[g] \in ctxIgnored /\ Mechanism = "iter_chromosomes" THEN Fetch(gs, g + 1)
                ELSE <<gs[g], g + 1>>

Init == /\ groups \in GroupSeqs
        /\ consumer \in (IF Mechanism = "iter_chromosomes" THEN {"exact", "exhaust"} ELSE {"exhaust"})
        /\ ci = 1 /\ gi = 1 /\ nextName = "unfetched" /\ seen = {}
        /\ out = <<>> /\ status = "run"
        /\ pulls = 0
        /\ ctxIgnored = IgnSet
        /\ derived = {}

MaxPulls == Len(Genome) + (IF consumer = "exhaust" THEN 1 ELSE 0)

\* ---- iter_chromosomes -----------------------------------------------------------------------
\* first pull runs the generator up to its first yield, including the first look-ahead
Prime == /\ Mechanism = "iter_chromosomes" /\ status = "run" /\ nextName = "unfetched"
         /\ LET f == Fetch(groups, 1) IN
            IF f[1] = Unknown THEN status' = "error" /\ UNCHANGED <<nextName, gi>>      \* _included_groups raises
            ELSE nextName' = f[1] /\ gi' = f[2] /\ status' = "run"
         /\ UNCHANGED <<groups, consumer, ci, seen, out, pulls, ctxIgnored, derived>>

Step ==
  /\ Mechanism = "iter_chromosomes" /\ status = "run" /\ nextName # "unfetched"
  /\ pulls < MaxPulls
  /\ pulls' = pulls + 1
  /\ IF ci > Len(Genome)
     THEN \* resumed after the last yield: loop is over, left-over check (genome_context.py:134-135)
          /\ status' = IF nextName # "none" THEN "error" ELSE "completed"
          /\ UNCHANGED <<ci, gi, nextName, seen, out>>
     ELSE LET name == Genome[ci] IN
          IF name = nextName
          THEN LET f == Fetch(groups, gi) IN
               IF AsBuilt
               THEN \* yield first; the look-ahead and its check run when the consumer pulls again
                    /\ out' = Append(out, name) /\ ci' = ci + 1 /\ seen' = seen \cup {name}
                    /\ nextName' = f[1] /\ gi' = f[2]
                    /\ status' = IF f[1] = Unknown \/ f[1] \in seen THEN "deferred" ELSE "run"
               ELSE \* repaired: look ahead and check before yielding
                    IF f[1] = Unknown \/ (f[1] # "none" /\ (f[1] \in seen \cup {name} \/ Pos(f[1]) <= ci))
                    THEN status' = "error" /\ UNCHANGED <<ci, gi, nextName, seen, out>>
                    ELSE /\ out' = Append(out, name) /\ ci' = ci + 1 /\ seen' = seen \cup {name}
                         /\ nextName' = f[1] /\ gi' = f[2] /\ status' = "run"
          ELSE /\ out' = Append(out, "empty") /\ ci' = ci + 1 /\ seen' = seen \cup {name}
               /\ UNCHANGED <<gi, nextName>> /\ status' = "run"
  /\ UNCHANGED <<groups, consumer, ctxIgnored, derived>>

\* as built: the error that was due after the yield is raised only if the consumer pulls again
Deferred == /\ status = "deferred"
            /\ IF pulls < MaxPulls THEN status' = "error" /\ pulls' = pulls + 1
                                   ELSE status' = "completed" /\ pulls' = pulls
            /\ UNCHANGED <<groups, consumer, ci, gi, nextName, seen, out, ctxIgnored, derived>>

\* the consumer stops pulling (zip with the contig sizes is exhausted): evaluation completes
Finish == /\ Mechanism = "iter_chromosomes" /\ status = "run" /\ nextName # "unfetched"
          /\ pulls = MaxPulls /\ status' = "completed"
          /\ UNCHANGED <<groups, consumer, ci, gi, nextName, seen, out, pulls, ctxIgnored, derived>>

\* ---- SynchedStream ---------------------------------------------------------------------------
\* one step per group of the data (multistream.py:68-95), then the trailing defaults (96-103)
SStep ==
  /\ Mechanism = "synched_stream" /\ status = "run"
  /\ IF gi > Len(groups)
     THEN /\ out' = out \o [k \in 1..(Len(Genome) - ci + 1) |-> "empty"]
          /\ ci' = Len(Genome) + 1 /\ status' = "completed" /\ UNCHANGED <<gi, seen>>
     ELSE LET name == groups[gi] IN
          IF name \in seen \/ name \notin GSet
          THEN status' = "error" /\ UNCHANGED <<ci, gi, seen, out>>
          ELSE LET p == Pos(name) IN          \* >= ci because everything before ci is in seen
               /\ out' = out \o [k \in 1..(p - ci) |-> "empty"] \o <<name>>
               /\ seen' = seen \cup {Genome[k] : k \in ci..p}
               /\ ci' = p + 1 /\ gi' = gi + 1 /\ status' = "run"
  /\ UNCHANGED <<groups, consumer, nextName, pulls, ctxIgnored, derived>>

\* ---- GenomeContext.with_ignored_added (genome_context.py:40-56) --------------------------------
\* a NEW context with more ignored names; this context keeps its own (the two do not share the set).
\* Modelled before the stream is opened: what matters is that the later evaluation is unaffected.
Derive == /\ Mechanism = "iter_chromosomes" /\ status = "run" /\ nextName = "unfetched" /\ derived = {}
          /\ derived' = {ctxIgnored \cup {Genome[Len(Genome)], Unknown}}
          /\ UNCHANGED <<groups, consumer, ci, gi, nextName, seen, out, status, pulls, ctxIgnored>>

Next == Prime \/ Step \/ Deferred \/ Finish \/ SStep \/ Derive
Spec == Init /\ [][Next]_vars

\* Two genome contexts built separately are compatible (data tied to one may index data tied to the other) iff they list the same
\* contigs in the same order; anything else is refused, never paired contig by contig (genome_context.py: is_compatible).
ContextsCompatible(g1, g2) == g1 = g2
Reversed(g) == [i \in DOMAIN g |-> g[Len(g) + 1 - i]]
ReversedIsIncompatible == Len(Genome) >= 2 => ~ContextsCompatible(Genome, Reversed(Genome))

\* ---------------------------------------------------------------- properties
\* C12: evaluation never completes with entries left out or assigned to another contig
NoSilentDrop == status = "completed" => (Compatible(groups) /\ out = Slots(groups))
\* and compatible data is never refused
NoSpuriousError == status = "error" => ~Compatible(groups)
\* what is delivered so far is always right (a prefix of the slots), whatever happens later
PrefixRight == \A i \in DOMAIN out : out[i] \in {"empty", Genome[i]}
\* deriving a context never changes the names this one ignores
DeriveFrame == [][ctxIgnored' = ctxIgnored]_vars
\* a derived context ignores everything its parent ignores, and the added names
DerivedKeepsIgnored == \A d \in derived : ctxIgnored \subseteq d /\ Unknown \in d
TypeOK == status \in {"run", "deferred", "error", "completed"} /\ ci \in 1..(Len(Genome) + 1)
==============================================================================
