--------------------------------- MODULE Bam ---------------------------------
(* BAM alignment records (property C16), after SAMv1 section 4.2.                            *)
(* A record is [ref, pos, name, mapq, flag, cigar, seq, qual, tags] with                     *)
(*   ref   reference id (-1 = unmapped), pos 0-based leftmost position,                       *)
(*   name  read name as byte codes (without the terminating NUL),                             *)
(*   cigar sequence of <<op, len>>, op in 0..8 for MIDNSHP=X,                                  *)
(*   seq   sequence of 4-bit base codes (index into "=ACMGRSVTWYHKDBN"),                      *)
(*   qual  sequence of Phred values, tags raw optional-field bytes.                           *)
(* EncodeRecord is the specification-level encoder the property asks for: TLC prints records  *)
(* together with their bytes.  Decode is the inverse by field selectors at data-dependent      *)
(* offsets; TLC checks Decode(Encode(r)) = r.                                                 *)
EXTENDS Integers, Sequences, FiniteSets, TLC

\* little endian bytes; a negative 32-bit value x is the bitwise complement of -x-1 (two's complement), which keeps
\* every intermediate number inside TLC's 32-bit integers
Byte(x, i) == (x \div (IF i = 0 THEN 1 ELSE IF i = 1 THEN 256 ELSE IF i = 2 THEN 65536 ELSE 16777216)) % 256
U16(x) == <<Byte(x, 0), Byte(x, 1)>>
I32(x) == IF x >= 0 THEN <<Byte(x, 0), Byte(x, 1), Byte(x, 2), Byte(x, 3)>>
          ELSE LET y == -x - 1 IN <<255 - Byte(y, 0), 255 - Byte(y, 1), 255 - Byte(y, 2), 255 - Byte(y, 3)>>
\* one CIGAR operation is the 32-bit word len * 16 + op with len < 2^28; it is written byte by byte so that a length above 2^27 (whose
\* word has the top bit set) never leaves TLC's 32-bit integers
CigarWord(op, len) == <<(len % 16) * 16 + op, Byte(len \div 16, 0), Byte(len \div 16, 1), Byte(len \div 16, 2)>>
\* (both packers are written as functions of the byte position, not by recursion, so that reads of tens of thousands of bases stay cheap in TLC)
CigarBytes(c) == [j \in 1..(4 * Len(c)) |-> LET k == (j + 3) \div 4 IN CigarWord(c[k][1], c[k][2])[((j - 1) % 4) + 1]]
PackSeq(s) == [j \in 1..((Len(s) + 1) \div 2) |-> s[2 * j - 1] * 16 + (IF 2 * j <= Len(s) THEN s[2 * j] ELSE 0)]
Body(r) == I32(r.ref) \o I32(r.pos) \o <<Len(r.name) + 1, r.mapq>> \o U16(4680) \o U16(Len(r.cigar)) \o U16(r.flag)
           \o I32(Len(r.seq)) \o I32(-1) \o I32(-1) \o I32(0)
           \o r.name \o <<0>> \o CigarBytes(r.cigar) \o PackSeq(r.seq) \o r.qual \o r.tags
EncodeRecord(r) == I32(Len(Body(r))) \o Body(r)
RECURSIVE EncodeAll(_)
EncodeAll(rs) == IF rs = <<>> THEN <<>> ELSE EncodeRecord(rs[1]) \o EncodeAll(Tail(rs))

\* ---- decoding by field selectors (what a reader must do)
RdI32(b, o) == LET u == b[o + 1] + 256 * b[o + 2] + 65536 * b[o + 3] + 16777216 * (b[o + 4] % 128) IN
               IF b[o + 4] >= 128 THEN u - 2147483647 - 1 ELSE u           \* two's complement without leaving 32-bit integers
RdU16(b, o) == b[o + 1] + 256 * b[o + 2]
Decode(b, o) ==      \* record starting at byte offset o
  LET size  == RdI32(b, o)
      lname == b[o + 13]
      ncig  == RdU16(b, o + 16)
      lseq  == RdI32(b, o + 20)
      nameS == o + 36
      cigS  == nameS + lname
      seqS  == cigS + 4 * ncig
      qualS == seqS + (lseq + 1) \div 2
      tagS  == qualS + lseq
      endR  == o + 4 + size
  IN [ref  |-> RdI32(b, o + 4), pos |-> RdI32(b, o + 8), mapq |-> b[o + 14], flag |-> RdU16(b, o + 18),
      name |-> SubSeq(b, nameS + 1, cigS - 1),
      cigar |-> [k \in 1..ncig |-> LET q == cigS + 4 * (k - 1) IN
                                    <<b[q + 1] % 16, b[q + 1] \div 16 + 16 * (b[q + 2] + 256 * b[q + 3] + 65536 * b[q + 4])>>],
      seq  |-> [k \in 1..lseq |-> LET byte == b[seqS + 1 + (k - 1) \div 2] IN IF k % 2 = 1 THEN byte \div 16 ELSE byte % 16],
      qual |-> SubSeq(b, qualS + 1, qualS + lseq),
      tags |-> SubSeq(b, tagS + 1, endR)]

\* reference interval of an alignment: M D N = X consume the reference
RefConsuming == {0, 2, 3, 7, 8}
RECURSIVE RefLen(_)
RefLen(c) == IF c = <<>> THEN 0 ELSE (IF c[1][1] \in RefConsuming THEN c[1][2] ELSE 0) + RefLen(Tail(c))
RefInterval(r) == [start |-> r.pos, stop |-> r.pos + RefLen(r.cigar), strand |-> IF (r.flag \div 16) % 2 = 1 THEN "-" ELSE "+"]
==============================================================================
