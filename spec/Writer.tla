-------------------------------- MODULE Writer --------------------------------
(* Writing is canonical and composable (property C03).                                       *)
(* A writer (bionumpy/io/parser.py:209-273) is opened on a target, receives the rows of a    *)
(* table in successive pieces (possibly empty), may be closed and re-opened in append mode,  *)
(* and may be handed a whole stream of chunks at once.  Whatever the split, the target holds *)
(*        Header (exactly once, only for formats/tables that have one)                        *)
(*     \o Serialise(all rows written so far)                                                  *)
(* and it only ever grows by a suffix.                                                        *)
EXTENDS Formats, FormatSamples

CONSTANTS Fmt, MaxRows, WithHeader, Width, MaxCalls

VARIABLES rows,       \* the whole table: sequence of sample indices (FASTA: <<name index, sequence index>>)
          done,       \* number of rows written so far
          file,       \* bytes in the target
          hdrDone,    \* has this writer object emitted the header
          mode,       \* "w" first writer, "a" re-opened in append mode
          isOpen,
          pieces,     \* history: sizes of the pieces written; -1 = close, -2 = re-open in append mode
          hdrInFile   \* has a header been written to the target
vars == <<rows, done, file, hdrDone, mode, isOpen, pieces, hdrInFile>>

Picks == IF Fmt = "fasta" THEN {<<i, j>> : i \in DOMAIN FastaNames, j \in DOMAIN LongSeqLens}
         ELSE IF Fmt = "fastq" THEN DOMAIN FastqRecords ELSE DOMAIN SampleLines[Fmt]
SeqOfLen(n) == [i \in 1..n |-> IF i % 4 = 1 THEN 65 ELSE IF i % 4 = 2 THEN 67 ELSE IF i % 4 = 3 THEN 71 ELSE 84]    \* ACGTACGT...
RowValue(p) == IF Fmt = "fasta" THEN <<FastaNames[p[1]], SeqOfLen(LongSeqLens[p[2]])>>
               ELSE IF Fmt = "fastq" THEN <<FastqRecords[p][1], FastqRecords[p][2], [i \in DOMAIN FastqRecords[p][4] |-> FastqRecords[p][4][i] - 33]>>
               ELSE ParseLine(Fmt, SampleLines[Fmt][p])
Table(ps) == [i \in DOMAIN ps |-> RowValue(ps[i])]
Header == IF WithHeader THEN Concat([i \in DOMAIN HeaderLines[Fmt] |-> HeaderLines[Fmt][i] \o <<LF>>]) ELSE <<>>
Bytes(ps) == Serialise(Fmt, Table(ps), Width)

Init == /\ rows \in UNION {[1..n -> Picks] : n \in 0..MaxRows}
        /\ done = 0 /\ file = <<>> /\ hdrDone = FALSE /\ mode = "w" /\ isOpen = TRUE /\ pieces = <<>> /\ hdrInFile = FALSE

\* one write() call with the next k rows (k = 0: an empty table)
Write(k) == /\ isOpen /\ done + k <= Len(rows) /\ Len(pieces) < MaxCalls
            /\ LET emitHeader == mode = "w" /\ ~hdrDone                       \* parser.py:254-259: never in append mode
               IN /\ file' = file \o (IF emitHeader THEN Header ELSE <<>>) \o Bytes(SubSeq(rows, done + 1, done + k))
                  /\ hdrDone' = (hdrDone \/ emitHeader) /\ hdrInFile' = (hdrInFile \/ emitHeader)
            /\ done' = done + k /\ pieces' = Append(pieces, k) /\ UNCHANGED <<rows, mode, isOpen>>
Close == isOpen /\ pieces # <<>> /\ Len(pieces) < MaxCalls /\ isOpen' = FALSE /\ pieces' = Append(pieces, -1) /\ UNCHANGED <<rows, done, file, hdrDone, mode, hdrInFile>>
Reopen == /\ ~isOpen /\ done < Len(rows) /\ Len(pieces) < MaxCalls /\ isOpen' = TRUE /\ mode' = "a" /\ hdrDone' = FALSE
          /\ pieces' = Append(pieces, -2) /\ UNCHANGED <<rows, done, file, hdrInFile>>
Next == (\E k \in 0..MaxRows : Write(k)) \/ Close \/ Reopen
Spec == Init /\ [][Next]_vars

\* ---- properties
Canonical == file = (IF hdrInFile THEN Header ELSE <<>>) \o Bytes(SubSeq(rows, 1, done))
\* the header is written by the first write() call of the first writer and never again
HeaderOnce == [][hdrInFile => (hdrInFile' /\ (Len(file') - Len(file) = Len(Bytes(SubSeq(rows, done + 1, done')))))]_vars
IsPrefix(s, t) == Len(s) <= Len(t) /\ SubSeq(t, 1, Len(s)) = s
OnlyGrows == [][IsPrefix(file, file')]_vars
\* the bytes do not depend on how the rows were split (stated on complete writes)
Complete == done = Len(rows) /\ (pieces # <<>>)
==============================================================================
