-------------------------------- MODULE Lookup --------------------------------
(* Tables indexed by letters (bionumpy/encoded_array.py: EncodedLookup; specification growth, run   *)
(* by ./check EXT).  A lookup over an alphabet of n letters is a function from letters (1-D) or     *)
(* pairs of letters (2-D) to numbers.  Reading with a text gives the values of its letters in text  *)
(* order; writing with a letter (a text) sets the entry of that letter (of every letter of it).     *)
EXTENDS Integers, Sequences, FiniteSets, TLC

CONSTANTS N,          \* letters are 1..N, in the order of the alphabet
          Values,     \* the numbers that can be written
          MaxWrites

VARIABLES one,        \* [1..N -> Int]
          two,        \* [(1..N) \X (1..N) -> Int]
          writes      \* the writes so far: <<"one", letters, v>> or <<"two", <<a, b>>, v>>
vars == <<one, two, writes>>

Letter == 1..N
Texts == {<<a>> : a \in Letter} \cup {<<a, b>> : a \in Letter, b \in Letter}
Init == one = [a \in Letter |-> 0] /\ two = [p \in Letter \X Letter |-> 0] /\ writes = <<>>
Set1(t, v) == /\ Len(writes) < MaxWrites
              /\ one' = [a \in Letter |-> IF \E i \in DOMAIN t : t[i] = a THEN v ELSE one[a]]
              /\ writes' = Append(writes, <<"one", t, v>>) /\ UNCHANGED two
Set2(a, b, v) == /\ Len(writes) < MaxWrites
                 /\ two' = [two EXCEPT ![<<a, b>>] = v]
                 /\ writes' = Append(writes, <<"two", <<a, b>>, v>>) /\ UNCHANGED one
Next == (\E t \in Texts, v \in Values : Set1(t, v)) \/ (\E a \in Letter, b \in Letter, v \in Values : Set2(a, b, v))
Spec == Init /\ [][Next]_vars

Read1(t) == [i \in DOMAIN t |-> one[t[i]]]
Read2(s, t) == [i \in DOMAIN s |-> two[<<s[i], t[i]>>]]         \* two texts of one length: pairs position by position

\* ---- properties of the definition
\* the entry of a letter is the value of the last write that names it (0 if none)
LastWrite(a) == LET S == {i \in DOMAIN writes : writes[i][1] = "one" /\ \E j \in DOMAIN writes[i][2] : writes[i][2][j] = a} IN
                IF S = {} THEN 0 ELSE writes[CHOOSE i \in S : \A k \in S : k <= i][3]
LastWriteWins == \A a \in Letter : one[a] = LastWrite(a)
\* a write leaves every entry it does not name as it was
Frame == [][/\ \A a \in Letter : (~ \E j \in DOMAIN writes'[Len(writes')][2] : writes'[Len(writes')][1] = "one" /\ writes'[Len(writes')][2][j] = a) => one'[a] = one[a]
            /\ \A p \in Letter \X Letter : (~ (writes'[Len(writes')][1] = "two" /\ writes'[Len(writes')][2] = p)) => two'[p] = two[p]]_vars
==============================================================================
