------------------------------- MODULE MC_C18 -------------------------------
(* A batch of numbers grows one element at a time (any order, any mix of widths and signs).   *)
(* Formatting / parsing a batch is defined element by element, so the result for one row can *)
(* never depend on the other rows (action property RowsIndependent).                         *)
EXTENDS Numbers, Json
CONSTANTS Mode,      \* "format" | "parse" | "float"
          MaxBatch, Ks, MaxDigits
VARIABLES batch
vars == <<batch>>

RECURSIVE DigitStrings(_)
DigitStrings(n) == IF n = 0 THEN {<<>>} ELSE LET R == DigitStrings(n - 1) IN R \cup {Append(r, d) : r \in {q \in R : Len(q) = n - 1}, d \in {0, 1, 7, 9}}
IntTexts == {s \in DigitStrings(MaxDigits) : s # <<>>}
              \cup {<<sg>> \o s : sg \in {MINUS, PLUS}, s \in {q \in DigitStrings(MaxDigits - 1) : q # <<>>}}
FloatTexts == {[neg |-> n, int |-> i, frac |-> f, eneg |-> en, exp |-> e] :
                 n \in BOOLEAN, i \in {<<>>, <<0>>, <<1>>, <<1, 2>>, <<9, 9, 9>>}, f \in {<<>>, <<5>>, <<0, 1>>, <<2, 5, 0>>},
                 en \in BOOLEAN, e \in {<<>>, <<0>>, <<3>>, <<1, 0>>, <<3, 0, 0>>}}
\* an optional numeric column: short integer texts and the '.' placeholder (also an empty cell) that stands for a missing value
\* (and two values that need more than 32 bits, so that the width of the result does not depend on how the missing value is given)
OptTexts == {s \in IntTexts : Len(s) <= 2} \cup {<<DOT>>, <<>>} \cup {<<3, 0, 0, 0, 0, 0, 0, 0, 0, 7>>, <<MINUS, 9, 0, 0, 0, 0, 0, 0, 0, 0, 1>>}
\* float texts with more digits than a double holds (written by %.20f and the like): the value is still the decimal number
\* 17 significant digits, a sign and a two- or three-digit exponent of either sign: the longest shortest-round-trip texts of a double
D17 == <<2, 3, 4, 5, 6, 7, 8, 9, 0, 1, 2, 3, 4, 5, 6, 7>>
WideFloatTexts == {[neg |-> n, int |-> <<1>>, frac |-> D17, eneg |-> en, exp |-> e] : n \in BOOLEAN, en \in BOOLEAN, e \in {<<3, 0>>, <<3, 0, 0>>}}
LongFloatTexts == WideFloatTexts \cup {[neg |-> FALSE, int |-> <<3>>, frac |-> <<1, 4, 1, 5, 9, 2, 6, 5, 3, 5, 8, 9, 7, 9, 3, 2, 3, 8, 4, 6>>, eneg |-> FALSE, exp |-> <<>>],
                   [neg |-> FALSE, int |-> <<0>>, frac |-> <<1, 2, 3, 4, 5, 6, 7, 8, 9, 0, 1, 2, 3, 4, 5, 6, 7, 8, 9, 0>>, eneg |-> FALSE, exp |-> <<>>],
                   [neg |-> TRUE,  int |-> <<1, 2, 3, 4, 5, 6, 7, 8, 9, 0, 1, 2, 3, 4, 5, 6, 7, 8, 9>>, frac |-> <<5>>, eneg |-> FALSE, exp |-> <<>>],
                   [neg |-> FALSE, int |-> <<0>>, frac |-> <<0, 0, 0, 0, 0, 0, 0, 0, 0, 0, 0, 0, 0, 0, 0, 0, 0, 0, 0, 1, 2, 3, 4>>, eneg |-> FALSE, exp |-> <<>>]}
\* unsigned texts of exactly 16 digits whose values lie above 2^53 (no double holds them), next to short ones
WideIntTexts == {<<9, 0, 0, 7, 1, 9, 9, 2, 5, 4, 7, 4, 0, 9, 9, 3>>, <<9, 9, 9, 9, 9, 9, 9, 9, 9, 9, 9, 9, 9, 9, 9, 9>>, <<1, 0, 0, 0, 0, 0, 0, 0, 0, 0, 0, 0, 0, 0, 0, 1>>}
Items == CASE Mode = "format" -> Family(Ks) [] Mode = "parse" -> IntTexts \cup WideIntTexts [] Mode = "optional" -> OptTexts [] Mode = "longfloat" -> LongFloatTexts \cup {[neg |-> FALSE, int |-> <<1>>, frac |-> <<5>>, eneg |-> FALSE, exp |-> <<>>]}
               [] OTHER -> {ft \in FloatTexts : ~(ft.eneg /\ ft.exp = <<>>) /\ ~(ft.int = <<>> /\ ft.frac = <<>>)}

Init == batch = <<>>
Add(x) == Len(batch) < MaxBatch /\ batch' = Append(batch, x)
Next == \E x \in Items : Add(x)
Spec == Init /\ [][Next]_vars

Result(b) == CASE Mode = "format" -> [i \in DOMAIN b |-> CanonText(b[i])]
               [] Mode = "parse"  -> [i \in DOMAIN b |-> ParseInt(b[i])]
               [] Mode = "optional" -> [i \in DOMAIN b |-> IF b[i] \in {<<DOT>>, <<>>} THEN <<0, <<>>>> ELSE ParseInt(b[i])]      \* <<0, <<>>>> = missing
               [] OTHER           -> [i \in DOMAIN b |-> FloatText(b[i])]
\* design invariants
FormatParseInverse == Mode = "format" => \A i \in DOMAIN batch : IsCanonical(batch[i]) /\ ParseInt(CanonText(batch[i])) = batch[i]
ParseCanonical     == Mode = "parse"  => \A i \in DOMAIN batch : WellFormedIntText(batch[i]) /\ IsCanonical(ParseInt(batch[i]))
RowsIndependent    == [][\A i \in DOMAIN batch : Result(batch')[i] = Result(batch)[i]]_vars

Emit == batch # <<>> => PrintT(ToJson([mode |-> Mode, batch |-> batch, result |-> Result(batch),
                                        joined |-> IF Mode = "format" THEN JoinList(batch) ELSE <<>>]))
==============================================================================
