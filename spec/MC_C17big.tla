------------------------------ MODULE MC_C17big ------------------------------
(* Index of a FASTA file too large to write down byte by byte (several reader chunks of 5,000,000 bytes):     *)
(* the arithmetic index of Faidx.tla (TLC-checked equal to the byte-level one at small scope, OffsetsAgree)  *)
(* evaluated on records of millions of bases.                                                                 *)
EXTENDS Faidx, Json
BigRecs == <<[hdr |-> 2, L |-> 4000003, W |-> 60], [hdr |-> 7, L |-> 3999997, W |-> 70], [hdr |-> 2, L |-> 2500000, W |-> 80],
             [hdr |-> 2, L |-> 1200001, W |-> 50], [hdr |-> 7, L |-> 130, W |-> 50]>>
BigInit == recs = BigRecs /\ last = [op |-> "open"] /\ pos = 0 /\ nf = 0 /\ gen = 0
BigSpec == BigInit /\ [][UNCHANGED vars]_vars
EmitBig == PrintT(ToJson([recs |-> recs, index |-> [r \in DOMAIN recs |-> IndexRowArith(recs, r)],
                          flen |-> SizeBefore(recs, Len(recs)) + RecSize(recs[Len(recs)])]))
==============================================================================
