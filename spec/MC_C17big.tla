------------------------------ MODULE MC_C17big ------------------------------
(* Index of a FASTA file too large to write down byte by byte (several reader chunks of 5,000,000 bytes):     *)
(* the arithmetic index of Faidx.tla (TLC-checked equal to the byte-level one at small scope, OffsetsAgree)  *)
(* evaluated on records of millions of bases.                                                                 *)
EXTENDS Faidx, Json
\* (the first record is longer than one raw read of 5 000 000 bytes and is laid out so that byte 5 000 000 of the file is the newline of a
\* full line: 1 + 11 + 1 header bytes, 61 bytes per line, 13 + 61 * 81967 = 5 000 000)
BigRecs == <<[hdr |-> 11, L |-> 5100007, W |-> 60], [hdr |-> 7, L |-> 3999997, W |-> 70], [hdr |-> 2, L |-> 2500000, W |-> 80],
             [hdr |-> 2, L |-> 1200001, W |-> 50], [hdr |-> 7, L |-> 130, W |-> 50]>>
\* a second layout: six records of about 3.3 MB, so that the index is built from at least three reader chunks that each hold whole records
\* (the offsets of a chunk's records are counted from the start of the FILE: the sizes of ALL earlier chunks are added up)
BigRecs2 == <<[hdr |-> 2, L |-> 3300001, W |-> 60], [hdr |-> 7, L |-> 3299999, W |-> 70], [hdr |-> 2, L |-> 3300000, W |-> 80],
              [hdr |-> 2, L |-> 3300003, W |-> 50], [hdr |-> 7, L |-> 2100000, W |-> 61], [hdr |-> 2, L |-> 77, W |-> 50]>>
BigInit2 == recs = BigRecs2 /\ last = [op |-> "open"] /\ pos = 0 /\ nf = 0 /\ gen = 0
BigSpec2 == BigInit2 /\ [][UNCHANGED vars]_vars
\* a third layout: one record of exactly two raw reads without a newline after its last base, whose first read ends on a line break
\* (13 + 61 * 81967 = 5 000 000 and 13 + 61 * 163934 + 13 = 10 000 000); checked with FinalNL = FALSE
BigRecs3 == <<[hdr |-> 11, L |-> 9836053, W |-> 60]>>
BigInit3 == recs = BigRecs3 /\ last = [op |-> "open"] /\ pos = 0 /\ nf = 0 /\ gen = 0
BigSpec3 == BigInit3 /\ [][UNCHANGED vars]_vars
TwoFullReads == FinalNL \/ SizeBefore(BigRecs3, 1) + RecSize(BigRecs3[1]) - Len(EOL) = 10000000
BigInit == recs = BigRecs /\ last = [op |-> "open"] /\ pos = 0 /\ nf = 0 /\ gen = 0
BigSpec == BigInit /\ [][UNCHANGED vars]_vars
ReadBoundaryAtLineEnd == (1 + BigRecs[1].hdr + Len(EOL)) + (BigRecs[1].W + Len(EOL)) * ((5000000 - (1 + BigRecs[1].hdr + Len(EOL))) \div (BigRecs[1].W + Len(EOL))) = 5000000 \/ CRLF
EmitBig == PrintT(ToJson([recs |-> recs, crlf |-> CRLF, finalnl |-> FinalNL, index |-> [r \in DOMAIN recs |-> IndexRowArith(recs, r)],
                          flen |-> SizeBefore(recs, Len(recs)) + RecSize(recs[Len(recs)]) - (IF FinalNL THEN 0 ELSE Len(EOL))]))
==============================================================================
