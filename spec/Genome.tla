-------------------------------- MODULE Genome --------------------------------
(* Genome-wide operations respect chromosome boundaries (property C10).                      *)
(* A genome is a sequence of contig sizes G; an entry is [c, s, e, st] (contig index, half-  *)
(* open interval, strand).  EVERY genome-wide operation is DEFINED as the per-contig map of  *)
(* the single-contig definition of Intervals.tla applied to that contig's entries alone, so  *)
(* by construction no result depends on a neighbouring contig.                               *)
EXTENDS Intervals, TLC

\* entries of contig c, as plain intervals, in input order
RECURSIVE OnContig(_, _)
OnContig(es, c) == IF es = <<>> THEN <<>>
                   ELSE (IF Head(es).c = c THEN <<[s |-> Head(es).s, e |-> Head(es).e]>> ELSE <<>>) \o OnContig(Tail(es), c)

GMask(es, G)   == [c \in DOMAIN G |-> Mask(OnContig(es, c), G[c])]
GPileup(es, G) == [c \in DOMAIN G |-> Pileup(OnContig(es, c), G[c])]
\* merged: per contig, then listed in genome order as [c, s, e]
Tag(c, ivs) == [i \in DOMAIN ivs |-> [c |-> c, s |-> ivs[i].s, e |-> ivs[i].e]]
RECURSIVE Cat(_, _, _)
Cat(f, c, n) == IF c > n THEN <<>> ELSE f[c] \o Cat(f, c + 1, n)
GMerged(es, G, d) == Cat([c \in DOMAIN G |-> Tag(c, Merge(OnContig(es, c), G[c], d))], 1, Len(G))
GSorted(es, G)    == Cat([c \in DOMAIN G |-> Tag(c, SortIvs(OnContig(es, c)))], 1, Len(G))
\* row-wise operations keep the input order
GClip(es, G)      == [i \in DOMAIN es |-> LET r == Clip([s |-> es[i].s, e |-> es[i].e], G[es[i].c]) IN [c |-> es[i].c, s |-> r.s, e |-> r.e]]
GExtend(es, G, L) == [i \in DOMAIN es |-> LET r == ExtendToSize([s |-> es[i].s, e |-> es[i].e], es[i].st, L, G[es[i].c])
                                           IN [c |-> es[i].c, s |-> r.s, e |-> r.e]]
\* windows of `flank` bases on either side of a location, clipped to its contig
Window(c, p, flank, G) == [c |-> c, s |-> Max2(0, p - flank), e |-> Min2(G[c], p + flank + 1)]
\* values of a per-base function under an entry, reversed on the minus strand
Under(f(_, _), en, stranded) == LET fwd == [i \in 1..(en.e - en.s) |-> f(en.c, en.s + i - 1)]
                                IN IF stranded /\ en.st = "-" THEN [i \in DOMAIN fwd |-> fwd[Len(fwd) + 1 - i]] ELSE fwd

\* concatenated coordinates
Offset(G, c) == LET RECURSIVE O(_)
                    O(k) == IF k = 0 THEN 0 ELSE G[k] + O(k - 1)
                IN O(c - 1)
ToGlobal(G, c, p) == Offset(G, c) + p
ToLocal(G, g) == LET c == CHOOSE k \in DOMAIN G : Offset(G, k) <= g /\ g < Offset(G, k) + G[k] IN <<c, g - Offset(G, c)>>
TotalSize(G) == Offset(G, Len(G) + 1)
Bijection(G) == /\ \A c \in DOMAIN G : \A p \in 0..(G[c] - 1) : ToLocal(G, ToGlobal(G, c, p)) = <<c, p>>
                /\ \A g \in 0..(TotalSize(G) - 1) : ToGlobal(G, ToLocal(G, g)[1], ToLocal(G, g)[2]) = g
==============================================================================
