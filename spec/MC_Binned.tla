------------------------------ MODULE MC_Binned ------------------------------
EXTENDS Binned, Json
G2 == <<5, 3>>
G3 == <<4, 6, 1>>
Emit == calls # <<>> => PrintT(ToJson([sizes |-> Sizes, bin |-> B, calls |-> calls, counts |-> counts]))
==============================================================================
