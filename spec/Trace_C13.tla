------------------------------ MODULE Trace_C13 ------------------------------
(* Binding B for C13: recorded calls of get_kmers / get_minimizers / match_string on larger *)
(* random inputs (rows up to 80 letters, k up to 31).  Codes arrive as their base-A digits.  *)
EXTENDS Windows, TLC, TLCExt, Json, IOUtils
Traces == JsonDeserialize(IOEnv.TRACE_FILE)
VARIABLE i
Init == i = 1 /\ TLCSet(1, 0)
Clauses(t) == << <<"kmers", t.kmers = Kmers(t.rows, t.k)>>,
                 <<"minimizers", t.minim = Minimizers(t.rows, t.mk, t.mw)>>,
                 <<"match", t.match = Match(t.rows, t.pat)>> >>
Check(t) == LET cs == Clauses(t)
                bad == {c \in DOMAIN cs : ~cs[c][2]}
            IN /\ \A c \in bad : PrintT(<<"REJECT", t.tid, cs[c][1]>>)
               /\ IF bad = {} THEN TLCSet(1, TLCGet(1) + 1) ELSE TRUE
Next == i <= Len(Traces) /\ Check(Traces[i]) /\ i' = i + 1
Post == PrintT(<<"ACCEPTED", TLCGet(1)>>)
==============================================================================
