-------------------------------- MODULE Regex --------------------------------
(* Motif patterns over ragged sequences (bionumpy/sequence/string_matcher.py: RegexMatcher,          *)
(* FixedLenRegexMatcher, MaskedStringMatcher; specification growth, run by ./check EXT).              *)
(* A pattern is a sequence of elements: a letter, "any" ('.'), a class of letters ('[AG]') or a gap   *)
(* of lo..hi arbitrary letters ('.{lo,hi}').  The result has the shape of the sequences: position i   *)
(* of row r is TRUE iff some expansion of the pattern matches row r from position i on AND ends       *)
(* inside row r.  Rows do not see each other and nothing is read past the end of a row.               *)
EXTENDS Integers, Sequences, FiniteSets, TLC

CONSTANTS Letters,      \* set of letter codes (small integers)
          NRows, MaxLen,
          Patterns      \* set of patterns (sequences of elements)

Lit(c)      == [kind |-> "lit", c |-> c, set |-> {}, lo |-> 0, hi |-> 0]
Dot         == [kind |-> "any", c |-> 0, set |-> {}, lo |-> 0, hi |-> 0]
Cls(S)      == [kind |-> "cls", c |-> 0, set |-> S, lo |-> 0, hi |-> 0]
Gap(lo, hi) == [kind |-> "gap", c |-> 0, set |-> {}, lo |-> lo, hi |-> hi]

Anys(n) == [j \in 1..n |-> Dot]
\* all fixed-length expansions of a pattern (a gap becomes lo..hi wildcards)
RECURSIVE Expand(_)
Expand(p) == IF p = <<>> THEN {<<>>}
             ELSE LET rest == Expand(Tail(p)) IN
                  IF Head(p).kind = "gap"
                  THEN UNION {{Anys(n) \o t : t \in rest} : n \in Head(p).lo..Head(p).hi}
                  ELSE {<<Head(p)>> \o t : t \in rest}

ElemMatches(e, c) == CASE e.kind = "lit" -> c = e.c
                       [] e.kind = "any" -> TRUE
                       [] e.kind = "cls" -> c \in e.set
                       [] OTHER -> FALSE
MatchAt(row, i, fp) == /\ i + Len(fp) - 1 <= Len(row)
                       /\ \A j \in DOMAIN fp : ElemMatches(fp[j], row[i + j - 1])
RowResult(row, p) == [i \in DOMAIN row |-> \E fp \in Expand(p) : MatchAt(row, i, fp)]
Result(rs, p) == [r \in DOMAIN rs |-> RowResult(rs[r], p)]

VARIABLES rows, pat
vars == <<rows, pat>>
Init == rows = <<<<>>>> /\ pat \in Patterns
NewRow == Len(rows) < NRows /\ rows' = Append(rows, <<>>) /\ UNCHANGED pat
AddLetter(c) == /\ Len(rows[Len(rows)]) < MaxLen
                /\ rows' = [rows EXCEPT ![Len(rows)] = Append(@, c)] /\ UNCHANGED pat
Next == NewRow \/ \E c \in Letters : AddLetter(c)
Spec == Init /\ [][Next]_vars

MinLen(p) == LET S == {Len(fp) : fp \in Expand(p)} IN CHOOSE m \in S : \A x \in S : m <= x
\* rows are independent
RowLocal == \A r \in DOMAIN rows : Result(rows, pat)[r] = Result(<<rows[r]>>, pat)[1]
\* no match starts where even the shortest expansion would not fit
NothingPastTheEnd == \A r \in DOMAIN rows : \A i \in DOMAIN rows[r] : (i + MinLen(pat) - 1 > Len(rows[r])) => ~Result(rows, pat)[r][i]
\* extending the last row or adding a row never changes the answers of earlier rows
Local == [][\A r \in 1..(Len(rows) - 1) : Result(rows', pat)[r] = Result(rows, pat)[r]]_vars
==============================================================================
