------------------------------- MODULE MC_C01 -------------------------------
(* Model-checking harness for ChunkReader: one TLC run explores every configuration         *)
(* (entry sequence x CRLF x final newline x chunk size 1..|file|+2 x seek/carry mode) of    *)
(* one format family and prints every completed behaviour with the L1 predictions.          *)
EXTENDS ChunkReader, Json

\* byte-exact shapes of the smallest format of each family (see engine/drivers/C01.py):
ShapesDelim   == << <<5>>, <<6>>, <<9>> >>                 \* BED3 lines "a\t0\t1", "ab\t0\t1", "abc\t10\t11"
ShapesTwoLine == << <<2, 1>>, <<3, 4>> >>                  \* ">a" / "A";  ">ab" / "ACGT"
ShapesFastq   == << <<2, 1, 1, 1>>, <<3, 2, 1, 2>>, <<2, 3, 3, 3>> >>   \* last: "+ab" line
ShapesWrapped == << <<2, 1>>, <<3, 2, 2, 1>>, <<2, 3, 3>> >>            \* header + sequence lines

Config == [es |-> es, crlf |-> crlf, finalnl |-> finalnl, K |-> K, mode |-> mode, flen |-> Len(file)]

Emit == pc = "done" =>
          PrintT(ToJson([cfg |-> Config, sizes |-> sizes, reads |-> reads, lines |-> linesRead,
                         complete |-> (delivered = Norm)]))
==============================================================================
