-------------------------------- MODULE Binned --------------------------------
(* Counting positions in fixed-width bins over a genome (bionumpy/genomic_data/binned_genome.py; *)
(* specification growth beyond the listed properties, bound through the C10 check).            *)
(* A binned genome has, per contig of size n, ceil(n / B) bins; count(entries) adds one to the   *)
(* bin  position div B  of the entry's own contig; counts accumulate over calls; contigs never   *)
(* share a bin (the last bin of a contig may be narrower than B).                                *)
EXTENDS Integers, Sequences, FiniteSets, TLC

CONSTANTS Sizes,      \* sequence of contig sizes
          B,          \* bin width
          MaxCalls, MaxPerCall

VARIABLES counts,     \* per contig: sequence of bin counts
          calls       \* history: the batches counted so far (each a sequence of <<contig, position>>)
vars == <<counts, calls>>

NBins(c) == (Sizes[c] + B - 1) \div B
Positions == {<<c, p>> : c \in DOMAIN Sizes, p \in 0..5} \cap {<<c, p>> \in (DOMAIN Sizes) \X (0..5) : p < Sizes[c]}
Batches == UNION {[1..n -> Positions] : n \in 0..MaxPerCall}

Init == counts = [c \in DOMAIN Sizes |-> [b \in 1..NBins(c) |-> 0]] /\ calls = <<>>

\* mechanism (binned_genome.py:26-30): one flat vector of bins with per-contig offsets; a batch is added by bincount
Offset(c) == LET RECURSIVE S(_)
                 S(k) == IF k = 0 THEN 0 ELSE S(k - 1) + NBins(k)
             IN S(c - 1)
FlatBin(e) == Offset(e[1]) + (e[2] \div B)            \* 0-based index into the flat vector
Count(batch) == /\ Len(calls) < MaxCalls
                /\ counts' = [c \in DOMAIN Sizes |-> [b \in 1..NBins(c) |->
                                counts[c][b] + Cardinality({i \in DOMAIN batch : FlatBin(batch[i]) = Offset(c) + b - 1})]]
                /\ calls' = Append(calls, batch)
Count_ == \E batch \in Batches : Count(batch)
Next == Count_
Spec == Init /\ [][Next]_vars

\* meaning: the count of a bin is the number of entries, over all calls, on that contig and in that bin
AllEntries == LET RECURSIVE F(_)
                  F(k) == IF k = 0 THEN <<>> ELSE F(k - 1) \o calls[k]
              IN F(Len(calls))
Meaning == [c \in DOMAIN Sizes |-> [b \in 1..NBins(c) |->
              Cardinality({i \in DOMAIN AllEntries : AllEntries[i][1] = c /\ AllEntries[i][2] \div B = b - 1})]]
CountsRight == counts = Meaning
\* no entry is lost, and none is counted on another contig
Conserved == \A c \in DOMAIN Sizes :
               LET RECURSIVE S(_)
                   S(b) == IF b = 0 THEN 0 ELSE S(b - 1) + counts[c][b]
               IN S(NBins(c)) = Cardinality({i \in DOMAIN AllEntries : AllEntries[i][1] = c})
==============================================================================
