------------------------------ MODULE Trace_C09 ------------------------------
(* Binding B for C09: records returned by the implementation when a genomic array is converted *)
(* back to bedGraph / intervals.  The property asks for non-overlapping records in genome      *)
(* order that expand to exactly the same dense array (not for maximal runs); TLC decides it    *)
(* with WellFormed and Dense of GenomicArray.tla.                                              *)
EXTENDS GenomicArray, TLCExt, Json, IOUtils
Traces == JsonDeserialize(IOEnv.TRACE_FILE)
VARIABLE i
Init == i = 1 /\ TLCSet(1, 0)
BoolDense(recs, G) == [c \in DOMAIN G |-> [q \in 1..G[c] |-> CoverCount(recs, c, q - 1) > 0]]
Ok(t) == /\ WellFormed(t.runs, t.G)
         /\ IF t.bool THEN BoolDense(t.runs, t.G) = t.res ELSE Dense(t.runs, t.G) = t.res
Next == /\ i <= Len(Traces)
        /\ IF Ok(Traces[i]) THEN TLCSet(1, TLCGet(1) + 1) ELSE PrintT(<<"REJECT", Traces[i].tid>>)
        /\ i' = i + 1
Post == PrintT(<<"ACCEPTED", TLCGet(1)>>)
==============================================================================
