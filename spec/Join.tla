--------------------------------- MODULE Join ---------------------------------
(* Left join of two key-grouped streams (bionumpy/streams/left_join.py; specification growth, ./check EXT). *)
(* Both sides are sequences of (key, data) groups with distinct keys.  Meaning: if the keys of the right     *)
(* side are a subsequence of the keys of the left side, every left group is paired with the right group of   *)
(* its key, or with "none"; otherwise the join is refused.  Mechanism (L1): one look-ahead group of the      *)
(* right side, advanced only on a key match; a left-over right group at the end is an error.                 *)
EXTENDS Integers, Sequences, FiniteSets, TLC
CONSTANTS Keys, MaxLeft, MaxRight

RECURSIVE Arr(_, _)
Arr(S, k) == IF k = 0 THEN {<<>>} ELSE UNION {{<<x>> \o t : t \in Arr(S \ {x}, k - 1)} : x \in S}
KeySeqs(n) == UNION {Arr(Keys, k) : k \in 0..n}

VARIABLES left, right,      \* configuration: key sequences (data of key k on the left is <<"L", k>>, on the right <<"R", k>>)
          li, ri, out, status
vars == <<left, right, li, ri, out, status>>

IsSubsequence(s, t) == \E f \in [DOMAIN s -> DOMAIN t] : (\A i \in DOMAIN s : t[f[i]] = s[i]) /\ (\A i, j \in DOMAIN s : i < j => f[i] < f[j])
\* L0
Joinable == IsSubsequence(right, left)
Joined == [i \in DOMAIN left |-> <<left[i], IF \E j \in DOMAIN right : right[j] = left[i] THEN "R" ELSE "none">>]

Init == left \in KeySeqs(MaxLeft) /\ right \in KeySeqs(MaxRight) /\ li = 1 /\ ri = 1 /\ out = <<>> /\ status = "run"
\* one left group per step (left_join.py:5-10)
Step == /\ status = "run" /\ li <= Len(left)
        /\ IF ri <= Len(right) /\ right[ri] = left[li]
           THEN out' = Append(out, <<left[li], "R">>) /\ ri' = ri + 1
           ELSE out' = Append(out, <<left[li], "none">>) /\ ri' = ri
        /\ li' = li + 1 /\ UNCHANGED <<left, right, status>>
\* after the last left group: anything left on the right is an error (:11-18)
Finish == /\ status = "run" /\ li > Len(left)
          /\ status' = IF ri <= Len(right) THEN "error" ELSE "done"
          /\ UNCHANGED <<left, right, li, ri, out>>
Next == Step \/ Finish
Spec == Init /\ [][Next]_vars

\* the mechanism implements the meaning
Right == /\ status = "done" => (Joinable /\ out = Joined)
         /\ status = "error" => ~Joinable
PrefixRight == \A i \in DOMAIN out : out[i][1] = left[i]
==============================================================================
