------------------------------- MODULE Windows -------------------------------
(* Sliding-window sequence functions on a ragged collection of sequences (property C13).    *)
(* A sequence is a TLA+ sequence of letter codes 0..A-1.  For a window length w >= 1 a row  *)
(* of length n has one window per start i in 1..n-w+1 (none if n < w); every function is    *)
(* defined per row, so no window can span two rows.                                         *)
(* A k-mer is represented by its letters themselves: they ARE the little-endian base-A      *)
(* digits of its code (code = SUM letter[j] * A^(j-1)), which is how codes of any size      *)
(* travel between TLC (32-bit integers) and the implementation (int64).                     *)
EXTENDS Integers, Sequences, FiniteSets

NWin(r, w) == IF Len(r) >= w THEN Len(r) - w + 1 ELSE 0
Window(r, i, w) == SubSeq(r, i, i + w - 1)

\* k-mers of one row / of all rows
KmersRow(r, k) == [i \in 1..NWin(r, k) |-> Window(r, i, k)]
Kmers(rows, k) == [j \in DOMAIN rows |-> KmersRow(rows[j], k)]

\* numeric order of codes = lexicographic order of the digits read from the last letter backwards
RECURSIVE DigitsLess(_, _, _)
DigitsLess(x, y, p) == IF p = 0 THEN FALSE
                       ELSE IF x[p] # y[p] THEN x[p] < y[p] ELSE DigitsLess(x, y, p - 1)
CodeLeq(x, y) == x = y \/ DigitsLess(x, y, Len(x))
\* minimiser of the window of w letters starting at i: the numerically least of its k-mers
MinimizerAt(r, i, k, w) == LET ks == {Window(r, j, k) : j \in i..(i + w - k)}
                           IN CHOOSE m \in ks : \A x \in ks : CodeLeq(m, x)
MinimizersRow(r, k, w) == [i \in 1..NWin(r, w) |-> MinimizerAt(r, i, k, w)]
Minimizers(rows, k, w) == [j \in DOMAIN rows |-> MinimizersRow(rows[j], k, w)]

\* string matching
MatchRow(r, pat) == [i \in 1..NWin(r, Len(pat)) |-> Window(r, i, Len(pat)) = pat]
Match(rows, pat) == [j \in DOMAIN rows |-> MatchRow(rows[j], pat)]

\* motif score with an integer matrix M[letter + 1][position]
RECURSIVE ScoreFrom(_, _, _, _)
ScoreFrom(r, i, M, p) == IF p = 0 THEN 0 ELSE M[r[i + p - 1] + 1][p] + ScoreFrom(r, i, M, p - 1)
ScoresRow(r, M, w) == [i \in 1..NWin(r, w) |-> ScoreFrom(r, i, M, w)]
Scores(rows, M, w) == [j \in DOMAIN rows |-> ScoresRow(rows[j], M, w)]

\* k-mer counts over the whole collection: set of <<kmer, count>>
AllKmers(rows, k) == UNION {{Window(rows[j], i, k) : i \in 1..NWin(rows[j], k)} : j \in DOMAIN rows}
CountOf(rows, k, km) == Cardinality({<<j, i>> \in (DOMAIN rows) \X (1..20) :
                                        i <= NWin(rows[j], k) /\ Window(rows[j], i, k) = km})
Counts(rows, k) == {<<km, CountOf(rows, k, km)>> : km \in AllKmers(rows, k)}
RowCounts(rows, k) == [j \in DOMAIN rows |-> Counts(<<rows[j]>>, k)]

\* k-mer index (sequence/indexing/kmer_indexing.py): the rows that hold a k-mer, in row order, each once
IndexOf(rows, k, km) == {j \in DOMAIN rows : \E i \in 1..NWin(rows[j], k) : Window(rows[j], i, k) = km}
Index(rows, k) == {<<km, IndexOf(rows, k, km)>> : km \in AllKmers(rows, k)}

TotalWindows(rows, w) == LET RECURSIVE S(_)
                             S(j) == IF j = 0 THEN 0 ELSE NWin(rows[j], w) + S(j - 1)
                         IN S(Len(rows))
==============================================================================
