------------------------------ MODULE Trace_C08 ------------------------------
(* Binding B for C08: a batch of recorded executions of bionumpy's interval functions on    *)
(* larger random inputs.  One TLC step consumes one recorded execution and decides, clause  *)
(* by clause, whether the observed results are the values Intervals.tla defines.            *)
(* Verdicts are total: a rejected clause is printed and validation continues.               *)
EXTENDS Intervals, TLC, TLCExt, Json, IOUtils

Traces == JsonDeserialize(IOEnv.TRACE_FILE)

VARIABLE i
Init == i = 1 /\ TLCSet(1, 0)

Clauses(t) ==
  <<  <<"pileup",  t.pileup  = Pileup(t.a, t.size)>>,
      <<"mask",    t.mask    = Mask(t.a, t.size)>>,
      <<"sorted",  t.sorted  = SortIvs(t.a)>>,
      <<"merge",   t.merge   = Merge(t.a, t.size, t.d)>>,
      <<"overlap", t.overlap = OverlapCount(t.pa, t.pb, t.size)>>,
      <<"unique",  t.unique  = UniqueIntersect(t.a, t.pb)>> >>

Check(t) == LET cs  == Clauses(t)
                bad == {k \in DOMAIN cs : ~cs[k][2]}
            IN /\ \A k \in bad : PrintT(<<"REJECT", t.tid, cs[k][1]>>)
               /\ IF bad = {} THEN TLCSet(1, TLCGet(1) + 1) ELSE TRUE

Next == /\ i <= Len(Traces)
        /\ Check(Traces[i])
        /\ i' = i + 1

Post == PrintT(<<"ACCEPTED", TLCGet(1)>>)
==============================================================================
