-------------------------------- MODULE Table --------------------------------
(* Tables read from a file: the lazy (three-store) refinement against the eager ADT, and    *)
(* the pass-through of original bytes on writing (properties C04, C05; frame part of C20).  *)
(*                                                                                          *)
(* A source file has NRec records.  Record i is the handle i; its field f has the parsed    *)
(* value <<"v", i, f>> and the original text <<"t", i, f>>; its whole line (including the   *)
(* original line end and any trailing columns that are not fields of the entry type) is     *)
(* <<"raw", i>>.  A replaced column holds fresh values <<"n", k, j>> whose text is          *)
(* <<"c", ...>> = the canonical serialisation of that value.                                *)
(*                                                                                          *)
(* L0 (ghost): the eager table, one sequence of values per field.                           *)
(* L1: the lazy table of bionumpy/bnpdataclass/lazybnpdataclass.py:72-214 over the          *)
(*     throughput extractor of bionumpy/io/file_buffers.py:400-457:                         *)
(*       buf     the physical buffer: sequence of record handles it holds                   *)
(*       rows    the records selected, as positions into buf   (_entry_starts/_field_starts)*)
(*       contig  _is_contiguous: rows = 1..Len(buf)                                         *)
(*       cache   _computed_values : field -> column       overlay  _set_values              *)
(* AsBuilt = TRUE transcribes np.concatenate of the pinned tree, which takes cache/overlay  *)
(* keys from the first operand only (TLC refutes Equivalent: finding F2).                   *)
EXTENDS Integers, Sequences, FiniteSets, TLC

CONSTANTS NRec, Fields, MaxPool, MaxDepth, Chunked, AsBuilt, Sels,
          Ops       \* operation alphabet enabled in this run: subset of {"len","tolist","write","get","replace","index","concat"}

Handle == 1..NRec

\* ---------------------------------------------------------------- selections (NumPy-style indexing)
\* positions (1-based) selected from a table of n rows
Sel(kind, n) ==
  CASE kind = "all"   -> [j \in 1..n |-> j]                                   \* t[:]
    [] kind = "tail"  -> [j \in 1..(IF n > 0 THEN n - 1 ELSE 0) |-> j + 1]    \* t[1:]
    [] kind = "head"  -> [j \in 1..(IF n > 0 THEN n - 1 ELSE 0) |-> j]        \* t[:-1]
    [] kind = "step"  -> [j \in 1..((n + 1) \div 2) |-> 2 * j - 1]            \* t[::2]
    [] kind = "rev"   -> [j \in 1..n |-> n + 1 - j]                           \* t[::-1]
    [] kind \in {"mask", "lmask"} -> [j \in 1..(n \div 2) |-> 2 * j]          \* t[[False, True, False, ...]] as a NumPy array / a plain Python list
    [] kind = "list"  -> IF n = 0 THEN <<>> ELSE <<n, 1, 1>>                  \* t[[-1, 0, 0]]  (repeats, reordering)
    [] kind = "empty" -> <<>>                                                 \* t[0:0]
Pick(s, idx) == [j \in DOMAIN idx |-> s[idx[j]]]

\* ---------------------------------------------------------------- state
VARIABLES pool,     \* sequence of lazy tables
          ghost,    \* sequence of eager tables (L0), same indices
          prog,     \* history: the operations applied so far
          obs,      \* expected observable of the last operation (L0)
          nrep,     \* number of Replace operations so far (names fresh values)
          err

vars == <<pool, ghost, prog, obs, nrep, err>>

Ext(fn, k, v) == [x \in DOMAIN fn \cup {k} |-> IF x = k THEN v ELSE fn[x]]
Parsed(t, f)  == [j \in DOMAIN t.rows |-> <<"v", t.buf[t.rows[j]], f>>]
\* __getattr__: overlay first, then cache, else parse                     lazybnpdataclass.py:117-125
LazyGet(t, f) == IF f \in DOMAIN t.overlay THEN t.overlay[f]
                 ELSE IF f \in DOMAIN t.cache THEN t.cache[f] ELSE Parsed(t, f)
NRows(t) == Len(t.rows)

FromFile(lo, hi) == [buf |-> [j \in 1..(hi - lo + 1) |-> lo + j - 1], rows |-> [j \in 1..(hi - lo + 1) |-> j],
                     contig |-> TRUE, cache |-> <<>>, overlay |-> <<>>]
GhostFromFile(lo, hi) == [f \in Fields |-> [j \in 1..(hi - lo + 1) |-> <<"v", lo + j - 1, f>>]]

Init == /\ IF Chunked /\ NRec >= 2
           THEN \E k \in 1..(NRec - 1) :
                  /\ pool = <<FromFile(1, k), FromFile(k + 1, NRec)>>
                  /\ ghost = <<GhostFromFile(1, k), GhostFromFile(k + 1, NRec)>>
                  /\ prog = <<[op |-> "read_chunks", split |-> k]>>
           ELSE /\ pool = <<FromFile(1, NRec)>> /\ ghost = <<GhostFromFile(1, NRec)>>
                /\ prog = <<[op |-> "read"]>>
        /\ obs = [kind |-> "none"] /\ nrep = 0 /\ err = "none"

\* ---------------------------------------------------------------- what a table writes (L0 and L1)
\* L0, from the ghost alone: an unmodified record is its raw line; otherwise field texts joined
RowBytesL0(t, j) == IF t.overlay = <<>> THEN <<"raw", t.buf[t.rows[j]]>>
                    ELSE <<"join", t.buf[t.rows[j]],
                           [f \in Fields |-> IF f \in DOMAIN t.overlay THEN <<"c", t.overlay[f][j]>>
                                             ELSE <<"t", t.buf[t.rows[j]], f>>]>>
BytesL0(t) == [j \in DOMAIN t.rows |-> RowBytesL0(t, j)]
\* L1: get_buffer (lazybnpdataclass.py:191-209): without overlay the extractor's data is written; `data`
\* compacts the buffer to the selected rows first unless the extractor claims to be contiguous
BytesL1(t) == IF t.overlay = <<>>
              THEN IF t.contig THEN [j \in DOMAIN t.buf |-> <<"raw", t.buf[j]>>]
                               ELSE [j \in DOMAIN t.rows |-> <<"raw", t.buf[t.rows[j]]>>]
              ELSE BytesL0(t)
\* the eager table writes the canonical text of every value
\* (fields of the entry type that the model does not name are never replaced: the handle says which
\*  record their text/value comes from)
HandleOf(t, j) == t.buf[t.rows[j]]
BytesEager(t, g) == [j \in DOMAIN t.rows |-> <<"join", HandleOf(t, j), [f \in Fields |-> <<"c", g[f][j]>>]>>]
RowsOf(t, g) == [j \in DOMAIN t.rows |-> [h |-> HandleOf(t, j), vals |-> [f \in Fields |-> g[f][j]]]]

\* ---------------------------------------------------------------- actions
Step(op, o) == prog' = Append(prog, op) /\ obs' = o
NewTable(t, g) == pool' = Append(pool, t) /\ ghost' = Append(ghost, g)
Room == Len(pool) < MaxPool /\ Len(prog) < MaxDepth /\ err = "none"
CanObs == Len(prog) < MaxDepth /\ err = "none"

LenOp(i) == /\ CanObs /\ Step([op |-> "len", t |-> i], [kind |-> "len", val |-> NRows(pool[i])])
            /\ UNCHANGED <<pool, ghost, nrep, err>>

GetOp(i, f) == /\ CanObs
               /\ Step([op |-> "get", t |-> i, f |-> f], [kind |-> "col", val |-> ghost[i][f]])
               /\ pool' = [pool EXCEPT ![i].cache =
                             IF f \in DOMAIN pool[i].overlay \/ f \in DOMAIN pool[i].cache THEN @
                             ELSE Ext(@, f, Parsed(pool[i], f))]
               /\ UNCHANGED <<ghost, nrep, err>>

IndexOp(i, kind) ==
  /\ Room
  /\ LET t   == pool[i]
         idx == Sel(kind, NRows(t))
     IN /\ NewTable([buf |-> t.buf, rows |-> Pick(t.rows, idx), contig |-> FALSE,     \* file_buffers.py:430-435
                     cache   |-> [f \in DOMAIN t.cache   |-> Pick(t.cache[f], idx)],  \* lazybnpdataclass.py:143-149
                     overlay |-> [f \in DOMAIN t.overlay |-> Pick(t.overlay[f], idx)]],
                    [f \in Fields |-> Pick(ghost[i][f], idx)])
        /\ Step([op |-> "index", t |-> i, sel |-> kind], [kind |-> "len", val |-> Len(idx)])
  /\ UNCHANGED <<nrep, err>>

ReplaceOp(i, f) ==
  /\ Room
  /\ LET t   == pool[i]
         col == [j \in DOMAIN t.rows |-> <<"n", nrep + 1, j>>]
     IN /\ NewTable([t EXCEPT !.cache = <<>>, !.overlay = Ext(t.overlay, f, col)],   \* __replace__ :151-154
                    [ghost[i] EXCEPT ![f] = col])
        /\ Step([op |-> "replace", t |-> i, f |-> f], [kind |-> "len", val |-> NRows(t)])
  /\ nrep' = nrep + 1 /\ UNCHANGED err

\* t.f = values: explicit assignment changes that one table in place and nothing else                 __setattr__ :136-141
AssignOp(i, f) ==
  /\ CanObs
  /\ LET t   == pool[i]
         col == [j \in DOMAIN t.rows |-> <<"n", nrep + 1, j>>]
     IN /\ pool' = [pool EXCEPT ![i] = [t EXCEPT !.overlay = Ext(t.overlay, f, col),
                                                 !.cache = [h \in (DOMAIN t.cache) \ {f} |-> t.cache[h]]]]
        /\ ghost' = [ghost EXCEPT ![i] = [ghost[i] EXCEPT ![f] = col]]
        /\ Step([op |-> "assign", t |-> i, f |-> f], [kind |-> "len", val |-> NRows(t)])
  /\ nrep' = nrep + 1 /\ UNCHANGED err

ConcatOp(i, k) ==
  /\ Room
  /\ LET t == pool[i]
         u == pool[k]
         n == NRows(t)
         shift == Len(t.buf)
         both(S) == [f \in S |-> LazyGet(t, f) \o LazyGet(u, f)]
         g == [f \in Fields |-> ghost[i][f] \o ghost[k][f]]
         base == [buf |-> t.buf \o u.buf,                                               \* file_buffers.py:416-427
                  rows |-> t.rows \o [j \in DOMAIN u.rows |-> u.rows[j] + shift],
                  contig |-> t.contig /\ u.contig]
     IN IF AsBuilt
        THEN IF DOMAIN t.overlay \subseteq DOMAIN u.overlay /\ DOMAIN t.cache \subseteq DOMAIN u.cache
             THEN /\ NewTable([buf |-> base.buf, rows |-> base.rows, contig |-> base.contig,  \* keys of the first operand only :182-187
                               cache   |-> [f \in DOMAIN t.cache   |-> t.cache[f] \o u.cache[f]],
                               overlay |-> [f \in DOMAIN t.overlay |-> t.overlay[f] \o u.overlay[f]]], g)
                  /\ Step([op |-> "concat", t |-> i, u |-> k], [kind |-> "len", val |-> n + NRows(u)])
                  /\ UNCHANGED err
             ELSE err' = "KeyError in lazy mode only" /\ UNCHANGED <<pool, ghost, prog, obs>>
        ELSE /\ NewTable([buf |-> base.buf, rows |-> base.rows, contig |-> base.contig,
                          cache   |-> both(DOMAIN t.cache \cap DOMAIN u.cache),
                          overlay |-> both(DOMAIN t.overlay \cup DOMAIN u.overlay)], g)
             /\ Step([op |-> "concat", t |-> i, u |-> k], [kind |-> "len", val |-> n + NRows(u)])
             /\ UNCHANGED err
  /\ UNCHANGED nrep

ToRowsOp(i) == /\ CanObs
               /\ Step([op |-> "tolist", t |-> i], [kind |-> "rows", val |-> RowsOf(pool[i], ghost[i])])
               /\ pool' = [pool EXCEPT ![i].cache =                                  \* get_data_object :159-171
                             [f \in Fields \ DOMAIN pool[i].overlay |-> LazyGet(pool[i], f)]]
               /\ UNCHANGED <<ghost, nrep, err>>

WriteOp(i) == /\ CanObs
              /\ Step([op |-> "write", t |-> i],
                      [kind |-> "bytes", lazy |-> BytesL0(pool[i]), eager |-> BytesEager(pool[i], ghost[i])])
              /\ UNCHANGED <<pool, ghost, nrep, err>>

\* t[j] with a Python or a NumPy integer: one entry (an observation; the table itself is unchanged)     lazybnpdataclass.py:144-146
RowOp(i, j, form) == /\ CanObs
                     /\ Step([op |-> "row", t |-> i, j |-> j, form |-> form], [kind |-> "rows", val |-> <<RowsOf(pool[i], ghost[i])[j]>>])
                     /\ UNCHANGED <<pool, ghost, nrep, err>>

Len_     == "len" \in Ops /\ \E i \in DOMAIN pool : LenOp(i)
ToRows_  == "tolist" \in Ops /\ \E i \in DOMAIN pool : ToRowsOp(i)
Write_   == "write" \in Ops /\ \E i \in DOMAIN pool : WriteOp(i)
Get_     == "get" \in Ops /\ \E i \in DOMAIN pool : \E f \in Fields : GetOp(i, f)
Replace_ == "replace" \in Ops /\ \E i \in DOMAIN pool : \E f \in Fields : ReplaceOp(i, f)
Index_   == "index" \in Ops /\ \E i \in DOMAIN pool : \E kind \in Sels : IndexOp(i, kind)
Concat_  == "concat" \in Ops /\ \E i \in DOMAIN pool : \E k \in DOMAIN pool : ConcatOp(i, k)
Assign_  == "assign" \in Ops /\ \E i \in DOMAIN pool : \E f \in Fields : AssignOp(i, f)
Row_     == "row" \in Ops /\ \E i \in DOMAIN pool : \E j \in {k \in {1, NRows(pool[i])} : k >= 1 /\ k <= NRows(pool[i])} : \E form \in {"int", "npint"} : RowOp(i, j, form)
Next == Len_ \/ ToRows_ \/ Write_ \/ Get_ \/ Replace_ \/ Index_ \/ Concat_ \/ Row_ \/ Assign_

Spec == Init /\ [][Next]_vars

\* ---------------------------------------------------------------- properties
\* C05: every field of every lazy table reads as the eager table's column, after any history
Equivalent == err = "none" /\ \A i \in DOMAIN pool : \A f \in Fields : LazyGet(pool[i], f) = ghost[i][f]
\* caches and overlays stay row-aligned with the getter
Aligned == \A i \in DOMAIN pool :
             /\ \A f \in DOMAIN pool[i].cache   : Len(pool[i].cache[f])   = NRows(pool[i])
             /\ \A f \in DOMAIN pool[i].overlay : Len(pool[i].overlay[f]) = NRows(pool[i])
             /\ \A j \in DOMAIN pool[i].rows : pool[i].rows[j] \in DOMAIN pool[i].buf
\* C04: the mechanism (contiguity flag, compaction) writes exactly the selected records' original bytes
PassThrough == \A i \in DOMAIN pool : BytesL1(pool[i]) = BytesL0(pool[i])
ContigSound == \A i \in DOMAIN pool : pool[i].contig => pool[i].rows = [j \in DOMAIN pool[i].buf |-> j]
\* C20 (frame): no operation changes what an existing table reads or writes
\* (an explicit assignment t.f = values may change table t, and only t)
Assigned == IF prog' # prog /\ prog'[Len(prog')].op = "assign" THEN {prog'[Len(prog')].t} ELSE {}
Frame == [][\A i \in (DOMAIN pool) \ Assigned : /\ \A f \in Fields : LazyGet(pool'[i], f) = LazyGet(pool[i], f)
                                                /\ BytesL0(pool'[i]) = BytesL0(pool[i])
                                                /\ ghost'[i] = ghost[i]]_vars
DepthBound == Len(prog) <= MaxDepth
==============================================================================
