------------------------------- MODULE Signature -------------------------------
(* Mutation-type counts (bionumpy/variants/mutation_signature.py; specification growth beyond  *)
(* the listed properties, bound through the C14 check, whose subject - complement and reverse   *)
(* complement - it builds on).                                                                   *)
(* A single-base substitution at position p of a reference with `Flank` bases of context on      *)
(* either side has the type  left[R>A]right  where R is the reference base and A the alternative; *)
(* when R is a purine (A, G) the type is read from the other strand: context reverse-complemented *)
(* and A complemented, so that R is always C or T.  Substitutions whose context holds an N are    *)
(* not counted.  Counting is over all substitutions of all contigs.                               *)
EXTENDS Integers, Sequences, FiniteSets, TLC

CONSTANTS Flank, Refs,     \* Refs: sequence of reference sequences (letters 0..4 = A C G T N)
          MaxSnps

VARIABLES snps             \* sequence of <<contig, position (0-based), alternative base>>
vars == <<snps>>

Comp(x) == IF x = 4 THEN 4 ELSE 3 - x
RevComp(s) == [i \in DOMAIN s |-> Comp(s[Len(s) + 1 - i])]
Interior(c, p) == p >= Flank /\ p + Flank < Len(Refs[c])
Context(c, p) == SubSeq(Refs[c], p + 1 - Flank, p + 1 + Flank)          \* 2*Flank+1 letters, the middle one is the reference base
Candidates == {<<c, p, a>> \in (DOMAIN Refs) \X (0..7) \X (0..3) :
                  p < Len(Refs[c]) /\ Interior(c, p) /\ Refs[c][p + 1] # 4 /\ a # Refs[c][p + 1]}

Init == snps = <<>>
Add(s) == Len(snps) < MaxSnps /\ snps' = Append(snps, s)
Next == \E s \in Candidates : Add(s)
Spec == Init /\ [][Next]_vars

HasN(s) == \E i \in DOMAIN s : s[i] = 4
\* the type of one substitution: <<context with pyrimidine middle, alternative on that strand>>
TypeOf(s) == LET ctx == Context(s[1], s[2])
                 mid == ctx[Flank + 1]
             IN IF mid \in {1, 3} THEN <<ctx, s[3]>> ELSE <<RevComp(ctx), Comp(s[3])>>
Counted == {i \in DOMAIN snps : ~HasN(Context(snps[i][1], snps[i][2]))}
Types == {TypeOf(snps[i]) : i \in Counted}
Counts == {<<t, Cardinality({i \in Counted : TypeOf(snps[i]) = t})>> : t \in Types}

\* ---- properties of the definition
PyrimidineMiddle == \A t \in Types : t[1][Flank + 1] \in {1, 3} /\ t[2] # t[1][Flank + 1]
Total == LET RECURSIVE S(_)
             S(X) == IF X = {} THEN 0 ELSE LET x == CHOOSE x \in X : TRUE IN x[2] + S(X \ {x})
         IN S(Counts) = Cardinality(Counted)
\* strand symmetry: a substitution and the same substitution read on the opposite strand have the same type
StrandSymmetric == \A i \in Counted :
                     LET ctx == Context(snps[i][1], snps[i][2]) IN
                     TypeOf(snps[i]) = (LET r == RevComp(ctx) a == Comp(snps[i][3]) IN
                                        IF r[Flank + 1] \in {1, 3} THEN <<r, a>> ELSE <<RevComp(r), Comp(a)>>)
==============================================================================
