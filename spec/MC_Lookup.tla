------------------------------- MODULE MC_Lookup -------------------------------
EXTENDS Lookup, Json
Emit == PrintT(ToJson([n |-> N, writes |-> writes, one |-> [a \in Letter |-> one[a]],
                       two |-> [a \in Letter |-> [b \in Letter |-> two[<<a, b>>]]]]))
==============================================================================
