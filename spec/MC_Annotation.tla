---------------------------- MODULE MC_Annotation ----------------------------
EXTENDS Annotation, Json
Emit == entries # <<>> => PrintT(ToJson([entries |-> entries, genes |-> Genes, transcripts |-> Transcripts, exons |-> Exons]))
==============================================================================
