------------------------------- MODULE MC_Join -------------------------------
EXTENDS Join, Json
Emit == status \in {"done", "error"} => PrintT(ToJson([left |-> left, right |-> right, status |-> status, out |-> out, joinable |-> Joinable]))
==============================================================================
