------------------------------- MODULE MC_C10 -------------------------------
(* Entries are added one at a time in any order on any contig of the genome (so contigs without *)
(* entries, intervals ending exactly at a contig end followed by intervals starting at position *)
(* 0 of the next contig, nested and duplicated entries all occur).                              *)
EXTENDS Genome, Json
CONSTANTS G, MaxEntries, Over      \* Over: how far a stop may stick out of its contig (input of clip only)
VARIABLES es
vars == <<es>>
G1 == <<3>>
G2 == <<2, 2>>
G3 == <<2, 1, 2>>
G4 == <<1, 2, 1, 2>>
G2b == <<3, 2>>

Strand(i) == IF i % 2 = 1 THEN "+" ELSE "-"
Init == es = <<>>
Add == /\ Len(es) < MaxEntries
       /\ \E c \in DOMAIN G : \E s \in 0..(G[c] - 1) : \E e \in (s + 1)..G[c] : \E st \in {"+", "-"} :
            es' = Append(es, [c |-> c, s |-> s, e |-> e, st |-> st])
Next == Add
Spec == Init /\ [][Next]_vars

\* design invariants
BijectionOK == Bijection(G)
\* no contig's result changes when an entry is added on ANOTHER contig (action property)
NoNeighbourEffect == [][\A c \in DOMAIN G : es'[Len(es')].c # c =>
                          /\ GMask(es', G)[c] = GMask(es, G)[c] /\ GPileup(es', G)[c] = GPileup(es, G)[c]]_vars
MergedInside == \A d \in 0..1 : \A i \in DOMAIN GMerged(es, G, d) :
                   LET m == GMerged(es, G, d)[i] IN 0 <= m.s /\ m.s < m.e /\ m.e <= G[m.c]

Val(c, p) == 10 * c + p        \* a track with a distinct value at every base
Stick(i) == [c |-> es[i].c, s |-> es[i].s, e |-> es[i].e + (IF i % 2 = 0 THEN Over ELSE 0), st |-> es[i].st]
Emit == PrintT(ToJson([G |-> G, es |-> es,
                       mask |-> GMask(es, G), pileup |-> GPileup(es, G),
                       merged |-> [d \in 1..2 |-> GMerged(es, G, d - 1)],
                       sorted |-> GSorted(es, G),
                       clipin |-> [i \in DOMAIN es |-> Stick(i)],
                       clip |-> GClip([i \in DOMAIN es |-> Stick(i)], G),
                       extend |-> [L \in 1..3 |-> GExtend(es, G, L)],
                       windows |-> [f \in 1..2 |-> [i \in DOMAIN es |-> Window(es[i].c, es[i].s, f - 1, G)]],
                       under |-> [i \in DOMAIN es |-> Under(Val, es[i], FALSE)],
                       understr |-> [i \in DOMAIN es |-> Under(Val, es[i], TRUE)],
                       \* derived intervals keep the strand of the entry they come from: values under the clipped entries and under the windows
                       underclip |-> [i \in DOMAIN es |-> LET r == GClip([k \in DOMAIN es |-> Stick(k)], G)[i]
                                                          IN Under(Val, [c |-> r.c, s |-> r.s, e |-> r.e, st |-> es[i].st], TRUE)],
                       \* windows around the strand-aware start of each entry (its first base on its own strand): still stranded
                       undertss |-> [f \in 1..2 |-> [i \in DOMAIN es |-> LET p == IF es[i].st = "+" THEN es[i].s ELSE es[i].e - 1
                                                                              w == Window(es[i].c, p, f - 1, G)
                                                                          IN Under(Val, [c |-> w.c, s |-> w.s, e |-> w.e, st |-> es[i].st], TRUE)]],
                       underwin |-> [f \in 1..2 |-> [i \in DOMAIN es |-> LET w == Window(es[i].c, es[i].s, f - 1, G)
                                                                          IN Under(Val, [c |-> w.c, s |-> w.s, e |-> w.e, st |-> es[i].st], TRUE)]],
                       offsets |-> [c \in DOMAIN G |-> Offset(G, c)]]))
==============================================================================
