------------------------------- MODULE MC_C10 -------------------------------
(* Entries are added one at a time in any order on any contig of the genome (so contigs without *)
(* entries, intervals ending exactly at a contig end followed by intervals starting at position *)
(* 0 of the next contig, nested and duplicated entries all occur).                              *)
EXTENDS Genome, Json
CONSTANTS G, MaxEntries, Over      \* Over: how far a stop may stick out of its contig (input of clip only)
VARIABLES es
vars == <<es>>
G1 == <<3>>
G2 == <<2, 2>>
G3 == <<2, 1, 2>>
G4 == <<1, 2, 1, 2>>
G2b == <<3, 2>>

Strand(i) == IF i % 2 = 1 THEN "+" ELSE "-"
Init == es = <<>>
Add == /\ Len(es) < MaxEntries
       /\ \E c \in DOMAIN G : \E s \in 0..(G[c] - 1) : \E e \in (s + 1)..G[c] : \E st \in {"+", "-"} :
            es' = Append(es, [c |-> c, s |-> s, e |-> e, st |-> st])
Next == Add
Spec == Init /\ [][Next]_vars

\* design invariants
BijectionOK == Bijection(G)
\* no contig's result changes when an entry is added on ANOTHER contig (action property)
NoNeighbourEffect == [][\A c \in DOMAIN G : es'[Len(es')].c # c =>
                          /\ GMask(es', G)[c] = GMask(es, G)[c] /\ GPileup(es', G)[c] = GPileup(es, G)[c]]_vars
MergedInside == \A d \in 0..1 : \A i \in DOMAIN GMerged(es, G, d) :
                   LET m == GMerged(es, G, d)[i] IN 0 <= m.s /\ m.s < m.e /\ m.e <= G[m.c]

\* locations mapped into the coordinates of the intervals that hold them (GenomicIntervals.map_locations): every base of the genome in
\* genome order is a location; interval i (in the order given) receives the locations of ITS contig with s <= p < e, at position p - s.
\* A location never lands in an interval of another contig (the first base of a contig is not inside an interval that ends the previous one).
AllLocs == LET RECURSIVE L(_) L(c) == IF c > Len(G) THEN <<>> ELSE [p \in 1..G[c] |-> [c |-> c, p |-> p - 1]] \o L(c + 1) IN L(1)
MapLoc == LET RECURSIVE M(_)
              M(i) == IF i > Len(es) THEN <<>>
                      ELSE LET inside == SelectSeq(AllLocs, LAMBDA l : l.c = es[i].c /\ es[i].s <= l.p /\ l.p < es[i].e)
                           IN [k \in DOMAIN inside |-> [iv |-> i, pos |-> inside[k].p - es[i].s, c |-> inside[k].c, p |-> inside[k].p]] \o M(i + 1)
          IN M(1)
MapLocInside == \A k \in DOMAIN MapLoc : MapLoc[k].pos >= 0 /\ MapLoc[k].pos < es[MapLoc[k].iv].e - es[MapLoc[k].iv].s /\ MapLoc[k].c = es[MapLoc[k].iv].c

Val(c, p) == 10 * c + p        \* a track with a distinct value at every base
Stick(i) == [c |-> es[i].c, s |-> es[i].s, e |-> es[i].e + (IF i % 2 = 0 THEN Over ELSE 0), st |-> es[i].st]
Emit == PrintT(ToJson([G |-> G, es |-> es,
                       mask |-> GMask(es, G), pileup |-> GPileup(es, G),
                       merged |-> [d \in 1..2 |-> GMerged(es, G, d - 1)],
                       sorted |-> GSorted(es, G),
                       clipin |-> [i \in DOMAIN es |-> Stick(i)],
                       clip |-> GClip([i \in DOMAIN es |-> Stick(i)], G),
                       extend |-> [L \in 1..3 |-> GExtend(es, G, L)],
                       windows |-> [f \in 1..2 |-> [i \in DOMAIN es |-> Window(es[i].c, es[i].s, f - 1, G)]],
                       under |-> [i \in DOMAIN es |-> Under(Val, es[i], FALSE)],
                       understr |-> [i \in DOMAIN es |-> Under(Val, es[i], TRUE)],
                       \* derived intervals keep the strand of the entry they come from: values under the clipped entries and under the windows
                       underclip |-> [i \in DOMAIN es |-> LET r == GClip([k \in DOMAIN es |-> Stick(k)], G)[i]
                                                          IN Under(Val, [c |-> r.c, s |-> r.s, e |-> r.e, st |-> es[i].st], TRUE)],
                       \* windows around the strand-aware start of each entry (its first base on its own strand): still stranded
                       undertss |-> [f \in 1..2 |-> [i \in DOMAIN es |-> LET p == IF es[i].st = "+" THEN es[i].s ELSE es[i].e - 1
                                                                              w == Window(es[i].c, p, f - 1, G)
                                                                          IN Under(Val, [c |-> w.c, s |-> w.s, e |-> w.e, st |-> es[i].st], TRUE)]],
                       underwin |-> [f \in 1..2 |-> [i \in DOMAIN es |-> LET w == Window(es[i].c, es[i].s, f - 1, G)
                                                                          IN Under(Val, [c |-> w.c, s |-> w.s, e |-> w.e, st |-> es[i].st], TRUE)]],
                       maploc |-> [k \in DOMAIN MapLoc |-> <<MapLoc[k].iv, MapLoc[k].pos>>],
                       offsets |-> [c \in DOMAIN G |-> Offset(G, c)]]))
==============================================================================
